// Pattern-level unit for the Rips builders; no GUDHI code lives here.
#include <gudhi/Simplex_tree.h>
#include <gudhi/graph_simplicial_complex.h>
#include <gudhi/Rips_complex.h>

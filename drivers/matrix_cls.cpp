// Instantiation unit for the classes of Persistence_matrix under option sets with removable columns: only the
// class records (canonical member types, how each class is copied) are used. No GUDHI code lives here.
#include <gudhi/Matrix.h>
#include <gudhi/persistence_matrix_options.h>
#include <vector>

using namespace Gudhi::persistence_matrix;

template <bool boundary, bool vine, bool removable, Column_indexation_types idx>
struct Gsa_copt : Default_options<Column_types::INTRUSIVE_SET, true> {
  static const bool is_of_boundary_type = boundary;
  static const Column_indexation_types column_indexation_type = idx;
  static const bool has_column_pairings = true;
  static const bool has_vine_update = vine;
  static const bool has_removable_columns = removable;
  static const bool has_map_column_container = removable;
};

template <class Opt>
void gsa_copy() {
  Matrix<Opt> m;
  Matrix<Opt> c(m);
  c = m;
}

#define GSA_CGRID(B, V, R)                                                          \
  template void gsa_copy<Gsa_copt<B, V, R, Column_indexation_types::CONTAINER> >();  \
  template void gsa_copy<Gsa_copt<B, V, R, Column_indexation_types::IDENTIFIER> >();
GSA_CGRID(true, false, false)
GSA_CGRID(true, false, true)
GSA_CGRID(true, true, false)
GSA_CGRID(true, true, true)
GSA_CGRID(false, false, false)
GSA_CGRID(false, false, true)
GSA_CGRID(false, true, false)
GSA_CGRID(false, true, true)

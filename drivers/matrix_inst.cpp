// Instantiation unit for Matrix.h entry points whose return type depends on the option set.
// No GUDHI code lives here; everything analysed is parsed from /repo's headers.
#include <gudhi/Matrix.h>
#include <gudhi/persistence_matrix_options.h>
#include <vector>

using namespace Gudhi::persistence_matrix;

template <bool boundary, bool vine, Column_indexation_types idx>
struct Gsa_opt : Default_options<Column_types::INTRUSIVE_SET, true> {
  static const bool is_of_boundary_type = boundary;
  static const Column_indexation_types column_indexation_type = idx;
  static const bool has_column_pairings = true;
  static const bool has_vine_update = vine;
};

template <class Opt>
void gsa_insert() {
  Matrix<Opt> m;
  std::vector<unsigned> b;
  m.insert_boundary(b);
  m.insert_boundary(7u, b);
}

#define GSA_GRID(B, V)                                                   \
  template void gsa_insert<Gsa_opt<B, V, Column_indexation_types::CONTAINER> >();  \
  template void gsa_insert<Gsa_opt<B, V, Column_indexation_types::POSITION> >();   \
  template void gsa_insert<Gsa_opt<B, V, Column_indexation_types::IDENTIFIER> >();
GSA_GRID(true, false)    // boundary matrix
GSA_GRID(true, true)     // RU matrix with vine updates
GSA_GRID(false, false)   // chain matrix
GSA_GRID(false, true)    // chain matrix with vine updates

// positive control of the "no state between calls" rule of C14: a function-local thread_local object and a static data
// member, which the extractor must report on every run (the rule expects zero such variables in the analysed headers)
template <class T>
struct Gsa_probe_workspace {
  static int calls;
  static Gsa_probe_workspace& workspace() {
    static thread_local Gsa_probe_workspace w;
    return w;
  }
};
template <class T>
int Gsa_probe_workspace<T>::calls = 0;

// Pattern-level unit for the smaller modules; no GUDHI code lives here.
#include <gudhi/Bitmap_cubical_complex_base.h>
#include <gudhi/Bitmap_cubical_complex_periodic_boundary_conditions_base.h>
#include <gudhi/Bitmap_cubical_complex.h>
#include <gudhi/Flag_complex_edge_collapser.h>
#include <gudhi/Toplex_map.h>
#include <gudhi/Lazy_toplex_map.h>
#include <gudhi/Persistence_on_a_line.h>
#include <gudhi/Persistence_on_rectangle.h>

// Positive controls for rules whose instance count on the unchanged tree is zero: each pattern below must be reported by
// its rule on every run (the rule is run on this file with its path filter lifted; a control that stays silent makes
// the check end as analysis-broken). Nothing here is compiled into anything.
#include <map>
#include <utility>

// C01 R15: an "exact" dimension stated from one input only
struct Gsa_control_tree {
  void set_dimension(int d, bool exact = true) { dimension_ = d; lowered_ = !exact; }
  int dimension_ = -1;
  bool lowered_ = false;
};
inline void gsa_control_read(Gsa_control_tree& st, int max_dim_read) { st.set_dimension(max_dim_read); }

// C15 E1-field-unguarded: an unconditional member swapped only under an option test
template <class Options>
struct Gsa_control_pairing {
  std::map<int, int> idToPosition_;
  int other_ = 0;
  friend void swap(Gsa_control_pairing& a, Gsa_control_pairing& b) {
    std::swap(a.other_, b.other_);
    if constexpr (Options::has_removable_columns) {
      a.idToPosition_.swap(b.idToPosition_);
    }
  }
};

// Instantiation unit for the coefficient-field classes: concrete integer types for the value-level rules of C10.
// No GUDHI code lives here; everything analysed is parsed from /repo's headers.
#include <cassert>
#include <gudhi/Fields/Z2_field.h>
#include <gudhi/Fields/Z2_field_operators.h>
#include <gudhi/Fields/Zp_field.h>
#include <gudhi/Fields/Zp_field_shared.h>
#include <gudhi/Fields/Zp_field_operators.h>
#include <gudhi/Fields/Multi_field.h>
#include <gudhi/Fields/Multi_field_shared.h>
#include <gudhi/Fields/Multi_field_operators.h>
#include <gudhi/Fields/Multi_field_small.h>
#include <gudhi/Fields/Multi_field_small_shared.h>
#include <gudhi/Fields/Multi_field_small_operators.h>
#include <gudhi/Persistent_cohomology/Field_Zp.h>
#include <iostream>  // Persistent_cohomology/Multi_field.h uses std::cerr without including it
#include <gudhi/Persistent_cohomology/Multi_field.h>

using namespace Gudhi::persistence_fields;

template class Gudhi::persistence_fields::Zp_field_operators<unsigned int>;
template class Gudhi::persistence_fields::Zp_field_element<65521>;
// the element type is a documented template parameter ("unsigned int, long unsigned int, etc."): narrower and wider
template class Gudhi::persistence_fields::Zp_field_operators<unsigned short>;
template class Gudhi::persistence_fields::Zp_field_operators<unsigned long>;
// (Zp_field_element with a non-default element type is instantiated through its arithmetic below: some of its
// other members only compile for the default type)
template class Gudhi::persistence_fields::Shared_Zp_field_element<unsigned short>;
template class Gudhi::persistence_fields::Shared_Zp_field_element<unsigned long>;
// (the small multi-field classes do not compile with a non-default element type: not a shipped configuration)
template class Gudhi::persistence_fields::Shared_Zp_field_element<unsigned int>;
template class Gudhi::persistence_fields::Multi_field_element_with_small_characteristics<2, 23>;
template class Gudhi::persistence_fields::Shared_multi_field_element_with_small_characteristics<unsigned int>;

// member templates taking machine integers: instantiate with the signed and unsigned types users pass
template <class F, class I>
void gsa_use_value(I v) {
  F f(v);
  F g;
  g = v;
  g += v;
  g -= v;
  g *= v;
  (void)(g == v);
  (void)f;
}
template void gsa_use_value<Zp_field_element<65521>, int>(int);
template void gsa_use_value<Zp_field_element<65521>, long>(long);
template void gsa_use_value<Zp_field_element<65521>, short>(short);
template void gsa_use_value<Zp_field_element<65521>, unsigned int>(unsigned int);
template void gsa_use_value<Zp_field_element<65521>, unsigned long>(unsigned long);
template void gsa_use_value<Zp_field_element<65521, unsigned short>, int>(int);
template void gsa_use_value<Zp_field_element<65521, unsigned long>, int>(int);
template void gsa_use_value<Shared_Zp_field_element<unsigned short>, int>(int);
template void gsa_use_value<Shared_Zp_field_element<unsigned long>, long>(long);
template void gsa_use_value<Shared_Zp_field_element<unsigned int>, int>(int);
template void gsa_use_value<Shared_Zp_field_element<unsigned int>, long>(long);
template void gsa_use_value<Shared_Zp_field_element<unsigned int>, unsigned int>(unsigned int);
template void gsa_use_value<Multi_field_element_with_small_characteristics<2, 23>, int>(int);
template void gsa_use_value<Multi_field_element_with_small_characteristics<2, 23>, long>(long);
template void gsa_use_value<Multi_field_element_with_small_characteristics<2, 23>, unsigned int>(unsigned int);
template void gsa_use_value<Shared_multi_field_element_with_small_characteristics<unsigned int>, int>(int);
template void gsa_use_value<Shared_multi_field_element_with_small_characteristics<unsigned int>, long>(long);
template void gsa_use_value<Shared_multi_field_element_with_small_characteristics<unsigned int>, unsigned int>(unsigned int);
// (a 64-bit element type: the members used here compile, the whole class does not)
template void gsa_use_value<Shared_multi_field_element_with_small_characteristics<unsigned long>, long>(long);
template void gsa_use_value<Shared_multi_field_element_with_small_characteristics<unsigned long>, unsigned long>(unsigned long);

template <class Ops, class I>
void gsa_use_ops(const Ops& ops, I v) {
  (void)ops.get_value(v);
}
template void gsa_use_ops<Zp_field_operators<unsigned short>, int>(const Zp_field_operators<unsigned short>&, int);
template void gsa_use_ops<Zp_field_operators<unsigned long>, long>(const Zp_field_operators<unsigned long>&, long);
template void gsa_use_ops<Zp_field_operators<unsigned int>, int>(const Zp_field_operators<unsigned int>&, int);
template void gsa_use_ops<Zp_field_operators<unsigned int>, long>(const Zp_field_operators<unsigned int>&, long);
template void gsa_use_ops<Zp_field_operators<unsigned int>, short>(const Zp_field_operators<unsigned int>&, short);
template void gsa_use_ops<Multi_field_operators_with_small_characteristics, int>(const Multi_field_operators_with_small_characteristics&, int);
template void gsa_use_ops<Multi_field_operators_with_small_characteristics, long>(const Multi_field_operators_with_small_characteristics&, long);
// machine integers wider than the element type: they must reach the reduction untruncated
template void gsa_use_ops<Zp_field_operators<unsigned int>, unsigned long>(const Zp_field_operators<unsigned int>&, unsigned long);
template void gsa_use_ops<Zp_field_operators<unsigned short>, unsigned int>(const Zp_field_operators<unsigned short>&, unsigned int);
template void gsa_use_ops<Multi_field_operators_with_small_characteristics, unsigned long>(const Multi_field_operators_with_small_characteristics&, unsigned long);
template void gsa_use_value<Shared_Zp_field_element<unsigned int>, unsigned long>(unsigned long);
template void gsa_use_value<Multi_field_element_with_small_characteristics<2, 23>, unsigned long>(unsigned long);
template void gsa_use_value<Shared_multi_field_element_with_small_characteristics<unsigned int>, unsigned long>(unsigned long);

// Pattern-level unit: parses the Simplex_tree headers; no GUDHI code lives here.
#include <gudhi/Simplex_tree.h>

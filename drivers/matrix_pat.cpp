// Pattern-level unit: parses the Persistence_matrix / Fields / Zigzag headers; no GUDHI code lives here.
#include <gudhi/Matrix.h>
#include <gudhi/Fields/Z2_field.h>
#include <gudhi/Fields/Z2_field_operators.h>
#include <gudhi/Fields/Zp_field.h>
#include <gudhi/Fields/Zp_field_shared.h>
#include <gudhi/Fields/Zp_field_operators.h>
#include <gudhi/Fields/Multi_field.h>
#include <gudhi/Fields/Multi_field_shared.h>
#include <gudhi/Fields/Multi_field_operators.h>
#include <gudhi/Fields/Multi_field_small.h>
#include <gudhi/Fields/Multi_field_small_shared.h>
#include <gudhi/Fields/Multi_field_small_operators.h>
#include <gudhi/zigzag_persistence.h>
#include <gudhi/filtered_zigzag_persistence.h>

"""Helpers over the JSON IR emitted by tools/gsa-extract.cc (see that file for the node shapes)."""

CAST_KINDS = ('ImplicitCastExpr', 'CStyleCastExpr', 'CXXStaticCastExpr', 'CXXFunctionalCastExpr',
              'CXXConstCastExpr', 'CXXReinterpretCastExpr', 'CXXDynamicCastExpr')
CALL_KINDS = ('CallExpr', 'CXXMemberCallExpr', 'CXXOperatorCallExpr')
NAMED_SLOTS = ('init', 'condvar', 'cond', 'then', 'else', 'inc', 'body', 'var', 'range', 'lhs', 'sub', 'value',
               'try')


def kids(n):
    """Ordered sub-nodes (dicts) of a node, syntactic order."""
    out = []
    if n is None:
        return out
    k = n.get('k')
    if k == 'DeclStmt':
        return [d for d in n.get('decls', []) if isinstance(d, dict)]
    if k == 'VarDecl':
        return [n['init']] if n.get('init') else []
    if k == 'CXXTryStmt':
        return [n['try']] + [h for h in n.get('handlers', []) if h]
    if k == 'LambdaExpr':
        return [n['body']] if n.get('body') else []
    if k == 'DoStmt':
        return [x for x in (n.get('body'), n.get('cond')) if x]
    for s in NAMED_SLOTS:
        v = n.get(s)
        if isinstance(v, dict):
            out.append(v)
    for c in n.get('c', []) or []:
        if isinstance(c, dict):
            out.append(c)
    return out


def walk(n, into_lambdas=True):
    """Pre-order over all nodes."""
    if n is None:
        return
    stack = [n]
    while stack:
        x = stack.pop()
        yield x
        if x.get('k') == 'LambdaExpr' and not into_lambdas and x is not n:
            continue
        ks = kids(x)
        stack.extend(reversed(ks))


def skipcasts(n):
    while n is not None and n.get('k') in CAST_KINDS and n.get('c'):
        n = n['c'][0]
    return n


def is_call(n):
    return n is not None and n.get('k') in CALL_KINDS


def callee_expr(n):
    c = n.get('c') or []
    return skipcasts(c[0]) if c else None


def call_name(n):
    """Simple name of the function called, resolved or not."""
    if n.get('cn'):
        return n['cn']
    ce = callee_expr(n)
    if ce is None:
        return None
    if ce.get('n'):
        return ce['n']
    return None


def call_receiver(n):
    """Object expression of a member call (None for implicit this / free function)."""
    if n.get('k') == 'CXXOperatorCallExpr':
        c = n.get('c') or []
        return c[1] if len(c) > 1 else None
    ce = callee_expr(n)
    if ce is None:
        return None
    if ce.get('k') in ('MemberExpr', 'CXXDependentScopeMemberExpr', 'UnresolvedMemberExpr'):
        c = ce.get('c') or []
        if c:
            r = skipcasts(c[0])
            if r is not None and r.get('k') == 'CXXThisExpr':
                return None
            return c[0]
    return None


def is_this_call(n):
    """Call on implicit/explicit this (or unqualified name inside the class)."""
    if n.get('k') == 'CXXOperatorCallExpr':
        return False
    ce = callee_expr(n)
    if ce is None:
        return False
    k = ce.get('k')
    if k in ('MemberExpr', 'CXXDependentScopeMemberExpr', 'UnresolvedMemberExpr'):
        c = ce.get('c') or []
        if not c:
            return True
        r = skipcasts(c[0])
        return r is not None and r.get('k') == 'CXXThisExpr'
    if k in ('UnresolvedLookupExpr', 'DeclRefExpr', 'DependentScopeDeclRefExpr'):
        return True
    return False


def call_args(n):
    c = n.get('c') or []
    if n.get('k') == 'CXXOperatorCallExpr':
        return c[1:]
    return c[1:]


MEMBER_KINDS = ('MemberExpr', 'CXXDependentScopeMemberExpr', 'UnresolvedMemberExpr')


def this_field(n):
    """If n (casts skipped) is an access to a field of *this, return its name."""
    n = skipcasts(n)
    if n is None:
        return None
    if n.get('k') in MEMBER_KINDS:
        c = n.get('c') or []
        if not c:
            return n.get('n') if n.get('implicit') else None
        b = skipcasts(c[0])
        if b is not None and b.get('k') == 'CXXThisExpr':
            return n.get('n')
    return None


def access_root(n):
    """Root of an access path: ('this', field) | ('var', id, name) | ('this',None) | None."""
    seen = 0
    while n is not None and seen < 200:
        seen += 1
        n = skipcasts(n)
        if n is None:
            return None
        k = n.get('k')
        if k == 'CXXThisExpr':
            return ('this', None)
        if k == 'DeclRefExpr':
            return ('var', n.get('id'), n.get('n'))
        if k in MEMBER_KINDS:
            f = this_field(n)
            if f is not None:
                return ('this', f)
            c = n.get('c') or []
            if not c:
                return ('this', n.get('n'))
            n = c[0]
            continue
        if k in CALL_KINDS:
            r = call_receiver(n)
            if r is None:
                if is_this_call(n) and n.get('k') != 'CXXOperatorCallExpr':
                    return ('this', None)
                return None
            n = r
            continue
        if k in ('UnaryOperator', 'ArraySubscriptExpr', 'ParenExpr'):
            c = n.get('c') or []
            n = c[0] if c else None
            continue
        return None
    return None


def show(n, depth=0):
    """Rough C-like rendering of an expression/statement for reports and matching."""
    if n is None:
        return ''
    if depth > 40:
        return '...'
    k = n.get('k')
    c = n.get('c') or []
    d = depth + 1
    if k in CAST_KINDS:
        return show(c[0], d) if c else ''
    if k == 'CXXThisExpr':
        return 'this'
    if k == 'CXXNullPtrLiteralExpr':
        return 'nullptr'
    if k in ('DeclRefExpr', 'UnresolvedLookupExpr', 'DependentScopeDeclRefExpr'):
        return (n.get('qual', '') or '') + (n.get('n') or '?')
    if k in MEMBER_KINDS:
        if not c or n.get('implicit'):
            return n.get('n') or '?'
        b = show(c[0], d)
        if b == 'this':
            return n.get('n') or '?'
        return b + ('->' if n.get('arrow') else '.') + (n.get('n') or '?')
    if k == 'SubstNonTypeTemplateParmExpr':
        return n.get('n') or show(c[0], d)
    if k in ('IntegerLiteral', 'CXXBoolLiteralExpr', 'FloatingLiteral', 'CharacterLiteral'):
        return str(n.get('v'))
    if k == 'StringLiteral':
        return '"%s"' % n.get('v', '')
    if k == 'CXXOperatorCallExpr':
        op = n.get('op')
        a = c[1:]
        if op == '()':
            return show(a[0], d) + '(' + ', '.join(show(x, d) for x in a[1:]) + ')'
        if op == '[]':
            return show(a[0], d) + '[' + ', '.join(show(x, d) for x in a[1:]) + ']'
        if op == '->':
            return show(a[0], d)
        if len(a) == 1:
            return op + show(a[0], d)
        if len(a) == 2:
            if op in ('++', '--'):
                return show(a[0], d) + op
            return '(' + show(a[0], d) + ' ' + op + ' ' + show(a[1], d) + ')'
        return op + '(' + ', '.join(show(x, d) for x in a) + ')'
    if k in ('CallExpr', 'CXXMemberCallExpr'):
        return show(c[0], d) + '(' + ', '.join(show(x, d) for x in c[1:]) + ')'
    if k in ('BinaryOperator', 'CompoundAssignOperator'):
        return '(' + show(c[0], d) + ' ' + n.get('op', '?') + ' ' + show(c[1], d) + ')'
    if k == 'UnaryOperator':
        if n.get('postfix'):
            return show(c[0], d) + n.get('op', '')
        return n.get('op', '') + show(c[0], d)
    if k == 'ConditionalOperator':
        return '(' + show(c[0], d) + ' ? ' + show(c[1], d) + ' : ' + show(c[2], d) + ')'
    if k == 'ArraySubscriptExpr':
        return show(c[0], d) + '[' + show(c[1], d) + ']'
    if k in ('CXXConstructExpr', 'CXXTemporaryObjectExpr'):
        if len(c) == 1 and (n.get('copy') or n.get('move') or n.get('elidable')):
            return show(c[0], d)
        return (n.get('ctor') or n.get('t') or 'T') + '{' + ', '.join(show(x, d) for x in c) + '}'
    if k == 'CXXUnresolvedConstructExpr':
        return (n.get('ctorT') or 'T') + '(' + ', '.join(show(x, d) for x in c) + ')'
    if k == 'CXXNewExpr':
        return 'new ' + (n.get('alloc') or '') + '(' + ', '.join(show(x, d) for x in c) + ')'
    if k == 'CXXDeleteExpr':
        return 'delete ' + (show(c[0], d) if c else '')
    if k == 'CXXThrowExpr':
        return 'throw ' + (show(c[0], d) if c else '')
    if k == 'LambdaExpr':
        return '[lambda@%s]' % n.get('l')
    if k == 'ReturnStmt':
        return 'return ' + show(n.get('value'), d)
    if k == 'InitListExpr':
        return '{' + ', '.join(show(x, d) for x in c) + '}'
    if k == 'ParenListExpr':
        return '(' + ', '.join(show(x, d) for x in c) + ')'
    if k == 'UnaryExprOrTypeTraitExpr':
        return 'sizeof(' + (n.get('argT') or (show(c[0], d) if c else '')) + ')'
    if k == 'IfStmt':
        return 'if (' + show(n.get('cond'), d) + ')'
    if k == 'VarDecl':
        return (n.get('n') or '?') + ((' = ' + show(n.get('init'), d)) if n.get('init') else '')
    if k == 'DeclStmt':
        return '; '.join(show(x, d) for x in n.get('decls', []))
    if k == 'PackExpansionExpr':
        return (show(c[0], d) if c else '') + '...'
    return k + '(' + ', '.join(show(x, d) for x in kids(n)) + ')'


def contains(n, pred, into_lambdas=True):
    for x in walk(n, into_lambdas):
        if pred(x):
            return True
    return False


def find_all(n, pred, into_lambdas=True):
    return [x for x in walk(n, into_lambdas) if pred(x)]


ASSIGN_OPS = ('=', '+=', '-=', '*=', '/=', '%=', '<<=', '>>=', '&=', '|=', '^=')


def write_target(n):
    """If n writes through an lvalue (assignment / ++ / --), return the target expression."""
    k = n.get('k')
    c = n.get('c') or []
    if k in ('BinaryOperator', 'CompoundAssignOperator') and n.get('op') in ASSIGN_OPS:
        return c[0]
    if k == 'UnaryOperator' and n.get('op') in ('++', '--'):
        return c[0]
    if k == 'CXXOperatorCallExpr' and n.get('op') in ASSIGN_OPS + ('++', '--'):
        return c[1] if len(c) > 1 else None
    return None


def loc(fn, n):
    f = n.get('f') or fn.get('file')
    return '%s:%s' % (f, n.get('l'))


def parents(root):
    """id(node) -> parent node"""
    par = {}
    for x in walk(root):
        for k in kids(x):
            par[id(k)] = x
    return par

"""Index-kind analysis (a units-of-measure check for the three index spaces of the persistence matrices).

The library addresses columns by MatIdx (`Index`), cells by IDIdx (`ID_index`) and filtration positions by PosIdx
(`Pos_index`); all three are `unsigned int`, so the compiler accepts any mix-up. The declared typedef names carry the
kind: this pass infers a kind for every expression (declared type of variables and parameters, return type of the
callee, key / mapped kind of the dictionaries) and reports every place where two different kinds meet: an argument
handed to a parameter of another kind, a dictionary indexed with the wrong kind, a comparison or an assignment across
kinds."""
import re

from . import ir

KINDS = {'Index': 'MAT', 'ID_index': 'ID', 'Pos_index': 'POS'}


def kind_of_type(t, table=None):
    if not t:
        return None
    t = t.replace('const ', '').replace('&', '').strip()
    last = t.split('::')[-1].strip()
    return (table or KINDS).get(last)


def elem_kind_of_type(t, table=None):
    """kind of the elements of std::vector<K> / std::set<K> ..."""
    if not t or '<' not in t:
        return None
    inner = t[t.index('<') + 1:t.rindex('>')].split(',')[0].strip()
    return kind_of_type(inner, table)


class KindChecker:
    def __init__(self, functions, containers, extra_sigs=None, kinds_table=None, name_kinds=None,
                 receiver_maps=None, check_returns=False):
        """functions: IR records of the class family; containers: name -> (key kind, mapped kind);
        name_kinds: [(regex on the parameter name, kind)] for parameters whose declared typedef does not carry the
        kind the documentation gives them; receiver_maps: member name -> {kind: kind} applied to the parameter kinds
        of calls made on that member (a sub-matrix whose rows are addressed in another index space);
        check_returns: the value of every return statement has the kind of the declared return type"""
        self.containers = containers
        self.kt = kinds_table
        self.name_kinds = [(re.compile(rx), k) for rx, k in (name_kinds or [])]
        self.receiver_maps = receiver_maps or {}
        self.check_returns = check_returns
        self.sigs = {}
        self.elem_sigs = {}      # (name, arity) -> element kinds of the container parameters (None where not one)
        for f in functions:
            ks = [self.param_kind(p) for p in f.get('params', [])]
            eks = [elem_kind_of_type(p.get('t'), self.kt) for p in f.get('params', [])]
            ekey = (f['name'], len(eks))
            if ekey in self.elem_sigs:
                eks = [a if a == b else None for a, b in zip(eks, self.elem_sigs[ekey])]
            self.elem_sigs[ekey] = eks
            rk = kind_of_type(f.get('ret'), self.kt)
            key = (f['name'], len(ks))
            if key in self.sigs and self.sigs[key] != (ks, rk):
                # ambiguous overloads of the same arity: keep only the positions on which they agree
                oks, ork = self.sigs[key]
                ks = [a if a == b else None for a, b in zip(ks, oks)]
                rk = rk if rk == ork else None
            self.sigs[key] = (ks, rk)
        for k, v in (extra_sigs or {}).items():
            self.sigs[k] = v
        self.reports = []
        self.report_sigs = []
        self.checked = 0

    def param_kind(self, p):
        for rx, k in self.name_kinds:
            if rx.fullmatch(p.get('n') or ''):
                return k
        return kind_of_type(p.get('t'), self.kt)

    def run(self, fn):
        env = {}
        for p in fn.get('params', []):
            env[p.get('id')] = ('scalar', self.param_kind(p), elem_kind_of_type(p.get('t'), self.kt))
        self.fn = fn
        self.ret_kind = kind_of_type(fn.get('ret'), self.kt)
        self.walk(fn.get('body'), env)

    # environment entries: ('scalar', kind, element kind) | ('pair', key kind, mapped kind) | ('iter', key, mapped)
    def walk(self, n, env):
        if n is None:
            return
        k = n.get('k')
        if k == 'LambdaExpr':
            env2 = dict(env)
            for p in n.get('params', []):
                env2[p.get('id')] = ('scalar', self.param_kind(p), elem_kind_of_type(p.get('t'), self.kt))
            saved, self.ret_kind = self.ret_kind, None
            self.walk(n.get('body'), env2)
            self.ret_kind = saved
            return
        if k == 'ReturnStmt' and self.check_returns and self.ret_kind and (n.get('value') or n.get('c')):
            rv = n.get('value') or n['c'][0]
            vk = self.kind(rv, env)
            if vk:
                self.checked += 1
                if vk != self.ret_kind:
                    self.report(n, 'returns %s (%s) as a %s value' % (ir.show(rv)[:50], vk, self.ret_kind),
                                'ret:%s->%s' % (vk, self.ret_kind))
        if k == 'CXXForRangeStmt':
            v = n.get('var') or {}
            rk = self.range_kind(n.get('range'), env)
            dk = kind_of_type(v.get('t'), self.kt)
            if rk and rk[0] == 'pairs':
                env[v.get('id')] = ('pair', rk[1], rk[2])
            else:
                ek = rk[1] if rk else None
                if dk and ek and dk != ek:
                    self.report(n, 'the loop variable %s is declared as %s but the range holds %s' % (
                        v.get('n'), dk, ek), 'loopvar:%s<-%s' % (dk, ek))
                env[v.get('id')] = ('scalar', dk or ek, None)
            self.walk(n.get('range'), env)
            self.walk(n.get('body'), env)
            return
        if k == 'ForStmt':
            # `for (T i = ..; i < C.size(); ++i)` over a tracked dictionary C: i ranges over the keys of C, whatever
            # the typedef it was declared with
            rk = self.range_loop_kind(n, env)
            if rk:
                var, kk = rk
                self.walk(var.get('init'), env)
                env[var.get('id')] = ('scalar', kk, None)
                for slot in ('cond', 'inc', 'body'):
                    self.walk(n.get(slot), env)
                return
        if k == 'VarDecl':
            dk = kind_of_type(n.get('t'), self.kt)
            init = n.get('init')
            if init is not None:
                self.walk(init, env)
                ik = self.kind(init, env)
                it = self.iter_kind(init, env)
                if it:
                    env[n.get('id')] = it
                    return
                al = self.alias(init)
                if al:
                    env[n.get('id')] = ('container', al)
                    return
                if dk and ik and dk != ik:
                    self.report(n, '%s is declared as %s but initialised with a %s value (%s)' % (
                        n.get('n'), dk, ik, ir.show(init)[:60]), 'init:%s<-%s' % (dk, ik))
                env[n.get('id')] = ('scalar', dk or ik, elem_kind_of_type(n.get('t'), self.kt))
            else:
                env[n.get('id')] = ('scalar', dk, elem_kind_of_type(n.get('t'), self.kt))
            return
        for ch in ir.kids(n):
            self.walk(ch, env)
        self.check_node(n, env)

    def range_loop_kind(self, n, env):
        init, cond = n.get('init'), ir.skipcasts(n.get('cond'))
        if init is None or cond is None or init.get('k') != 'DeclStmt' or len(init.get('decls', [])) != 1:
            return None
        var = init['decls'][0]
        if var.get('k') != 'VarDecl' or cond.get('k') != 'BinaryOperator' or cond.get('op') != '<':
            return None
        a, b = [ir.skipcasts(x) for x in cond['c']]
        if a is None or a.get('k') != 'DeclRefExpr' or a.get('id') != var.get('id'):
            return None
        if ir.is_call(b) and ir.call_name(b) == 'size' and not ir.call_args(b):
            c = self.container_of(ir.call_receiver(b), env)
            if c and c[0]:
                return var, c[0]
        return None

    def alias(self, e):
        e = ir.skipcasts(e)
        if e is not None and e.get('k') in ir.MEMBER_KINDS + ('DependentScopeDeclRefExpr', 'DeclRefExpr') and \
                e.get('n') in self.containers:
            return e.get('n')
        return None

    def container_of(self, e, env):
        e = ir.skipcasts(e)
        if e is None:
            return None
        if e.get('k') == 'DeclRefExpr' and env.get(e.get('id'), (None,))[0] == 'container':
            return self.containers[env[e['id']][1]]
        a = self.alias(e)
        return self.containers[a] if a else None

    def range_kind(self, e, env):
        c = self.container_of(e, env)
        if c:
            return ('pairs', c[0], c[1])
        e2 = ir.skipcasts(e)
        if e2 is not None and e2.get('k') == 'DeclRefExpr':
            en = env.get(e2.get('id'))
            if en and en[0] == 'scalar' and en[2]:
                return ('elems', en[2])
        return None

    def iter_kind(self, e, env):
        e = ir.skipcasts(e)
        if ir.is_call(e) and ir.call_name(e) in ('find', 'begin', 'end', 'lower_bound'):
            c = self.container_of(ir.call_receiver(e), env)
            if c:
                return ('iter', c[0], c[1])
        return None

    def kind(self, e, env):
        e = ir.skipcasts(e)
        if e is None:
            return None
        k = e.get('k')
        c = e.get('c') or []
        if k == 'DeclRefExpr':
            en = env.get(e.get('id'))
            if en and en[0] == 'scalar':
                return en[1]
            return kind_of_type(e.get('t'), self.kt) if e.get('dk') in ('Var', 'ParmVar') else None
        if k in ir.MEMBER_KINDS:
            # pair.first / pair.second / it->first / it->second
            if e.get('n') in ('first', 'second') and c:
                b = ir.skipcasts(c[0])
                if b is not None and b.get('k') == 'DeclRefExpr':
                    en = env.get(b.get('id'))
                    if en and en[0] in ('pair', 'iter'):
                        return en[1] if e['n'] == 'first' else en[2]
            return kind_of_type(e.get('t'), self.kt)
        if k == 'ArraySubscriptExpr' and len(c) == 2:
            cont = self.container_of(c[0], env)
            if cont:
                return cont[1]
            b0 = ir.skipcasts(c[0])
            if b0 is not None and b0.get('k') == 'DeclRefExpr':
                en = env.get(b0.get('id'))
                if en and en[0] == 'scalar' and en[2]:
                    return en[2]                     # element of a local range of a known element kind
            return None
        if k in ('BinaryOperator',) and e.get('op') in ('+', '-') and len(c) == 2:
            a, b = self.kind(c[0], env), self.kind(c[1], env)
            return a or b
        if k == 'UnaryOperator' and e.get('op') in ('++', '--', '*') and c:
            return self.kind(c[0], env)
        if k == 'ConditionalOperator' and len(c) == 3:
            # `it == map.end() ? key : it->second`: a key absent from the map stands for itself (identity fallback);
            # the expression has the kind of the mapped value
            if '.end()' in ir.show(c[0]):
                for arm in (c[1], c[2]):
                    a = ir.skipcasts(arm)
                    if a is not None and a.get('k') in ir.MEMBER_KINDS and a.get('n') == 'second':
                        return self.kind(arm, env)
            return self.kind(c[1], env) or self.kind(c[2], env)
        if ir.is_call(e):
            name = ir.call_name(e)
            args = ir.call_args(e)
            if e.get('k') == 'CXXOperatorCallExpr' and e.get('op') == '[]':
                cont = self.container_of(args[0], env)
                return cont[1] if cont else None
            if name in ('at', 'operator[]'):
                cont = self.container_of(ir.call_receiver(e), env)
                return cont[1] if cont else None
            if name in ('back', 'front') and not args:
                r0 = ir.skipcasts(ir.call_receiver(e))
                if r0 is not None and r0.get('k') == 'DeclRefExpr':
                    en = env.get(r0.get('id'))
                    if en and en[0] == 'scalar' and en[2]:
                        return en[2]
            sig = self.sigs.get((name, len(args)))
            if sig:
                return self.receiver_map(e).get(sig[1], sig[1])
            if name in ('move', 'forward', 'exchange') and args:
                return self.kind(args[0], env)
        return None

    def receiver_map(self, call):
        r = ir.skipcasts(ir.call_receiver(call))
        while r is not None:
            if r.get('k') in ir.MEMBER_KINDS + ('DeclRefExpr', 'DependentScopeDeclRefExpr') and \
                    r.get('n') in self.receiver_maps:
                return self.receiver_maps[r['n']]
            if ir.is_call(r):
                return {}
            c = r.get('c') or []
            r = ir.skipcasts(c[0]) if c else None
        return {}

    def cont_name(self, e, env):
        e = ir.skipcasts(e)
        if e is not None and e.get('k') == 'DeclRefExpr' and env.get(e.get('id'), (None,))[0] == 'container':
            return env[e['id']][1]
        return self.alias(e) or '?'

    def report(self, node, msg, sig=None):
        """msg is for the reader; sig is a stable descriptor of the meeting (category, member / callee names and the
        two kinds, no local names) used to key tables and known findings"""
        self.reports.append((node, msg))
        self.report_sigs.append(sig or msg)

    def check_node(self, n, env):
        k = n.get('k')
        c = n.get('c') or []
        if k in ('BinaryOperator', 'CompoundAssignOperator') and len(c) == 2 and \
                n.get('op') in ('==', '!=', '<', '>', '<=', '>=', '=', '+=', '-='):
            a, b = self.kind(c[0], env), self.kind(c[1], env)
            if a and b:
                self.checked += 1
                if a != b:
                    self.report(n, '%s (%s) %s %s (%s)' % (ir.show(c[0])[:50], a, n['op'], ir.show(c[1])[:50], b),
                                '%s:%s:%s' % ('assign' if n['op'] in ('=', '+=', '-=') else 'cmp', a, b))
        if k == 'ArraySubscriptExpr' and len(c) == 2:
            cont = self.container_of(c[0], env)
            ak = self.kind(c[1], env)
            if cont and cont[0] and ak:
                self.checked += 1
                if ak != cont[0]:
                    self.report(n, '%s is indexed by %s but %s is a %s value' % (
                        ir.show(c[0])[:40], cont[0], ir.show(c[1])[:50], ak),
                        'key:%s:%s->%s' % (self.cont_name(c[0], env), ak, cont[0]))
            return
        if ir.is_call(n):
            name = ir.call_name(n)
            args = ir.call_args(n)
            if n.get('k') == 'CXXOperatorCallExpr' and n.get('op') == '[]' and len(args) == 2:
                cont = self.container_of(args[0], env)
                ak = self.kind(args[1], env)
                if cont and cont[0] and ak:
                    self.checked += 1
                    if ak != cont[0]:
                        self.report(n, '%s is indexed by %s but %s is a %s value' % (
                            ir.show(args[0])[:40], cont[0], ir.show(args[1])[:50], ak),
                            'key:%s:%s->%s' % (self.cont_name(args[0], env), ak, cont[0]))
                return
            if name in ('at', 'find', 'erase', 'count', 'emplace', 'try_emplace'):
                cont = self.container_of(ir.call_receiver(n), env)
                if cont and args:
                    ak = self.kind(args[0], env)
                    if cont[0] and ak:
                        self.checked += 1
                        if ak != cont[0]:
                            self.report(n, '%s.%s is keyed by %s but %s is a %s value' % (
                                ir.show(ir.call_receiver(n))[:40], name, cont[0], ir.show(args[0])[:50], ak),
                                'key:%s:%s->%s' % (self.cont_name(ir.call_receiver(n), env), ak, cont[0]))
                    if name in ('emplace', 'try_emplace') and len(args) == 2 and cont[1]:
                        vk = self.kind(args[1], env)
                        if vk:
                            self.checked += 1
                            if vk != cont[1]:
                                self.report(n, '%s maps to %s but %s is a %s value' % (
                                    ir.show(ir.call_receiver(n))[:40], cont[1], ir.show(args[1])[:50], vk),
                                    'mapped:%s:%s->%s' % (self.cont_name(ir.call_receiver(n), env), vk, cont[1]))
                return
            sig = self.sigs.get((name, len(args)))
            if sig:
                rmap = self.receiver_map(n)
                for i, (a, pek) in enumerate(zip(args, self.elem_sigs.get((name, len(args)), []))):
                    a0 = ir.skipcasts(a)
                    if pek and a0 is not None and a0.get('k') == 'DeclRefExpr':
                        en = env.get(a0.get('id'))
                        aek = en[2] if en and en[0] == 'scalar' else None
                        if aek:
                            self.checked += 1
                            if aek != rmap.get(pek, pek):
                                self.report(n, 'argument %d of %s expects a range of %s but %s holds %s values' % (
                                    i + 1, name, pek, ir.show(a)[:50], aek),
                                    'argelem%d:%s:%s->%s' % (i + 1, name, aek, pek))
                for i, (a, pk) in enumerate(zip(args, sig[0])):
                    ak = self.kind(a, env)
                    pk = rmap.get(pk, pk)
                    if ak and pk:
                        self.checked += 1
                        if ak != pk:
                            self.report(n, 'argument %d of %s expects %s but %s is a %s value' % (
                                i + 1, name, pk, ir.show(a)[:50], ak), 'arg%d:%s:%s->%s' % (i + 1, name, ak, pk))

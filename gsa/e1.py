"""E1 member coverage: every hand-written copy/move ctor, copy/move assignment and friend swap of a class must
mention every non-static data member (of non-empty type) and every non-empty base, directly or through a
delegate (same-class helper / friend swap) followed to depth 2."""
from . import ir

SPECIAL = ('copy_ctor', 'move_ctor', 'copy_assign', 'move_assign')


def class_functions(facts, cls_rec):
    """All function records lexically belonging to a class pattern (members + friends defined inside)."""
    out = []
    for f in facts.functions:
        if f['unit'] != cls_rec['unit'] or f['inst'] != cls_rec['inst']:
            continue
        if f.get('cls') == cls_rec['qual'] or f.get('friendof') == cls_rec['qual']:
            if f['file'] == cls_rec['file']:
                out.append(f)
    return out


MUTATORS = ('clear', 'swap', 'exchange', 'reset', 'assign', 'resize', 'insert', 'emplace', 'try_emplace',
            'emplace_back', 'push_back', 'erase', 'clear_and_dispose', 'clone_from', 'operator=', 'swap_nodes')


def _param_ids(fn):
    return {p.get('id') for p in fn.get('params', [])}


def mentions(fn):
    """Returns dict: this (fields mentioned on *this), src (fields read/written on a parameter object),
    srcw (fields of a parameter object written), bases (type strings mentioned), calls [(name, node)]."""
    m = {'this': set(), 'src': set(), 'srcw': set(), 'thisw': set(), 'bases': set(), 'calls': []}
    pids = _param_ids(fn)
    for i in fn.get('inits', []) or []:
        if not i.get('written'):
            continue
        if 'member' in i:
            m['this'].add(i['member'])
            m['thisw'].add(i['member'])
        if 'base' in i:
            m['bases'].add(i.get('basec') or i['base'])
        for x in ir.walk(i.get('init')):
            _collect(x, m, pids)
    for x in ir.walk(fn.get('body')):
        _collect(x, m, pids)
    return m


def _collect(x, m, pids):
    k = x.get('k')
    if k in ir.MEMBER_KINDS and x.get('n'):
        c = x.get('c') or []
        base = ir.skipcasts(c[0]) if c else None
        if base is None or base.get('k') == 'CXXThisExpr' or x.get('implicit'):
            m['this'].add(x['n'])
        else:
            r = ir.access_root(base)
            if r and r[0] == 'var' and r[1] in pids:
                m['src'].add(x['n'])
            elif r and r[0] == 'this':
                m['this'].add(x['n'])
            else:
                m['src'].add(x['n']) if r and r[0] == 'var' else None
    elif k == 'DeclRefExpr' and x.get('dk') == 'Field':
        m['this'].add(x.get('n'))
    t = ir.write_target(x)
    if t is not None:
        tt = ir.skipcasts(t)
        if tt is not None and tt.get('k') in ir.MEMBER_KINDS:
            c = tt.get('c') or []
            if c:
                r = ir.access_root(c[0])
                if r and r[0] == 'var' and r[1] in pids:
                    m['srcw'].add(tt.get('n'))
    if t is not None:
        f = ir.this_field(t)
        if f:
            m['thisw'].add(f)
    if ir.is_call(x) and ir.call_name(x) in MUTATORS:
        for a in [ir.call_receiver(x)] + (list(ir.call_args(x)) if ir.call_name(x) in ('swap', 'exchange') else []):
            f = ir.this_field(a) if a is not None else None
            if f:
                m['thisw'].add(f)
    if x.get('ct'):
        m['bases'].add(x['ct'])
    if x.get('qualT'):
        m['bases'].add(x['qualT'])
    if ir.is_call(x):
        n = ir.call_name(x)
        if n:
            m['calls'].append((n, x))
        if x.get('ccls'):
            m['bases'].add(x['ccls'])
        # std::exchange(other.f, v) / other.f.clear()/reset(): writes to the source object
        if n in ('exchange', 'clear', 'reset', 'swap', 'swap_nodes'):
            for a in [ir.call_receiver(x)] + list(ir.call_args(x)):
                a = ir.skipcasts(a) if a else None
                if a is not None and a.get('k') in ir.MEMBER_KINDS and a.get('c'):
                    r = ir.access_root(a['c'][0])
                    if r and r[0] == 'var' and r[1] in pids:
                        m['srcw'].add(a.get('n'))


def norm_base(t):
    t = t.replace('typename ', '').replace('const ', '').replace('&', '').strip()
    return t


def _head(t):
    t = norm_base(t)
    return t.split('<')[0].split('::')[-1]


def _split_targs(t):
    """top-level template arguments of 'X<a, b<c>, d>...'."""
    i = t.find('<')
    if i < 0:
        return []
    depth = 0
    cur = ''
    out = []
    for ch in t[i + 1:]:
        if ch == '<' or ch == '(':
            depth += 1
        elif ch == '>' or ch == ')':
            if depth == 0:
                out.append(cur.strip())
                return out
            depth -= 1
        if ch == ',' and depth == 0:
            out.append(cur.strip())
            cur = ''
        else:
            cur += ch
    return out


def base_mentioned(base, mentioned):
    ms = {norm_base(m) for m in mentioned}
    if norm_base(base.get('ct') or base['t']) in ms or norm_base(base['t']) in ms:
        return True
    t = norm_base(base['t'])
    if t.startswith('std::conditional<'):
        args = _split_targs(t)
        heads = {_head(m) for m in ms}
        for a in args[1:3]:
            if _head(a) in heads and not _head(a).startswith('Dummy'):
                return True
    return False


def coverage(facts, cls_rec, fn, depth=2):
    """Closure of mentions through delegates: this-calls to same-class helpers and swap(...) friends."""
    cfs = class_functions(facts, cls_rec)
    by_name = {}
    for f in cfs:
        by_name.setdefault(f['name'], []).append(f)
    m = mentions(fn)
    tot = {k: set(v) if k != 'calls' else list(v) for k, v in m.items()}
    frontier = list(m['calls'])
    seen = {fn['name'] + str(fn['line'])}
    via = []
    for _ in range(depth):
        nxt = []
        for name, node in frontier:
            if not (ir.is_this_call(node) or name == 'swap'):
                continue
            cands = by_name.get(name, [])
            nargs = len(ir.call_args(node))
            exact = [g for g in cands if len(g.get('params', [])) == nargs]
            for g in (exact or cands):
                key = g['name'] + str(g['line'])
                if key in seen or g['kind'] == 'dtor':
                    continue
                seen.add(key)
                m2 = mentions(g)
                for k in ('this', 'src', 'srcw', 'thisw', 'bases'):
                    tot[k] |= m2[k]
                nxt += m2['calls']
                via.append(g['name'])
        frontier = nxt
    tot['via'] = via
    return tot

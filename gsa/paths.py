"""Structured path enumeration over the IR of one function.

A path is the ordered list of *events* (rule-defined, via classify(node) -> list of tags) met from entry to one
exit, the branch decisions taken, and how it ended ('return' with the value node, 'throw', 'fall').
Only statements that contain an event or an exit are expanded, so the count stays small; exceeding the cap is
reported as analysis-broken by the caller (never silently truncated).

Idioms (DESIGN 3/E2):
  * loops: mode '01' explores zero and one iteration; mode '1' (for-all collapse) exactly one iteration.
  * `&&`, `||`, `?:` with events on the conditional side are branches.
  * a lambda bound to a local and called by name is inlined at the call; a lambda passed as an argument is
    treated as a loop body at the call site (zero/one executions, or one in mode '1').
  * `throw` ends the path; try-blocks are walked, handlers are walked as alternative continuations.
"""
from . import ir
from .facts import AnalysisBroken

EXIT_KINDS = ('ReturnStmt', 'CXXThrowExpr', 'BreakStmt', 'ContinueStmt', 'GotoStmt')


class Path:
    __slots__ = ('events', 'conds', 'end', 'value')

    def __init__(self, events=(), conds=(), end=None, value=None):
        self.events = list(events)
        self.conds = list(conds)
        self.end = end
        self.value = value

    def extend(self, other):
        return Path(self.events + other.events, self.conds + other.conds, other.end, other.value)

    def tags(self):
        return [e[0] for e in self.events if e[0] != '?']

    def __repr__(self):
        return 'Path(%s | %s | %s)' % (','.join(self.tags()), self.end,
                                       ' & '.join(('' if p else '!') + ir.show(c)[:40] for c, p, _ in self.conds))


class TooManyPaths(AnalysisBroken):
    pass


class Enumerator:
    def __init__(self, classify, loop_mode='01', cap=20000, inline_lambdas=True, keep_conds=True):
        self.classify = classify
        self.loop_mode = loop_mode
        self.cap = cap
        self.lambdas = {}
        self.inline_lambdas = inline_lambdas
        self.keep_conds = keep_conds
        self._rel_cache = {}

    # ---- relevance: does the subtree contain an event or an exit?
    def relevant(self, n):
        if n is None:
            return False
        key = id(n)
        r = self._rel_cache.get(key)
        if r is not None:
            return r
        r = False
        self._rel_cache[key] = False  # cycle guard
        for x in ir.walk(n):
            if x.get('k') in EXIT_KINDS or self.classify(x):
                r = True
                break
            if x.get('k') == 'DeclRefExpr' and x.get('id') in self.lambdas and self.inline_lambdas:
                if self.relevant(self.lambdas[x['id']].get('body')):
                    r = True
                    break
        self._rel_cache[key] = r
        return r

    def run(self, fn):
        self.lambdas = {}
        self._rel_cache = {}
        body = fn.get('body')
        for x in ir.walk(body):
            if x.get('k') == 'DeclStmt':
                self._bind_lambdas(x)
        pre = Path()
        for i in fn.get('inits', []) or []:
            if i.get('written'):
                for p in self.expr(i.get('init')):
                    pre = pre.extend(p)
                    break
        out = []
        for p in self.stmt(body):
            q = pre.extend(p)
            if not consistent_constexpr(q):
                continue
            if q.end is None:
                q.end = 'fall'
            elif q.end in ('break', 'continue'):
                q.end = 'fall'
            out.append(q)
        return out

    def _cp(self, c):
        """a branch decision: kept in conds and, in order with the events, as a ('?', (cond, pol, constexpr))"""
        if not self.keep_conds:
            return Path()
        return Path([('?', c)], [c])

    def _check(self, lst):
        if len(lst) > self.cap:
            raise TooManyPaths('path cap %d exceeded' % self.cap)
        return lst

    def seq(self, stmts):
        cur = [Path()]
        for s in stmts:
            if s is None or not self.relevant(s):
                # still remember lambda bindings
                self._bind_lambdas(s)
                continue
            nxt = []
            done = []
            sub = None
            for p in cur:
                if p.end is not None:
                    done.append(p)
                    continue
                if sub is None:
                    sub = self.stmt(s)
                for q in sub:
                    nxt.append(p.extend(q))
            cur = self._check(done + nxt)
        return cur

    def _bind_lambdas(self, s):
        if s is None:
            return
        if s.get('k') == 'DeclStmt':
            for d in s.get('decls', []):
                if d.get('k') == 'VarDecl' and d.get('init') is not None:
                    i = ir.skipcasts(d['init'])
                    while i is not None and i.get('k') in ('CXXConstructExpr',) and i.get('c'):
                        i = ir.skipcasts(i['c'][0])
                    if i is not None and i.get('k') == 'LambdaExpr':
                        self.lambdas[d.get('id')] = i

    def stmt(self, s):
        if s is None:
            return [Path()]
        k = s.get('k')
        if k == 'CompoundStmt':
            return self.seq(s.get('c') or [])
        if k == 'DeclStmt':
            self._bind_lambdas(s)
            cur = [Path()]
            for d in s.get('decls', []):
                if d.get('k') == 'VarDecl' and d.get('init') is not None:
                    i = ir.skipcasts(d['init'])
                    if i is not None and i.get('k') == 'LambdaExpr':
                        continue
                    sub = self.expr(d['init'])
                    ev = self.classify(d)
                    cur = [p.extend(q) for p in cur for q in sub]
                    if ev:
                        cur = [p.extend(Path([(t, d) for t in ev])) for p in cur]
            return cur
        if k == 'IfStmt':
            pre = [Path()]
            if s.get('init'):
                pre = self.stmt(s['init'])
            if s.get('condvar'):
                pre = [p.extend(q) for p in pre for q in self.stmt({'k': 'DeclStmt', 'decls': [s['condvar']]})]
            condp = self.expr(s.get('cond'))
            out = []
            cx = bool(s.get('constexpr'))
            lam_cond, lam_neg = self._cond_lambda(s.get('cond'))
            for p0 in pre:
                for pc in condp:
                    base = p0.extend(pc)
                    forced = None
                    if lam_cond is not None:
                        for cnd in reversed(pc.conds):
                            c0 = cnd[0]
                            if isinstance(c0, tuple) and c0[0] == 'lambda-return' and c0[1] is lam_cond:
                                v = ir.skipcasts(c0[2]) if c0[2] else None
                                if v is not None and v.get('k') == 'CXXBoolLiteralExpr':
                                    forced = (v.get('v') == 'true') != lam_neg
                                break
                    if s.get('cv') is not None:
                        forced = bool(s['cv'])      # instantiated `if constexpr`: only one arm exists
                    for pol, arm in ((True, s.get('then')), (False, s.get('else'))):
                        if forced is not None and pol != forced:
                            continue
                        for q in (self.stmt(arm) if arm is not None else [Path()]):
                            r = base.extend(self._cp((s.get('cond'), pol, cx)))
                            out.append(r.extend(q))
            return self._check(out)
        if k in ('ForStmt', 'WhileStmt', 'CXXForRangeStmt', 'DoStmt'):
            return self.loop(s)
        if k == 'ReturnStmt':
            sub = self.expr(s.get('value'))
            ev = self.classify(s)
            out = []
            for p in sub:
                q = p.extend(Path([(t, s) for t in ev] if ev else []))
                q.end = 'return'
                q.value = s.get('value')
                out.append(q)
            return out
        if k == 'BreakStmt':
            return [Path(end='break')]
        if k == 'ContinueStmt':
            return [Path(end='continue')]
        if k == 'GotoStmt':
            raise AnalysisBroken('goto is not supported by the path engine (line %s)' % s.get('l'))
        if k == 'LabelStmt':
            return self.stmt(s.get('sub'))
        if k == 'CXXTryStmt':
            out = list(self.stmt(s.get('try')))
            for h in s.get('handlers', []) or []:
                if h is not None and self.relevant(h.get('body')):
                    for q in self.stmt(h.get('body')):
                        r = self._cp((h, True, False)).extend(q)
                        out.append(r)
            return out
        if k == 'SwitchStmt':
            return self.switch(s)
        if k in ('CaseStmt', 'DefaultStmt'):
            return self.stmt(s.get('sub'))
        if k == 'NullStmt':
            return [Path()]
        # expression statement
        return self.expr(s)

    def switch(self, s):
        condp = self.expr(s.get('cond'))
        body = s.get('body') or {}
        items = body.get('c') or []
        # flatten: each case label starts a segment
        starts = [i for i, it in enumerate(items) if it.get('k') in ('CaseStmt', 'DefaultStmt')]
        out = []
        has_default = any(items[i].get('k') == 'DefaultStmt' for i in starts)
        for si in starts:
            segs = self.seq(items[si:])
            for pc in condp:
                for q in segs:
                    r = pc.extend(self._cp((items[si], True, False))).extend(q)
                    if r.end == 'break':
                        r.end = None
                    out.append(r)
        if not has_default:
            out.extend(condp)
        return self._check(out)

    def loop(self, s):
        k = s.get('k')
        pre = [Path()]
        if k == 'ForStmt' and s.get('init'):
            pre = self.stmt(s['init'])
        if k == 'CXXForRangeStmt':
            pre = self.expr(s.get('range'))
        condp = self.expr(s.get('cond')) if s.get('cond') else [Path()]
        bodyp = self.stmt(s.get('body'))
        incp = self.expr(s.get('inc')) if s.get('inc') else [Path()]
        loopmark = (s, True, False)
        out = []
        infinite = (k == 'ForStmt' and s.get('cond') is None) or \
            (k == 'WhileStmt' and (ir.skipcasts(s.get('cond')) or {}).get('v') in ('true', '1'))
        for p0 in pre:
            for pc in condp:
                base = p0.extend(pc)
                if self.loop_mode == '01' and k != 'DoStmt' and not infinite:
                    skip = base.extend(self._cp((s, False, False)))
                    if s.get('cond') is not None and k in ('WhileStmt', 'ForStmt'):
                        skip = skip.extend(self._cp((s['cond'], False, False)))
                    out.append(skip)
                for q in bodyp:
                    enter = base.extend(self._cp(loopmark))
                    if s.get('cond') is not None and k in ('WhileStmt', 'ForStmt'):
                        enter = enter.extend(self._cp((s['cond'], True, False)))
                    r = enter.extend(q)
                    if r.end == 'break':
                        r.end = None
                        out.append(r)
                    elif r.end in ('continue', None) and infinite:
                        continue      # `for(;;)`: the loop is only left through break / return / throw
                    elif r.end == 'continue':
                        r.end = None
                        out.append(r)
                    elif r.end is None:
                        for qi in incp:
                            out.append(r.extend(qi))
                    else:
                        out.append(r)
        return self._check(out)

    # ---- expressions: post-order events, with branches at short-circuit operators and called lambdas
    def expr(self, e):
        if e is None:
            return [Path()]
        if not self.relevant(e) and not self._has_lambda_call(e):
            return [Path()]
        k = e.get('k')
        c = e.get('c') or []
        if k == 'LambdaExpr':
            ev = self.classify(e)
            return [Path([(t, e) for t in ev])] if ev else [Path()]
        if k == 'CXXThrowExpr':
            sub = self.expr(c[0]) if c else [Path()]
            out = []
            for p in sub:
                q = p.extend(Path())
                q.end = 'throw'
                out.append(q)
            return out
        if k == 'ConditionalOperator' and len(c) == 3:
            out = []
            for pc in self.expr(c[0]):
                for pol, arm in ((True, c[1]), (False, c[2])):
                    for q in self.expr(arm):
                        out.append(pc.extend(self._cp((c[0], pol, False))).extend(q))
            return self._check(out)
        if k == 'BinaryOperator' and e.get('op') in ('&&', '||') and len(c) == 2 and self.relevant(c[1]):
            out = []
            short_pol = (e['op'] == '||')
            for pl in self.expr(c[0]):
                out.append(pl.extend(self._cp((c[0], short_pol, False))))
                for pr in self.expr(c[1]):
                    out.append(pl.extend(self._cp((c[0], not short_pol, False)))
                               .extend(pr))
            return self._check(out)
        # generic: children in order, then the node itself
        cur = [Path()]
        for ch in ir.kids(e):
            chs = ir.skipcasts(ch)
            if (ir.is_call(e) and chs is not None and chs.get('k') == 'DeclRefExpr' and chs.get('id') in self.lambdas
                    and ch is not (e.get('c') or [None])[0]
                    and not (e.get('k') == 'CXXOperatorCallExpr' and e.get('op') == '()')):
                ch = self.lambdas[chs['id']]
            if ch.get('k') == 'LambdaExpr' and ir.is_call(e):
                # lambda passed as an argument: body is a loop body at the call site
                lam = self._lambda_body_paths(ch)
                nxt = []
                for p in cur:
                    if p.end is not None:
                        nxt.append(p)
                        continue
                    if self.loop_mode == '01':
                        nxt.append(p)
                    for q in lam:
                        nxt.append(p.extend(q))
                cur = self._check(nxt)
                continue
            sub = self.expr(ch)
            if len(sub) == 1 and not sub[0].events and not sub[0].conds and sub[0].end is None:
                continue
            nxt = []
            for p in cur:
                if p.end is not None:
                    nxt.append(p)
                    continue
                for q in sub:
                    nxt.append(p.extend(q))
            cur = self._check(nxt)
        # call of a locally bound lambda: inline
        if ir.is_call(e) and self.inline_lambdas:
            lam = self._called_lambda(e)
            if lam is not None:
                lp = self._lambda_body_paths(lam)
                nxt = []
                for p in cur:
                    if p.end is not None:
                        nxt.append(p)
                        continue
                    for q in lp:
                        nxt.append(p.extend(q))
                cur = self._check(nxt)
        ev = self.classify(e)
        if ev:
            add = Path([(t, e) for t in ev])
            cur = [p.extend(add) if p.end is None else p for p in cur]
        return cur

    def _cond_lambda(self, cond):
        """If cond is `L(args)` or `!L(args)` for a locally bound lambda L, return (lambda node, negated)."""
        neg = False
        c = ir.skipcasts(cond)
        while c is not None and c.get('k') == 'UnaryOperator' and c.get('op') == '!':
            neg = not neg
            c = ir.skipcasts((c.get('c') or [None])[0])
        if c is not None and ir.is_call(c):
            lam = self._called_lambda(c)
            if lam is not None:
                return lam, neg
        return None, False

    def _called_lambda(self, e):
        ce = ir.callee_expr(e)
        if e.get('k') == 'CXXOperatorCallExpr' and e.get('op') == '()':
            c = e.get('c') or []
            ce = ir.skipcasts(c[1]) if len(c) > 1 else None
        if ce is not None and ce.get('k') == 'DeclRefExpr' and ce.get('id') in self.lambdas:
            return self.lambdas[ce['id']]
        return None

    def _has_lambda_call(self, e):
        if not self.lambdas or not self.inline_lambdas:
            return False
        for x in ir.walk(e, into_lambdas=False):
            if x.get('k') == 'DeclRefExpr' and x.get('id') in self.lambdas:
                if self.relevant(self.lambdas[x['id']].get('body')):
                    return True
        return False

    def _lambda_body_paths(self, lam):
        out = []
        for q in self.stmt(lam.get('body')):
            r = Path(q.events, q.conds, None, None)
            if q.end == 'throw':
                r.end = 'throw'
            # the lambda's own return value is kept for rules that need it
            if q.end == 'return':
                mark = (('lambda-return', lam, q.value), True, False)
                r.conds = r.conds + [mark]
                r.events = r.events + [('?', mark)]
            out.append(r)
        return out


def consistent_constexpr(p):
    """Drop paths that take contradictory arms of the same `if constexpr` condition (compared as rendered text
    with leading negations normalised)."""
    seen = {}
    for c, pol, cx in p.conds:
        if not cx or isinstance(c, tuple):
            continue
        t = ir.show(c)
        neg = False
        while t.startswith('!'):
            t = t[1:]
            neg = not neg
        if t.startswith('(') and t.endswith(')'):
            t = t[1:-1]
        v = pol != neg
        if t in seen and seen[t] != v:
            return False
        seen[t] = v
    return True


def enumerate_paths(fn, classify, **kw):
    return Enumerator(classify, **kw).run(fn)

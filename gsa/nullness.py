"""E12: nullness of pointers the code itself treats as nullable.

Sources are taken from the class, never guessed: (a) a member function that has a `return nullptr` path (or returns
such a function's result) is a *nullable call*; (b) a container field that somewhere receives `F[i] = nullptr`
(or is filled with nullptr) is a *nullable-slot field*: reading an element yields a possibly-null pointer.
Values derived from a source are tracked through locals and slot expressions (keyed by their rendered text) in a
small forward dataflow over the statement tree: states map a key to N (null) / NN (non-null) / M (maybe); branch
conditions that test a key (`p != nullptr`, `p == nullptr`, `p`, `!p`, with && || ! and ?:) refine the state on each
arm (short-circuit order inside expressions included); loops are iterated to a fixpoint over the finite set of states.
Sinks: `*p`, `p->m`, and handing p to `destroy(...)` (the pool's destroy runs the destructor and frees: a null
argument is undefined behaviour). A sink reached with N or M for a tracked key is reported. Untracked pointers are
never reported (the rule is a contradiction rule: the code's own null tests / null stores say the value may be null).
Calls on *this between a store and a read invalidate slot facts (the callee may null the slot); writes to a variable
invalidate the slot keys that mention it. Lambda bodies are not entered.
"""
import re

from . import ir
from .facts import AnalysisBroken

N, NN, M = 'N', 'NN', 'M'
NULL_KINDS = ('CXXNullPtrLiteralExpr', 'GNUNullExpr')
NONNULL_CALLS = ('construct',)
DESTROY = ('destroy',)


def is_null_literal(e):
    e = ir.skipcasts(e)
    return e is not None and e.get('k') in NULL_KINDS


def nullable_calls(fns):
    """names of functions with a `return nullptr` path, closed under `return f(...)`"""
    names = set()
    for _ in range(4):
        grew = False
        for f in fns:
            if f['name'] in names or f.get('body') is None:
                continue
            for x in ir.walk(f['body'], False):
                if x.get('k') == 'ReturnStmt' and x.get('value') is not None:
                    v = ir.skipcasts(x['value'])
                    if is_null_literal(v) or (ir.is_call(v) and ir.call_name(v) in names):
                        names.add(f['name'])
                        grew = True
                        break
        if not grew:
            break
    return names


def _field_of_subscript(e):
    """name of the field F if e is F[...] / obj.F[...] / F.at(...) (casts skipped), else None"""
    e = ir.skipcasts(e)
    if e is None:
        return None
    base = None
    if e.get('k') == 'ArraySubscriptExpr':
        base = (e.get('c') or [None])[0]
    elif e.get('k') == 'CXXOperatorCallExpr' and e.get('op') == '[]':
        base = (e.get('c') or [None, None])[1]
    elif ir.is_call(e) and ir.call_name(e) == 'at':
        base = ir.call_receiver(e)
    base = ir.skipcasts(base)
    if base is not None and base.get('k') in ir.MEMBER_KINDS and base.get('n'):
        return base['n']
    return None


def nullable_fields(fns):
    """container fields that receive a null element somewhere in the class"""
    out = set()
    for f in fns:
        for x in ir.walk(f.get('body')):
            if x.get('k') == 'BinaryOperator' and x.get('op') == '=':
                c = x.get('c') or []
                if len(c) == 2 and is_null_literal(c[1]):
                    fld = _field_of_subscript(c[0])
                    if fld:
                        out.add(fld)
    return out


class Finding:
    def __init__(self, line, key, state, kind, text):
        self.line, self.key, self.state, self.kind, self.text = line, key, state, kind, text


class Analysis:
    def __init__(self, fn, ncalls, nfields, max_states=4000, nullers=None, preconds=None, ensures=None):
        self.fn = fn
        self.ncalls = ncalls
        self.nfields = nfields
        self.nullers = nullers          # names of member functions that may store null into a slot (None: all)
        self.preconds = preconds or {}  # helper name -> [(field, parameter position)] slots it dereferences unguarded
        self.ensures = ensures or {}    # helper name -> [(field, parameter position)] slots non-null on every exit
        self.exit_states = []
        self.findings = {}
        self.sinks = 0
        self.max_states = max_states
        self.tracked_locals = set()

    # ---------------------------------------------------------------- keys and classification
    def key_of(self, e):
        """the tracking key of an expression: a local variable name or a slot text; None if not trackable"""
        e = ir.skipcasts(e)
        if e is None:
            return None
        if e.get('k') == 'DeclRefExpr' and e.get('dk') in ('Var', 'ParmVar', None) and e.get('n') in self.tracked_locals:
            return e['n']
        if e.get('k') == 'ParenExpr' and e.get('c'):
            return self.key_of(e['c'][0])
        fld = _field_of_subscript(e)
        if fld in self.nfields:
            return ir.show(e)
        return None

    def classify(self, e, st):
        """N / NN / M for an expression derived from a nullable source; None when it is not"""
        e = ir.skipcasts(e)
        if e is None:
            return None
        if e.get('k') == 'ParenExpr' and e.get('c'):
            return self.classify(e['c'][0], st)
        if e.get('k') in NULL_KINDS:
            return N
        if e.get('k') == 'CXXNewExpr' or (e.get('k') == 'UnaryOperator' and e.get('op') == '&'):
            return NN
        if ir.is_call(e):
            nm = ir.call_name(e)
            if nm in NONNULL_CALLS:
                return NN
            if nm in self.ncalls and (ir.is_this_call(e) or ir.call_receiver(e) is not None):
                fld = _field_of_subscript(e)
                if fld in self.nfields:
                    return st.get(ir.show(e), M)
                return M
        k = self.key_of(e)
        if k is not None:
            return st.get(k, M if _field_of_subscript(e) in self.nfields else None)
        if e.get('k') == 'ConditionalOperator':
            c = e.get('c') or []
            if len(c) == 3:
                a, b = self.classify(c[1], st), self.classify(c[2], st)
                if a is None and b is None:
                    return None
                if a == b:
                    return a
                return M
        return None

    # ---------------------------------------------------------------- sinks
    def report(self, node, key, state, kind):
        fk = (node.get('l'), key, kind)
        if fk not in self.findings:
            self.findings[fk] = Finding(node.get('l'), key, state, kind, ir.show(node)[:100])

    def sink(self, node, target, st, kind):
        k = self.key_of(target)
        if k is None:
            return
        v = st.get(k, M if _field_of_subscript(target) in self.nfields else None)
        if v is None:
            return
        self.sinks += 1
        if v != NN:
            self.report(node, k, v, kind)
        st[k] = NN      # once reported / passed, the value is what it is: no cascade

    def scan(self, e, st):
        """walk an expression in evaluation order: report sinks, apply short-circuit refinement and stores.
        Returns the list of states after the expression (normally one)."""
        if e is None:
            return [st]
        k = e.get('k')
        if k == 'LambdaExpr':
            return [st]
        c = e.get('c') or []
        if k == 'BinaryOperator' and e.get('op') in ('&&', '||') and len(c) == 2:
            outs = []
            for s1 in self.scan(c[0], st):
                # rhs runs only when lhs is true (&&) / false (||)
                for s2 in self.refine(c[0], s1, e['op'] == '&&'):
                    outs += self.scan(c[1], s2)
                outs += self.refine(c[0], dict(s1), e['op'] != '&&')
            return self.dedupe(outs)
        if k == 'ConditionalOperator' and len(c) == 3:
            outs = []
            for s1 in self.scan(c[0], st):
                for s2 in self.refine(c[0], s1, True):
                    outs += self.scan(c[1], s2)
                for s2 in self.refine(c[0], dict(s1), False):
                    outs += self.scan(c[2], s2)
            return self.dedupe(outs)
        # children first (operands are evaluated before the operation)
        states = [st]
        for ch in ir.kids(e):
            nxt = []
            for s in states:
                nxt += self.scan(ch, s)
            states = self.dedupe(nxt)
        if k == 'CXXThrowExpr':
            return []
        for s in states:
            self.effect(e, s)
        return states

    def effect(self, e, st):
        k = e.get('k')
        c = e.get('c') or []
        if k == 'UnaryOperator' and e.get('op') == '*' and c:
            self.sink(e, c[0], st, 'dereference')
        elif k in ir.MEMBER_KINDS and e.get('arrow') and c and not e.get('implicit'):
            self.sink(e, c[0], st, 'member access')
        elif ir.is_call(e):
            nm = ir.call_name(e)
            if nm in DESTROY:
                for a in ir.call_args(e):
                    self.sink(e, a, st, 'destroy')
            if nm in ('push_back', 'emplace_back') and ir.call_receiver(e) is not None:
                r = ir.skipcasts(ir.call_receiver(e))
                if r is not None and r.get('k') in ir.MEMBER_KINDS and r.get('n') in self.nfields:
                    sz = st.pop('$size:' + ir.show(r), None)
                    args = ir.call_args(e)
                    if sz is not None and len(args) == 1:
                        v = self.classify(args[0], st)
                        st['%s[%s]' % (ir.show(r), sz)] = NN if (v == NN or self._is_fresh(args[0])) else M
            if nm == 'swap':
                for a in ir.call_args(e):
                    ka = self.key_of(a)
                    if ka is not None:
                        st[ka] = M
            if ir.is_this_call(e) and e.get('k') != 'CXXOperatorCallExpr':
                # a helper that dereferences F[param] without a test: the obligation is the caller's
                for (fld, pos) in self.preconds.get(nm, []):
                    args = ir.call_args(e)
                    if pos < len(args):
                        key = '%s[%s]' % (fld, ir.show(args[pos]))
                        self.sinks += 1
                        if st.get(key, M) != NN:
                            self.report(e, key, st.get(key, M), 'call of %s (dereferences the slot)' % nm)
                        st[key] = NN
                # a member function of *this that may store null into a slot invalidates what is known of slots
                if self.nullers is None or nm in self.nullers:
                    for kk in [x for x in st if ('[' in x or '.at(' in x) and not x.startswith('$')]:
                        del st[kk]
                # a helper that leaves F[param] non-null on every exit
                for (fld, pos) in self.ensures.get(nm, []):
                    args = ir.call_args(e)
                    if pos < len(args):
                        st['%s[%s]' % (fld, ir.show(args[pos]))] = NN
        elif k in ('BinaryOperator', 'CXXOperatorCallExpr') and e.get('op') == '=' and len(c) >= 2:
            lhs, rhs = c[-2], c[-1]
            kl = self.key_of(lhs)
            l0 = ir.skipcasts(lhs)
            if kl is None and l0 is not None and l0.get('k') == 'DeclRefExpr' and l0.get('dk') == 'Var' and \
                    self.classify(rhs, st) is not None:
                self.tracked_locals.add(l0['n'])
                kl = l0['n']
            if kl is not None:
                v = self.classify(rhs, st)
                if v is not None:
                    st[kl] = v
                elif self._is_fresh(rhs):
                    st[kl] = NN
                elif '[' in kl or '.at(' in kl:
                    st[kl] = M          # a slot of a nullable field receives a value of unknown origin
                else:
                    st.pop(kl, None)    # a local now holds a value that does not come from a nullable source
            self._invalidate(lhs, st)
        elif k == 'UnaryOperator' and e.get('op') in ('++', '--') and c:
            self._invalidate(c[0], st)
        elif k == 'CompoundAssignOperator' and c:
            self._invalidate(c[0], st)

    def _is_fresh(self, e):
        e = ir.skipcasts(e)
        return e is not None and (e.get('k') == 'CXXNewExpr' or (ir.is_call(e) and ir.call_name(e) in NONNULL_CALLS))

    def _invalidate(self, lhs, st):
        l = ir.skipcasts(lhs)
        if l is None:
            return
        name = l.get('n')
        if not name or l.get('k') not in ('DeclRefExpr', 'MemberExpr'):
            return
        for kk in [x for x in st if not x.startswith('$') and ('[' in x or '.at(' in x) and re.search(r'(?<![\w.])%s(?!\w)' % re.escape(name),
                                                                               x[x.index('['):] if '[' in x else x)]:
            del st[kk]

    # ---------------------------------------------------------------- conditions
    def refine(self, cond, st, truth):
        """states in which `cond` evaluates to `truth` (possibly several; [] when infeasible)"""
        e = ir.skipcasts(cond)
        if e is None:
            return [st]
        k = e.get('k')
        c = e.get('c') or []
        if k == 'ParenExpr' and c:
            return self.refine(c[0], st, truth)
        if k == 'UnaryOperator' and e.get('op') == '!' and c:
            return self.refine(c[0], st, not truth)
        if k == 'BinaryOperator' and e.get('op') in ('&&', '||') and len(c) == 2:
            conj = e['op'] == '&&'
            if conj == truth:
                # both operands have the value `truth`
                out = []
                for s1 in self.refine(c[0], st, truth):
                    out += self.refine(c[1], s1, truth)
                return self.dedupe(out)
            # one operand has the value `truth`
            out = list(self.refine(c[0], dict(st), truth))
            for s1 in self.refine(c[0], dict(st), not truth):
                out += self.refine(c[1], s1, truth)
            return self.dedupe(out)
        if k in ('BinaryOperator', 'CXXOperatorCallExpr') and e.get('op') in ('==', '!=') and len(c) >= 2:
            a, b = c[-2], c[-1]
            # idiom `if (F.size() == i) F.push_back(fresh); else F[i] = fresh;`: remember the index on the true arm
            if (e['op'] == '==') == truth:
                for x, y in ((a, b), (b, a)):
                    x0 = ir.skipcasts(x)
                    if ir.is_call(x0) and ir.call_name(x0) == 'size' and ir.call_receiver(x0) is not None:
                        r = ir.skipcasts(ir.call_receiver(x0))
                        if r is not None and r.get('k') in ir.MEMBER_KINDS and r.get('n') in self.nfields:
                            s2 = dict(st)
                            s2['$size:' + ir.show(r)] = ir.show(y)
                            return [s2]
            for x, y in ((a, b), (b, a)):
                if is_null_literal(y):
                    kx = self.key_of(x)
                    if kx is None:
                        return [st]
                    cur = st.get(kx, M if _field_of_subscript(x) in self.nfields else None)
                    if cur is None:
                        return [st]
                    want_null = (e['op'] == '==') == truth
                    if cur == N and not want_null or cur == NN and want_null:
                        return []
                    s2 = dict(st)
                    s2[kx] = N if want_null else NN
                    return [s2]
            return [st]
        kx = self.key_of(e)
        if kx is not None:
            cur = st.get(kx, M if _field_of_subscript(e) in self.nfields else None)
            if cur is None:
                return [st]
            want_null = not truth
            if cur == N and not want_null or cur == NN and want_null:
                return []
            s2 = dict(st)
            s2[kx] = N if want_null else NN
            return [s2]
        return [st]

    # ---------------------------------------------------------------- statements
    def dedupe(self, states):
        seen = {}
        for s in states:
            seen[tuple(sorted(s.items()))] = s
        if len(seen) > self.max_states:
            raise AnalysisBroken('nullness: too many states in %s' % self.fn.get('qual'))
        return list(seen.values())

    def exec(self, s, states):
        """returns (fallthrough states, break states, continue states)"""
        if s is None or not states:
            return states, [], []
        k = s.get('k')
        if k == 'CompoundStmt':
            brk, cont = [], []
            cur = states
            for ch in s.get('c') or []:
                cur, b, c2 = self.exec(ch, cur)
                brk += b
                cont += c2
                if not cur:
                    break
            return cur, brk, cont
        if k == 'DeclStmt':
            cur = states
            for d in s.get('decls', []):
                if d.get('k') != 'VarDecl':
                    continue
                nxt = []
                for st in cur:
                    for s2 in self.scan(d.get('init'), dict(st)):
                        v = self.classify(d.get('init'), s2) if d.get('init') is not None else None
                        if v is not None and '&' not in (d.get('t') or '').replace('&&', ''):
                            self.tracked_locals.add(d['n'])
                            s2[d['n']] = v
                        else:
                            s2.pop(d.get('n'), None)
                        nxt.append(s2)
                cur = self.dedupe(nxt)
            return cur, [], []
        if k == 'IfStmt':
            cur = states
            if s.get('init') is not None:
                cur, _, _ = self.exec(s['init'], cur)
            ts, fs = [], []
            for st in cur:
                if s.get('constexpr'):
                    ts.append(dict(st))
                    fs.append(dict(st))
                    continue
                for s2 in self.scan(s.get('cond'), dict(st)):
                    ts += self.refine(s.get('cond'), dict(s2), True)
                    fs += self.refine(s.get('cond'), dict(s2), False)
            t_out, tb, tc = self.exec(s.get('then'), self.dedupe(ts))
            if s.get('else') is not None:
                f_out, fb, fc = self.exec(s.get('else'), self.dedupe(fs))
            else:
                f_out, fb, fc = self.dedupe(fs), [], []
            return self.dedupe(t_out + f_out), tb + fb, tc + fc
        if k in ('WhileStmt', 'ForStmt', 'CXXForRangeStmt', 'DoStmt'):
            return self.loop(s, states)
        if k == 'ReturnStmt':
            for st in states:
                self.exit_states += self.scan(s.get('value'), dict(st))
            return [], [], []
        if k == 'BreakStmt':
            return [], states, []
        if k == 'ContinueStmt':
            return [], [], states
        if k in ('CXXThrowExpr',):
            for st in states:
                self.scan(s, dict(st))
            return [], [], []
        if k in ('NullStmt', 'StaticAssert', 'TypeAlias'):
            return states, [], []
        if k in ('SwitchStmt', 'CXXTryStmt', 'CaseStmt', 'DefaultStmt', 'CXXCatchStmt', 'LabelStmt', 'AttributedStmt'):
            cur = states
            brk, cont = [], []
            for ch in ir.kids(s):
                if ch.get('k', '').endswith('Stmt') or ch.get('k') in ('CompoundStmt',):
                    out, b, c2 = self.exec(ch, [dict(x) for x in cur])
                    cur = self.dedupe(cur + out)
                    cont += c2
                    brk += b if k != 'SwitchStmt' else []
                    if k == 'SwitchStmt':
                        cur = self.dedupe(cur + b)
            return cur, brk, cont
        if k == 'GotoStmt':
            raise AnalysisBroken('nullness: goto in %s' % self.fn.get('qual'))
        # expression statement
        out = []
        for st in states:
            out += self.scan(s, dict(st))
        if s.get('k') == 'CallExpr' and ir.call_name(s) in ('__assert_fail', 'abort', 'exit'):
            return [], [], []
        return self.dedupe(out), [], []

    def loop(self, s, states):
        k = s.get('k')
        cur = states
        if k == 'ForStmt' and s.get('init') is not None:
            cur, _, _ = self.exec(s['init'], cur)
        loopvar = None
        if k == 'CXXForRangeStmt':
            for st in cur:
                self.scan(s.get('range'), dict(st))
            v = s.get('var') or {}
            rng = s.get('range')
            fld = None
            for x in ir.walk(rng):
                if x.get('k') in ir.MEMBER_KINDS and x.get('n') in self.nfields:
                    fld = x['n']
            rt = ir.skipcasts(rng)
            direct = rt is not None and rt.get('k') in ir.MEMBER_KINDS and rt.get('n') in self.nfields
            if fld and direct and v.get('n'):
                loopvar = v['n']
                self.tracked_locals.add(loopvar)
        heads = {}
        work = list(cur)
        exits = []
        first_do = (k == 'DoStmt')
        rounds = 0
        while work:
            rounds += 1
            if rounds > 200:
                raise AnalysisBroken('nullness: loop does not stabilise in %s' % self.fn.get('qual'))
            batch = []
            for st in work:
                key = tuple(sorted(st.items()))
                if key in heads:
                    continue
                heads[key] = st
                batch.append(st)
            work = []
            if not batch:
                break
            ts = []
            for st in batch:
                if k == 'CXXForRangeStmt':
                    exits.append(dict(st))
                    s2 = dict(st)
                    if loopvar:
                        s2[loopvar] = M
                    elif (s.get('var') or {}).get('n'):
                        s2.pop(s['var']['n'], None)
                    ts.append(s2)
                elif first_do:
                    ts.append(dict(st))
                elif s.get('cond') is None:
                    ts.append(dict(st))
                else:
                    for s2 in self.scan(s.get('cond'), dict(st)):
                        ts += self.refine(s.get('cond'), dict(s2), True)
                        exits += self.refine(s.get('cond'), dict(s2), False)
            out, brk, cont = self.exec(s.get('body'), self.dedupe(ts))
            exits += brk
            nxt = self.dedupe(out + cont)
            if k == 'ForStmt' and s.get('inc') is not None:
                n2 = []
                for st in nxt:
                    n2 += self.scan(s['inc'], dict(st))
                nxt = n2
            if k == 'DoStmt':
                n2 = []
                for st in nxt:
                    for s2 in self.scan(s.get('cond'), dict(st)):
                        n2 += self.refine(s.get('cond'), dict(s2), True)
                        exits += self.refine(s.get('cond'), dict(s2), False)
                nxt = n2
            work = nxt
        return self.dedupe(exits), [], []

    def run(self):
        out, _, _ = self.exec(self.fn.get('body'), [{}])
        self.exit_states += out
        return sorted(self.findings.values(), key=lambda f: (f.line or 0, f.key))


def null_storers(fns, nfields):
    """member functions that may leave a null pointer in a slot of a nullable field: a store of something that is
    not freshly constructed, a swap of slots, a resize/clear/assign of the field; closed under calls on *this"""
    direct = set()
    for f in fns:
        for x in ir.walk(f.get('body')):
            if x.get('k') in ('BinaryOperator', 'CXXOperatorCallExpr') and x.get('op') == '=':
                c = x.get('c') or []
                if len(c) >= 2 and _field_of_subscript(c[-2]) in nfields:
                    r = ir.skipcasts(c[-1])
                    fresh = r is not None and (r.get('k') == 'CXXNewExpr' or (ir.is_call(r) and
                                                                                ir.call_name(r) in NONNULL_CALLS))
                    if not fresh:
                        direct.add(f['name'])
            if ir.is_call(x):
                nm = ir.call_name(x)
                if nm == 'swap' and any(_field_of_subscript(a) in nfields for a in ir.call_args(x)):
                    direct.add(f['name'])
                if nm in ('resize', 'clear', 'assign', 'push_back', 'emplace_back', 'swap'):
                    r = ir.skipcasts(ir.call_receiver(x)) if ir.call_receiver(x) is not None else None
                    if r is not None and r.get('k') in ir.MEMBER_KINDS and r.get('n') in nfields and \
                            nm in ('resize', 'clear', 'assign', 'swap'):
                        direct.add(f['name'])
    names = set(direct)
    by = {}
    for f in fns:
        by.setdefault(f['name'], []).append(f)
    for _ in range(6):
        grew = False
        for f in fns:
            if f['name'] in names:
                continue
            for x in ir.walk(f.get('body')):
                if ir.is_call(x) and ir.is_this_call(x) and ir.call_name(x) in names and ir.call_name(x) in by:
                    names.add(f['name'])
                    grew = True
                    break
        if not grew:
            break
    return names


def analyse_class(fns, extra_ncalls=()):
    """runs the analysis on every function of one class; returns (findings per function, stats).
    A private helper (name starting with `_`) that dereferences F[<its parameter>] without a test hands the
    obligation to its callers: the call is then a sink for F[<argument>] in the caller's state."""
    ncalls = nullable_calls(fns) | set(extra_ncalls)
    nfields = nullable_fields(fns)
    if not ncalls and not nfields:
        return [], {'nullable_calls': [], 'nullable_fields': [], 'sinks': 0, 'helpers': {}}
    nullers = null_storers(fns, nfields)
    preconds = {}
    for _ in range(4):
        grew = False
        for f in fns:
            if f.get('body') is None or not f['name'].startswith('_'):
                continue
            a = Analysis(f, ncalls, nfields, nullers=nullers, preconds=preconds)
            params = [p_['n'] for p_ in f.get('params', [])]
            for x in a.run():
                m = re.match(r'^(\w+)\[(\w+)\]$', x.key)
                if m and m.group(1) in nfields and m.group(2) in params:
                    pc = (m.group(1), params.index(m.group(2)))
                    if pc not in preconds.setdefault(f['name'], []):
                        preconds[f['name']].append(pc)
                        grew = True
        if not grew:
            break
    # helpers that establish a slot: F[param] is non-null in every exit state
    ensures = {}
    for f in fns:
        if f.get('body') is None or not f['name'].startswith('_'):
            continue
        a = Analysis(f, ncalls, nfields, nullers=nullers, preconds=preconds)
        a.run()
        params = [p_['n'] for p_ in f.get('params', [])]
        for fld in nfields:
            for pos, pn in enumerate(params):
                key = '%s[%s]' % (fld, pn)
                if a.exit_states and all(st.get(key) == NN for st in a.exit_states):
                    ensures.setdefault(f['name'], []).append((fld, pos))
    res = []
    sinks = 0
    for f in fns:
        if f.get('body') is None:
            continue
        a = Analysis(f, ncalls, nfields, nullers=nullers, preconds=preconds, ensures=ensures)
        fs = a.run()
        if f['name'] in preconds:
            params = [p_['n'] for p_ in f.get('params', [])]
            moved = {'%s[%s]' % (fld, params[pos]) for fld, pos in preconds[f['name']]}
            fs = [x for x in fs if x.key not in moved]
        sinks += a.sinks
        res.append((f, fs, a.sinks))
    return res, {'nullable_calls': sorted(ncalls), 'nullable_fields': sorted(nfields), 'sinks': sinks,
                 'helpers': {k: v for k, v in preconds.items()}, 'ensures': ensures, 'null_storers': sorted(nullers)}

"""E8/E9: evaluation of predicate-only code on finite valuations.

A comparator (or the nested ifs of a pairing routine) touches its inputs only through a fixed set of boolean
predicates. evaluate() interprets the statement tree of such a function under one valuation of the predicates and
returns what it returns; enumerating all valuations is exhaustive for the abstraction. Nothing is executed: the
oracle callback decides every atomic predicate from the valuation, and any expression that is neither control
structure, boolean connective nor a registered predicate makes the analysis broken (exit 2)."""
from . import ir
from .facts import AnalysisBroken


class Unknown(AnalysisBroken):
    pass


class Return(Exception):
    def __init__(self, v):
        self.v = v


class Evaluator:
    def __init__(self, oracle, max_steps=10000):
        """oracle(node, env) -> bool | int | None (None: not a predicate it knows)"""
        self.oracle = oracle
        self.env = {}
        self.steps = 0
        self.max_steps = max_steps

    def run(self, body):
        try:
            self.stmt(body)
        except Return as r:
            return r.v
        return None

    def tick(self):
        self.steps += 1
        if self.steps > self.max_steps:
            raise Unknown('predicate evaluation does not terminate')

    def stmt(self, s):
        if s is None:
            return
        self.tick()
        k = s.get('k')
        if k == 'CompoundStmt':
            for c in s.get('c') or []:
                self.stmt(c)
        elif k == 'DeclStmt':
            for d in s.get('decls', []):
                if d.get('k') == 'VarDecl':
                    r = self.oracle(d, self.env)
                    if r is None and d.get('init') is not None:
                        try:
                            r = self.expr(d['init'])
                        except Unknown:
                            r = ('opaque', ir.show(d['init']))
                    self.env[d.get('n')] = r
        elif k == 'IfStmt':
            if self.truth(s.get('cond')):
                self.stmt(s.get('then'))
            else:
                self.stmt(s.get('else'))
        elif k == 'WhileStmt':
            while self.truth(s.get('cond')):
                self.tick()
                self.stmt(s.get('body'))
        elif k == 'ForStmt':
            self.stmt(s.get('init'))
            while s.get('cond') is None or self.truth(s.get('cond')):
                self.tick()
                self.stmt(s.get('body'))
                if s.get('inc') is not None:
                    self.expr(s['inc'])
        elif k == 'ReturnStmt':
            raise Return(self.expr(s.get('value')) if s.get('value') is not None else None)
        elif k == 'NullStmt':
            pass
        else:
            self.expr(s)

    def truth(self, e):
        v = self.expr(e)
        if isinstance(v, bool):
            return v
        if isinstance(v, int):
            return v != 0
        raise Unknown('condition is not a known predicate: %s' % ir.show(e)[:120])

    def expr(self, e):
        e = ir.skipcasts(e)
        if e is None:
            return None
        self.tick()
        r = self.oracle(e, self.env)
        if r is not None:
            return r
        k = e.get('k')
        c = e.get('c') or []
        if k == 'CXXBoolLiteralExpr':
            return e.get('v') == 'true'
        if k == 'IntegerLiteral':
            return int(e['v'])
        if k == 'UnaryOperator' and e.get('op') == '!':
            return not self.truth(c[0])
        if k == 'BinaryOperator' and e.get('op') == '&&':
            return self.truth(c[0]) and self.truth(c[1])
        if k == 'BinaryOperator' and e.get('op') == '||':
            return self.truth(c[0]) or self.truth(c[1])
        if k == 'ConditionalOperator':
            return self.expr(c[1]) if self.truth(c[0]) else self.expr(c[2])
        if k == 'BinaryOperator' and e.get('op') in ('==', '!=') and len(c) == 2:
            # comparison of two predicate values (e.g. `has_children(a) != has_children(b)`)
            l, r = self.expr(c[0]), self.expr(c[1])
            if isinstance(l, (bool, int)) and isinstance(r, (bool, int)):
                return (l == r) if e['op'] == '==' else (l != r)
        if k == 'DeclRefExpr' and e.get('n') in self.env:
            return self.env[e['n']]
        if k in ('CXXConstructExpr', 'CXXFunctionalCastExpr', 'ParenListExpr', 'InitListExpr') and len(c) == 1:
            return self.expr(c[0])
        raise Unknown('expression is not a known predicate: %s (%s, line %s)' % (ir.show(e)[:120], k, e.get('l')))


# ---------------------------------------------------------------- key cascades

CMP_OPS = ('==', '!=', '<', '>', '<=', '>=')


def _subst(text, a, b):
    import re
    t = re.sub(r'\b%s\b' % re.escape(a), '\x01', text)
    t = re.sub(r'\b%s\b' % re.escape(b), '\x02', t)
    return t


def comparison_key(e, a, b):
    """If e is `K(a) op K(b)` or `K(b) op K(a)` return (key text with '@', op, swapped)."""
    e = ir.skipcasts(e)
    if e is None or e.get('k') not in ('BinaryOperator', 'CXXOperatorCallExpr') or e.get('op') not in CMP_OPS:
        return None
    c = e.get('c') or []
    if e['k'] == 'CXXOperatorCallExpr':
        c = c[1:]
    if len(c) != 2:
        return None
    l, r = _subst(ir.show(c[0]), a, b), _subst(ir.show(c[1]), a, b)
    if '\x01' in l and '\x02' not in l and r == l.replace('\x01', '\x02'):
        return l.replace('\x01', '@'), e['op'], False
    if '\x02' in l and '\x01' not in l and r == l.replace('\x02', '\x01'):
        return l.replace('\x02', '@'), e['op'], True
    return None


def call_key(e, a, b):
    """`f(a, b)` / `obj->f(a, b)` with exactly the two elements as arguments: a delegated comparator"""
    e = ir.skipcasts(e)
    if e is None or not ir.is_call(e):
        return None
    args = [ir.show(x) for x in ir.call_args(e)]
    if e.get('k') == 'CXXOperatorCallExpr':
        return None
    if args == [a, b]:
        return 'call:' + (ir.call_name(e) or '?'), '<', False
    if args == [b, a]:
        return 'call:' + (ir.call_name(e) or '?'), '<', True
    return None


def rel_truth(rel, op, swapped):
    """truth of `x op y` when rel is the relation of (a-side, b-side) in {'lt','eq','gt'}"""
    if swapped:
        rel = {'lt': 'gt', 'gt': 'lt', 'eq': 'eq'}[rel]
    return {'==': rel == 'eq', '!=': rel != 'eq', '<': rel == 'lt', '>': rel == 'gt',
            '<=': rel in ('lt', 'eq'), '>=': rel in ('gt', 'eq')}[op]


def cascade_keys(body, a, b):
    """all comparison keys occurring in the comparator body, in order of first occurrence"""
    keys = []
    for x in ir.walk(body):
        k = comparison_key(x, a, b) or call_key(x, a, b)
        if k and k[0] not in keys:
            keys.append(k[0])
    return keys


def evaluate_cascade(body, a, b, valuation):
    """result of the comparator when key i has relation valuation[key] between the a-side and the b-side"""
    def oracle(e, env):
        k = comparison_key(e, a, b) or call_key(e, a, b)
        if k is None:
            return None
        key, op, sw = k
        if key not in valuation:
            raise Unknown('comparison on an unexpected key %s' % key)
        return rel_truth(valuation[key], op, sw)
    return Evaluator(oracle).run(body)

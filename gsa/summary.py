"""Class-local call graph and may/must effect summaries at template-pattern level.

Calls are resolved by *name within the class* (implicit/explicit this calls): all overloads are merged, which is
conservative for MAY (any overload) and for MUST (all overloads must)."""
from . import ir, paths


class ClassGraph:
    def __init__(self, fns):
        self.fns = list(fns)
        self.by_name = {}
        for f in self.fns:
            self.by_name.setdefault(f['name'], []).append(f)
        self.calls = {}     # id(fn) -> list of (callee name, node)
        self.callers = {}   # name -> set of caller names
        for f in self.fns:
            lst = []
            for x in ir.walk(f.get('body')):
                if ir.is_call(x) and ir.is_this_call(x):
                    n = ir.call_name(x)
                    if n in self.by_name:
                        lst.append((n, x))
                        self.callers.setdefault(n, set()).add(f['name'])
            for i in f.get('inits', []) or []:
                for x in ir.walk(i.get('init')):
                    if ir.is_call(x) and ir.is_this_call(x):
                        n = ir.call_name(x)
                        if n in self.by_name:
                            lst.append((n, x))
                            self.callers.setdefault(n, set()).add(f['name'])
            self.calls[id(f)] = lst

    def may(self, direct):
        """direct: fn -> set(tags). Returns name -> set(tags) closed over class-local calls."""
        res = {}
        for name, fs in self.by_name.items():
            s = set()
            for f in fs:
                s |= direct(f)
            res[name] = s
        changed = True
        while changed:
            changed = False
            for name, fs in self.by_name.items():
                for f in fs:
                    for cn, _ in self.calls[id(f)]:
                        add = res.get(cn, set()) - res[name]
                        if add:
                            res[name] |= add
                            changed = True
        return res

    def must(self, classify, tag, loop_mode='1', rounds=6):
        """Names of functions all of whose non-throwing paths contain `tag` (directly or via a must-callee)."""
        must = set()
        for _ in range(rounds):
            grew = False

            def cl(x, must=must):
                ev = list(classify(x))
                if ir.is_call(x) and ir.is_this_call(x) and ir.call_name(x) in must and tag not in ev:
                    ev.append(tag)
                return ev
            for name, fs in self.by_name.items():
                if name in must:
                    continue
                ok = True
                for f in fs:
                    if f.get('body') is None:
                        ok = False
                        break
                    try:
                        ps = paths.enumerate_paths(f, cl, loop_mode=loop_mode, keep_conds=False, cap=5000)
                    except paths.TooManyPaths:
                        ok = False
                        break
                    for p in ps:
                        if p.end == 'throw':
                            continue
                        if tag not in p.tags():
                            ok = False
                            break
                    if not ok:
                        break
                if ok:
                    must.add(name)
                    grew = True
            if not grew:
                break
        return must

"""E3/E4: symbolic range interpreter for small integer functions (the coefficient-field classes).

Every integer value is a linear form over symbols (parameters, the modulus p, fresh symbols for non-linear
results) over the unbounded integers, together with its C++ type.  Path conditions are linear inequalities;
questions ("is this value >= 0 / <= max of its type / < p ?") are decided by exact Fourier-Motzkin elimination
with integer tightening.  C++ semantics modelled: usual arithmetic conversions are already explicit in clang's
AST (ImplicitCastExpr IntegralCast, compound-assignment computation types), so the interpreter only follows them.

Obligations produced (each with the AST node):
  wrap       an unsigned value whose mathematical value may leave its type's range reaches a non-homomorphic
             operator (% / < <= > >= == != >> conversion-to-wider, return)      [deliberate wrap undone by +/- is ok]
  sconv      a possibly negative signed value is converted to unsigned and reaches such an operator  (E4)
  soverflow  a signed operation may overflow (UB)
  closure    a returned / stored field element is not provably in [0, p)
  precond    an operand handed to a helper with a "reduced operands" contract is not provably in [0, p)
Loops are handled Houdini-style: candidate invariants (ranges that hold on entry) are assumed at the head, the body
is executed once, candidates that are not re-established are dropped until the set is inductive.
"""
from fractions import Fraction

from . import ir
from .facts import AnalysisBroken

# ---------------------------------------------------------------- linear forms and Fourier-Motzkin


class Lin:
    __slots__ = ('c', 't')

    def __init__(self, c=0, t=None):
        self.c = Fraction(c)
        self.t = {k: Fraction(v) for k, v in (t or {}).items() if v != 0}

    @staticmethod
    def sym(s):
        return Lin(0, {s: 1})

    def __add__(self, o):
        o = o if isinstance(o, Lin) else Lin(o)
        t = dict(self.t)
        for k, v in o.t.items():
            t[k] = t.get(k, 0) + v
        return Lin(self.c + o.c, t)

    def __neg__(self):
        return Lin(-self.c, {k: -v for k, v in self.t.items()})

    def __sub__(self, o):
        o = o if isinstance(o, Lin) else Lin(o)
        return self + (-o)

    def scale(self, k):
        k = Fraction(k)
        return Lin(self.c * k, {s: v * k for s, v in self.t.items()})

    def is_const(self):
        return not self.t

    def __repr__(self):
        parts = []
        for k, v in sorted(self.t.items()):
            parts.append(('%s' % k) if v == 1 else ('-%s' % k if v == -1 else '%s*%s' % (v, k)))
        if self.c != 0 or not parts:
            parts.append(str(self.c))
        return ' + '.join(parts).replace('+ -', '- ')


def fm_infeasible(cons, limit=4000):
    """cons: list of Lin meaning L >= 0 over the integers (all symbols integer). True if provably infeasible."""
    cons = [c for c in cons]
    # integer tightening is applied by callers (strict -> -1)
    syms = set()
    for c in cons:
        syms |= set(c.t)
    cur = cons
    for s in sorted(syms, key=lambda s: sum(1 for c in cur if s in c.t)):
        pos, neg, rest = [], [], []
        for c in cur:
            a = c.t.get(s, 0)
            if a > 0:
                pos.append(c)
            elif a < 0:
                neg.append(c)
            else:
                rest.append(c)
        new = rest
        for p in pos:
            for n in neg:
                a, b = p.t[s], -n.t[s]
                r = p.scale(b) + n.scale(a)
                r.t.pop(s, None)
                if r.is_const():
                    if r.c < 0:
                        return True
                    continue
                new.append(r)
        if len(new) > limit:
            return False    # give up: cannot prove
        cur = _dedup(new)
    for c in cur:
        if c.is_const() and c.c < 0:
            return True
    return False


def _dedup(cons):
    seen = {}
    for c in cons:
        # normalise by the first coefficient's magnitude
        if not c.t:
            key = ()
            k = 1
        else:
            first = sorted(c.t)[0]
            k = abs(c.t[first])
            key = tuple((s, v / k) for s, v in sorted(c.t.items()))
        cc = c.c / k
        if key not in seen or cc < seen[key][0]:
            seen[key] = (cc, c)
    return [v[1] for v in seen.values()]


# ---------------------------------------------------------------- types and values

class ITy:
    __slots__ = ('bits', 'signed', 'name')

    def __init__(self, bits, signed, name=''):
        self.bits, self.signed, self.name = bits, signed, name

    @property
    def lo(self):
        return -(1 << (self.bits - 1)) if self.signed else 0

    @property
    def hi(self):
        return (1 << (self.bits - 1)) - 1 if self.signed else (1 << self.bits) - 1

    def __repr__(self):
        return self.name or ('%s%d' % ('i' if self.signed else 'u', self.bits))


NAMED = {'bool': (8, False), 'char': (8, True), 'signed char': (8, True), 'unsigned char': (8, False),
         'short': (16, True), 'unsigned short': (16, False), 'int': (32, True), 'unsigned int': (32, False),
         'long': (64, True), 'unsigned long': (64, False), 'long long': (64, True), 'unsigned long long': (64, False)}


def ty_of(node):
    if node is None or 'bits' not in node:
        return None
    return ITy(node['bits'], bool(node.get('sgn')), node.get('ity', ''))


def ty_named(s):
    s = (s or '').replace('const ', '').strip()
    if s in NAMED:
        b, sg = NAMED[s]
        return ITy(b, sg, s)
    return None


class Val:
    """lin: mathematical value; ty: C++ type; mod: None when the machine value equals lin, else k meaning the machine
    value is only known congruent to lin modulo 2^k (it went through a k-bit wrap); alo/ahi: numeric bounds of the
    *machine* value when mod is set (the range of the narrow type it came from); negconv: it came from converting a
    possibly negative signed value (report text); cmp: a comparison (op, a, b) for boolean values."""
    __slots__ = ('lin', 'ty', 'mod', 'negconv', 'cmp', 'alo', 'ahi')

    def __init__(self, lin, ty, mod=None, negconv=False, cmp=None, alo=None, ahi=None):
        if mod is True:
            mod = ty.bits if ty is not None else 64
        elif mod is False:
            mod = None
        self.lin, self.ty, self.mod, self.negconv, self.cmp = lin, ty, mod, negconv, cmp
        if mod is not None and ty is not None and alo is None:
            alo, ahi = ty.lo, ty.hi
        self.alo, self.ahi = alo, ahi

    @property
    def wrapped(self):
        return self.mod is not None


class State:
    def __init__(self, env=None, cons=None, fields=None):
        self.env = dict(env or {})
        self.cons = list(cons or [])
        self.fields = dict(fields or {})   # (base text, member) -> Val for writable members
        self.dead = False

    def copy(self):
        s = State(self.env, self.cons, self.fields)
        return s

    def assume(self, lin):
        self.cons.append(lin)

    def infeasible(self):
        return fm_infeasible(self.cons)

    def prove_ge0(self, lin):
        return fm_infeasible(self.cons + [(-lin) - 1])

    def prove_le(self, a, b):
        return self.prove_ge0(b - a)


class Obligation:
    def __init__(self, kind, node, msg, fn):
        self.kind, self.node, self.msg, self.fn = kind, node, msg, fn


class Config:
    """per-class contract: names standing for the modulus, its bounds, helper contracts"""

    def __init__(self, modulus_names, pmin, pmax, reduced_fields=('element_',), element_type='unsigned int',
                 helpers=None, unconstrained_params_of=('get_value', '_get_value'), modulus_params=()):
        self.modulus_names = set(modulus_names)
        self.pmin, self.pmax = pmin, pmax
        self.reduced_fields = set(reduced_fields)
        self.element_type = element_type
        # helper name -> 'reduced' (requires reduced args, returns reduced) | 'value' (any arg, returns reduced)
        self.helpers = helpers or {}
        self.unconstrained_params_of = set(unconstrained_params_of)
        self.modulus_params = set(modulus_params)


class Interp:
    def __init__(self, fn, cfg, loop_rounds=6, max_states=400):
        self.fn = fn
        self.cfg = cfg
        self.obs = []
        self.fresh = 0
        self.max_states = max_states
        self.loop_rounds = loop_rounds
        self.returns = []     # (state, Val, node)
        self.checked = 0      # number of decided questions
        self._seen_ob = set()

    # ---- helpers
    def P(self):
        return Lin.sym('p')

    def newsym(self, hint='t'):
        self.fresh += 1
        return Lin.sym('%s%d' % (hint, self.fresh))

    def ob(self, kind, node, msg):
        key = (kind, node.get('l'), msg[:60])
        if key in self._seen_ob:
            return
        self._seen_ob.add(key)
        self.obs.append(Obligation(kind, node, msg, self.fn))

    def base_state(self):
        st = State()
        p = self.P()
        st.assume(p - self.cfg.pmin)
        st.assume(Lin(self.cfg.pmax) - p)
        return st

    def reduced_sym(self, st, hint):
        s = self.newsym(hint)
        st.assume(s)
        st.assume(self.P() - s - 1)
        return s

    def full_range_sym(self, st, ty, hint):
        s = self.newsym(hint)
        st.assume(s - ty.lo)
        st.assume(Lin(ty.hi) - s)
        return s

    def in_range(self, st, lin, ty):
        self.checked += 1
        return st.prove_ge0(lin - ty.lo) and st.prove_ge0(Lin(ty.hi) - lin)

    # ---- entry
    def run(self):
        fn = self.fn
        st = self.base_state()
        name = fn['name']
        for p in fn.get('params', []):
            ty = ty_of(p)
            if ty is None:
                continue
            pname = p.get('n') or ''
            if pname in self.cfg.modulus_names or pname in self.cfg.modulus_params:
                st.env[p['id']] = Val(self.P(), ty)
            elif name in self.cfg.unconstrained_params_of or ty.name == 'bool':
                st.env[p['id']] = Val(self.full_range_sym(st, ty, pname or 'a'), ty)
            else:
                st.env[p['id']] = Val(self.reduced_sym(st, pname or 'e'), ty)
        outs = self.exec(fn.get('body'), [st])
        return outs

    # ---- statements: returns list of live states
    def exec(self, s, states):
        states = [x for x in states if not x.dead]
        if s is None or not states:
            return states
        if len(states) > self.max_states:
            raise AnalysisBroken('absint: state explosion in %s' % self.fn.get('qual'))
        k = s.get('k')
        if k == 'CompoundStmt':
            for c in s.get('c') or []:
                states = self.exec(c, states)
            return states
        if k == 'DeclStmt':
            for d in s.get('decls', []):
                if d.get('k') != 'VarDecl':
                    continue
                ty = ty_of(d)
                nxt = []
                for st in states:
                    if d.get('init') is not None and ty is not None:
                        for st2, v in self.eval(d['init'], st):
                            st2.env[d['id']] = self.convert(st2, v, ty, d)
                            nxt.append(st2)
                    else:
                        if ty is not None:
                            st.env[d['id']] = Val(self.full_range_sym(st, ty, d.get('n') or 'v'), ty)
                        elif d.get('init') is not None:
                            for st2, v in self.eval(d['init'], st):
                                nxt.append(st2)
                            continue
                        nxt.append(st)
                states = nxt
            return states
        if k == 'IfStmt':
            out = []
            for st in states:
                if s.get('init'):
                    sts = self.exec(s['init'], [st])
                else:
                    sts = [st]
                for st1 in sts:
                    for st2, cv in self.eval(s.get('cond'), st1):
                        tb, fb = self.split(st2, cv, s.get('cond'))
                        if s.get('constexpr') and (s.get('then') is None) != (s.get('else') is None) and \
                                cv.cmp is None and cv.lin is None:
                            # instantiated if-constexpr: only the surviving arm exists
                            arm = s.get('then') if s.get('then') is not None else s.get('else')
                            out += self.exec(arm, [st2])
                            continue
                        if tb is not None:
                            out += self.exec(s.get('then'), [tb])
                        if fb is not None:
                            out += self.exec(s.get('else'), [fb]) if s.get('else') is not None else [fb]
            return out
        if k == 'ReturnStmt':
            for st in states:
                if s.get('value') is None:
                    self.returns.append((st, None, s))
                    continue
                for st2, v in self.eval(s['value'], st):
                    self.returns.append((st2, v, s))
            return []
        if k in ('WhileStmt', 'ForStmt', 'DoStmt'):
            return self.loop(s, states)
        if k == 'CXXForRangeStmt':
            raise AnalysisBroken('absint: range-for not supported (%s)' % self.fn.get('qual'))
        if k in ('NullStmt', 'BreakStmt', 'ContinueStmt'):
            if k != 'NullStmt':
                raise AnalysisBroken('absint: break/continue not supported (%s)' % self.fn.get('qual'))
            return states
        if k in ('CXXTryStmt', 'SwitchStmt', 'GotoStmt', 'LabelStmt'):
            raise AnalysisBroken('absint: %s not supported (%s)' % (k, self.fn.get('qual')))
        # expression statement
        out = []
        for st in states:
            for st2, _ in self.eval(s, st):
                if not st2.dead:
                    out.append(st2)
        return out

    def assigned_vars(self, s):
        ids = {}
        for x in ir.walk(s):
            t = ir.write_target(x)
            if t is not None:
                t = ir.skipcasts(t)
                if t is not None and t.get('k') == 'DeclRefExpr':
                    ids[t['id']] = t
            if ir.is_call(x) and ir.call_name(x) == 'swap':
                for a in ir.call_args(x):
                    a = ir.skipcasts(a)
                    if a is not None and a.get('k') == 'DeclRefExpr':
                        ids[a['id']] = a
        return ids

    def loop(self, s, states):
        k = s.get('k')
        out = []
        for st in states:
            sts = self.exec(s.get('init'), [st]) if k == 'ForStmt' and s.get('init') else [st]
            for st0 in sts:
                out += self.loop1(s, st0)
        return out

    def loop1(self, s, st0):
        body = s.get('body')
        mod = self.assigned_vars(body)
        if s.get('inc'):
            mod.update(self.assigned_vars(s['inc']))
        if s.get('cond'):
            mod.update(self.assigned_vars(s['cond']))
        # candidate invariants: for every modified variable, "0 <= v", "v <= p-1" if they hold on entry
        cands = {}
        for vid, node in mod.items():
            v = st0.env.get(vid)
            if v is None or v.wrapped:
                continue
            c = set()
            if st0.prove_ge0(v.lin):
                c.add('ge0')
            if st0.prove_ge0(self.P() - v.lin - 1):
                c.add('ltp')
            cands[vid] = c
        for _ in range(self.loop_rounds):
            head = st0.copy()
            syms = {}
            for vid, node in mod.items():
                v = st0.env.get(vid)
                ty = v.ty if v is not None else ty_of(node)
                if ty is None:
                    continue
                sname = self.full_range_sym(head, ty, (node.get('n') or 'v') + '_')
                syms[vid] = sname
                head.env[vid] = Val(sname, ty)
                for c in cands.get(vid, ()):
                    head.assume(sname if c == 'ge0' else self.P() - sname - 1)
            # one iteration, obligations recorded in a scratch interpreter pass (kept only in the final round)
            saved_obs, saved_seen, saved_ret = self.obs, self._seen_ob, self.returns
            self.obs, self._seen_ob, self.returns = [], set(), []
            exits = []
            if s.get('k') == 'DoStmt':
                ends = self.exec(body, [head.copy()])
                body_in = []
                for e in ends:
                    for st2, cv in self.eval(s.get('cond'), e):
                        tb, fb = self.split(st2, cv, s.get('cond'))
                        if tb is not None:
                            body_in.append(tb)
                        if fb is not None:
                            exits.append(fb)
                ends = body_in
            else:
                body_in = []
                if s.get('cond') is not None:
                    for st2, cv in self.eval(s.get('cond'), head.copy()):
                        tb, fb = self.split(st2, cv, s.get('cond'))
                        if tb is not None:
                            body_in.append(tb)
                        if fb is not None:
                            exits.append(fb)
                else:
                    body_in = [head.copy()]
                ends = self.exec(body, body_in)
                if s.get('inc') is not None:
                    e2 = []
                    for e in ends:
                        for st2, _ in self.eval(s['inc'], e):
                            e2.append(st2)
                    ends = e2
            round_obs, round_ret = self.obs, self.returns
            self.obs, self._seen_ob, self.returns = saved_obs, saved_seen, saved_ret
            dropped = False
            for vid, cs in cands.items():
                for c in list(cs):
                    for e in ends:
                        v = e.env.get(vid)
                        ok = v is not None and not v.wrapped and (
                            e.prove_ge0(v.lin) if c == 'ge0' else e.prove_ge0(self.P() - v.lin - 1))
                        if not ok:
                            cs.discard(c)
                            dropped = True
                            break
            if not dropped:
                for o in round_obs:
                    self.ob(o.kind, o.node, o.msg)
                self.returns += round_ret
                return exits
        raise AnalysisBroken('absint: loop invariant inference did not stabilise in %s' % self.fn.get('qual'))

    # ---- conditions
    def split(self, st, cv, node):
        """returns (state if true, state if false); None when infeasible"""
        if cv is None or (cv.cmp is None and cv.lin is None):
            return st.copy(), st.copy()
        t, f = st.copy(), st.copy()
        if cv.cmp is not None:
            op, a, b = cv.cmp
            self.add_cmp(t, op, a, b, True)
            self.add_cmp(f, op, a, b, False)
        else:
            # integer used as a condition: != 0
            if st.prove_ge0(cv.lin):
                t.assume(cv.lin - 1)
                f.assume(-cv.lin)
        return (None if t.infeasible() else t), (None if f.infeasible() else f)

    def add_cmp(self, st, op, a, b, truth):
        if not truth:
            op = {'<': '>=', '>=': '<', '>': '<=', '<=': '>', '==': '!=', '!=': '=='}[op]
        if op == '<':
            st.assume(b - a - 1)
        elif op == '<=':
            st.assume(b - a)
        elif op == '>':
            st.assume(a - b - 1)
        elif op == '>=':
            st.assume(a - b)
        elif op == '==':
            st.assume(a - b)
            st.assume(b - a)
        # '!=' adds nothing (disjunction)

    # ---- conversions
    def need_exact(self, st, v, node, why):
        """v is about to be used by a non-homomorphic operator: its machine value must equal its mathematical one."""
        if v is None or v.lin is None or v.ty is None:
            return v
        if v.mod is None:
            return v
        # value == lin (mod 2^k), value within its type: equal as soon as the type has at most k bits and lin fits it
        if v.ty.bits <= v.mod and self.in_range(st, v.lin, v.ty):
            return Val(v.lin, v.ty)
        if v.negconv:
            self.ob('sconv', node, 'a possibly negative signed value is converted to %s and then used by %s: the '
                    'result is computed on value + 2^%d' % (v.ty, why, v.mod))
        else:
            self.ob('wrap', node, 'an %s intermediate may leave [0, 2^%d) and is then used by %s'
                    % (v.ty, v.mod, why))
        # continue with an unknown value of the type
        return Val(self.full_range_sym(st, v.ty, 'w'), v.ty)

    def abounds(self, st, v):
        """numeric bounds of the machine value of v"""
        if v.mod is not None:
            return v.alo, v.ahi
        lo, hi = self.bounds(st, v.lin)
        if lo is None or (v.ty is not None and lo < v.ty.lo):
            lo = v.ty.lo if v.ty is not None else None
        if hi is None or (v.ty is not None and hi > v.ty.hi):
            hi = v.ty.hi if v.ty is not None else None
        return lo, hi

    def convert(self, st, v, ty, node):
        if v is None or v.lin is None or ty is None:
            return v
        if v.ty is not None and v.ty.bits == ty.bits and v.ty.signed == ty.signed:
            return Val(v.lin, ty, v.mod, v.negconv, alo=v.alo, ahi=v.ahi)
        if ty.name == 'bool':
            v = self.need_exact(st, v, node, 'a conversion to bool')
            return Val(None, ty, cmp=('!=', v.lin, Lin(0)))
        src = v.ty
        if v.mod is None:
            if self.in_range(st, v.lin, ty):
                return Val(v.lin, ty)
            negconv = (not ty.signed) and src is not None and src.signed and not st.prove_ge0(v.lin)
            return Val(v.lin, ty, ty.bits, negconv)
        # a congruence modulo 2^k: the conversion reduces modulo 2^bits, so it survives modulo 2^min(k, bits)
        k = min(v.mod, ty.bits)
        alo, ahi = v.alo, v.ahi
        if alo is None or alo < ty.lo or ahi is None or ahi > ty.hi:
            alo, ahi = ty.lo, ty.hi
        r = Val(v.lin, ty, k, v.negconv, alo=alo, ahi=ahi)
        if ty.bits <= k and self.in_range(st, v.lin, ty) and not (v.negconv and False):
            return Val(v.lin, ty)
        return r

    # ---- expressions: returns list of (state, Val)
    def eval(self, e, st):
        if e is None:
            return [(st, Val(None, None))]
        k = e.get('k')
        c = e.get('c') or []
        ty = ty_of(e)
        if k == 'IntegerLiteral':
            return [(st, Val(Lin(int(e['v'])), ty))]
        if k == 'CXXBoolLiteralExpr':
            b = e.get('v') == 'true'
            return [(st, Val(None, ty, cmp=('==', Lin(0), Lin(0)) if b else ('==', Lin(0), Lin(1))))]
        if k == 'CharacterLiteral':
            return [(st, Val(Lin(int(e['v'])), ty))]
        if k == 'SubstNonTypeTemplateParmExpr':
            if e.get('n') in self.cfg.modulus_names:
                return [(st, Val(self.P(), ty))]
            return self.eval(c[0], st)
        if k == 'DeclRefExpr':
            if e.get('id') in st.env:
                return [(st, st.env[e['id']])]
            if e.get('n') in self.cfg.modulus_names:
                return [(st, Val(self.P(), ty))]
            if ty is not None:
                return [(st, Val(self.full_range_sym(st, ty, e.get('n') or 'g'), ty))]
            return [(st, Val(None, None))]
        if k in ir.MEMBER_KINDS:
            name = e.get('n')
            if name in self.cfg.modulus_names and ty is not None:
                return [(st, Val(self.P(), ty))]
            key = (ir.show(c[0]) if c else 'this', name)
            if key in st.fields:
                return [(st, st.fields[key])]
            if ty is not None:
                if name in self.cfg.reduced_fields:
                    v = Val(self.reduced_sym(st, name), ty)
                else:
                    v = Val(self.full_range_sym(st, ty, name or 'm'), ty)
                st.fields[key] = v
                return [(st, v)]
            return [(st, Val(None, None))]
        if k in ir.CAST_KINDS:
            ck = e.get('ck')
            out = []
            for st2, v in self.eval(c[0], st) if c else [(st, Val(None, None))]:
                if ck in ('IntegralCast', 'IntegralToBoolean', 'NoOp', 'LValueToRValue') or ty is not None:
                    if ty is not None and v.lin is not None:
                        v = self.convert(st2, v, ty, e)
                out.append((st2, v))
            return out
        if k == 'UnaryOperator':
            return self.unary(e, st)
        if k == 'CompoundAssignOperator':
            return self.compound(e, st)
        if k == 'BinaryOperator':
            return self.binary(e, st)
        if k == 'ConditionalOperator':
            out = []
            for st2, cv in self.eval(c[0], st):
                # assert(): `cond ? void(0) : __assert_fail(...)`
                tb, fb = self.split(st2, cv, c[0])
                if tb is not None:
                    out += self.eval(c[1], tb)
                if fb is not None:
                    if self.is_noreturn(c[2]):
                        continue
                    out += self.eval(c[2], fb)
            return out
        if k == 'CXXThrowExpr':
            st.dead = True
            return []
        if ir.is_call(e):
            return self.call(e, st)
        if k in ('CXXConstructExpr', 'CXXFunctionalCastExpr', 'InitListExpr') and len(c) == 1:
            return self.eval(c[0], st)
        # unknown expression: evaluate children for effects, unknown value
        cur = [st]
        for ch in c:
            nxt = []
            for s1 in cur:
                for s2, _ in self.eval(ch, s1):
                    nxt.append(s2)
            cur = nxt
        if ty is not None and ty.name != 'bool':
            return [(s1, Val(self.full_range_sym(s1, ty, 'x'), ty)) for s1 in cur]
        return [(s1, Val(None, ty)) for s1 in cur]

    def is_noreturn(self, e):
        for x in ir.walk(e):
            if x.get('k') == 'CXXThrowExpr':
                return True
            if ir.is_call(x) and (ir.call_name(x) or '').startswith('__assert'):
                return True
        return False

    def store(self, st, target, v, node):
        t = ir.skipcasts(target)
        if t is None:
            return
        if t.get('k') == 'DeclRefExpr':
            st.env[t['id']] = v
            # closure on writes through reference parameters of element type is checked by the caller (rules)
        elif t.get('k') in ir.MEMBER_KINDS:
            cc = t.get('c') or []
            st.fields[(ir.show(cc[0]) if cc else 'this', t.get('n'))] = v

    def unary(self, e, st):
        op = e.get('op')
        c = e.get('c') or []
        ty = ty_of(e)
        out = []
        if op in ('++', '--'):
            for st2, v in self.eval(c[0], st):
                if v.lin is None:
                    out.append((st2, v))
                    continue
                nv = self.arith(st2, '+' if op == '++' else '-', v, Val(Lin(1), v.ty), v.ty, e)
                self.store(st2, c[0], nv, e)
                out.append((st2, v if e.get('postfix') else nv))
            return out
        for st2, v in self.eval(c[0], st):
            if op == '-' and v.lin is not None and ty is not None:
                out.append((st2, self.finish(st2, -v.lin, ty, e, v.mod, v.negconv,
                                             (-(v.ahi), -(v.alo)) if v.mod is not None and v.alo is not None else None)))
            elif op == '+':
                out.append((st2, v))
            elif op == '!':
                if v.cmp is not None:
                    o, a, b = v.cmp
                    neg = {'<': '>=', '>=': '<', '>': '<=', '<=': '>', '==': '!=', '!=': '=='}[o]
                    out.append((st2, Val(None, ty, cmp=(neg, a, b))))
                elif v.lin is not None:
                    v = self.need_exact(st2, v, e, "operator '!'")
                    out.append((st2, Val(None, ty, cmp=('==', v.lin, Lin(0)))))
                else:
                    out.append((st2, Val(None, ty)))
            elif op == '~' and ty is not None:
                out.append((st2, Val(self.full_range_sym(st2, ty, 'n'), ty)))
            else:
                out.append((st2, Val(None, ty) if ty is None else Val(self.full_range_sym(st2, ty, 'u'), ty)))
        return out

    def finish(self, st, lin, ty, node, mod_in=None, negconv=False, arange=None):
        """result of a homomorphic operation of type ty with mathematical value lin; mod_in: the weakest congruence
        among the operands (None: all exact); arange: numeric interval of the machine result (needed for signed
        operations on congruent operands)"""
        if mod_in is True:
            mod_in = ty.bits
        elif mod_in is False:
            mod_in = None
        if ty.signed:
            if mod_in is None:
                if not self.in_range(st, lin, ty):
                    self.ob('soverflow', node, 'signed %s arithmetic may overflow (undefined behaviour): value %s'
                            % (ty, lin))
                    return Val(self.full_range_sym(st, ty, 'o'), ty)
                return Val(lin, ty)
            lo, hi = arange if arange else (None, None)
            if lo is None or hi is None or lo < ty.lo or hi > ty.hi:
                self.ob('soverflow', node, 'signed %s arithmetic on a wrapped operand may overflow (undefined '
                        'behaviour)' % ty)
                return Val(self.full_range_sym(st, ty, 'o'), ty)
            return Val(lin, ty, mod_in, negconv, alo=lo, ahi=hi)
        if mod_in is None and self.in_range(st, lin, ty):
            return Val(lin, ty)
        k = min(mod_in, ty.bits) if mod_in is not None else ty.bits
        if ty.bits <= k and self.in_range(st, lin, ty) and not negconv:
            return Val(lin, ty)       # a deliberate wrap that has been undone
        return Val(lin, ty, k, negconv)

    def bounds(self, st, lin):
        """numeric (lo, hi) of lin under st.cons, by bisection-free FM probing on a few candidates; None if unbounded"""
        # exact projection: introduce z = lin and eliminate everything else
        z = Lin.sym('$z')
        cons = st.cons + [z - lin, lin - z]
        syms = set()
        for cc in cons:
            syms |= set(cc.t)
        syms.discard('$z')
        cur = cons
        for s in sorted(syms, key=lambda s: sum(1 for cc in cur if s in cc.t)):
            pos = [cc for cc in cur if cc.t.get(s, 0) > 0]
            neg = [cc for cc in cur if cc.t.get(s, 0) < 0]
            rest = [cc for cc in cur if s not in cc.t]
            for p in pos:
                for n in neg:
                    r = p.scale(-n.t[s]) + n.scale(p.t[s])
                    r.t.pop(s, None)
                    rest.append(r)
            cur = _dedup(rest)
            if len(cur) > 3000:
                return None, None
        lo = hi = None
        for cc in cur:
            a = cc.t.get('$z', 0)
            if a > 0:
                b = -cc.c / a
                lo = b if lo is None or b > lo else lo
            elif a < 0:
                b = cc.c / -a
                hi = b if hi is None or b < hi else hi
        import math
        return (None if lo is None else math.ceil(lo)), (None if hi is None else math.floor(hi))

    def arith(self, st, op, a, b, ty, node):
        if a.lin is None or b.lin is None or ty is None:
            return Val(None, ty)
        mods = [m for m in (a.mod, b.mod) if m is not None]
        w = min(mods) if mods else None
        nc = a.negconv or b.negconv
        ar = None
        if w is not None and ty.signed and op in ('+', '-'):
            (al, ah), (bl, bh) = self.abounds(st, a), self.abounds(st, b)
            if None not in (al, ah, bl, bh):
                ar = (al + bl, ah + bh) if op == '+' else (al - bh, ah - bl)
        if op == '+':
            return self.finish(st, a.lin + b.lin, ty, node, w, nc, ar)
        if op == '-':
            return self.finish(st, a.lin - b.lin, ty, node, w, nc, ar)
        if op == '*':
            if a.lin.is_const():
                return self.finish(st, b.lin.scale(a.lin.c), ty, node, w, nc)
            if b.lin.is_const():
                return self.finish(st, a.lin.scale(b.lin.c), ty, node, w, nc)
            # (a mod 2^n)(b mod 2^n) == ab mod 2^n: congruence is kept; the product itself is bounded numerically
            alo, ahi = self.bounds(st, a.lin)
            blo, bhi = self.bounds(st, b.lin)
            if None in (alo, ahi, blo, bhi):
                raise AnalysisBroken('absint: unbounded factor in %s line %s' % (self.fn.get('qual'), node.get('l')))
            cands = [alo * blo, alo * bhi, ahi * blo, ahi * bhi]
            t = self.newsym('prod')
            st.assume(t - min(cands))
            st.assume(Lin(max(cands)) - t)
            return self.finish(st, t, ty, node, w, nc)
        if op in ('%', '/'):
            a = self.need_exact(st, a, node, "operator '%s'" % op)
            b = self.need_exact(st, b, node, "operator '%s'" % op)
            if not st.prove_ge0(b.lin - 1) and not st.prove_ge0(-b.lin - 1):
                self.ob('div0', node, "the divisor of '%s' is not provably non-zero" % op)
            r = self.newsym('rem' if op == '%' else 'quo')
            if op == '%':
                if st.prove_ge0(b.lin - 1):
                    if st.prove_ge0(a.lin):
                        st.assume(r)
                        st.assume(b.lin - r - 1)
                        st.assume(a.lin - r)
                    elif st.prove_ge0(-a.lin):
                        st.assume(-r)
                        st.assume(r + b.lin - 1)
                    else:
                        st.assume(r + b.lin - 1)
                        st.assume(b.lin - r - 1)
                else:
                    return Val(self.full_range_sym(st, ty, 'rem'), ty)
            else:
                if st.prove_ge0(a.lin) and st.prove_ge0(b.lin - 1):
                    st.assume(r)
                    st.assume(a.lin - r)
                else:
                    return Val(self.full_range_sym(st, ty, 'quo'), ty)
            return Val(r, ty)
        if op in ('>>', '&'):
            a = self.need_exact(st, a, node, "operator '%s'" % op)
            r = self.newsym('bits')
            if st.prove_ge0(a.lin):
                st.assume(r)
                st.assume(a.lin - r)
                return Val(r, ty)
            return Val(self.full_range_sym(st, ty, 'bits'), ty)
        if op in ('<<', '|', '^'):
            return Val(self.full_range_sym(st, ty, 'bits'), ty)
        return Val(self.full_range_sym(st, ty, 'x'), ty)

    def binary(self, e, st):
        op = e.get('op')
        c = e.get('c') or []
        ty = ty_of(e)
        if op == ',':
            out = []
            for st2, _ in self.eval(c[0], st):
                out += self.eval(c[1], st2)
            return out
        if op == '=':
            out = []
            for st2, v in self.eval(c[1], st):
                lt = ty_of(c[0])
                if lt is not None and v.lin is not None:
                    v = self.convert(st2, v, lt, e)
                self.store(st2, c[0], v, e)
                out.append((st2, v))
            return out
        if op in ('&&', '||'):
            out = []
            for st2, lv in self.eval(c[0], st):
                tb, fb = self.split(st2, lv, c[0])
                if op == '&&':
                    if fb is not None:
                        out.append((fb, Val(None, ty, cmp=('==', Lin(0), Lin(1)))))
                    if tb is not None:
                        out += self.eval(c[1], tb)
                else:
                    if tb is not None:
                        out.append((tb, Val(None, ty, cmp=('==', Lin(0), Lin(0)))))
                    if fb is not None:
                        out += self.eval(c[1], fb)
            return out
        out = []
        for st2, a in self.eval(c[0], st):
            for st3, b in self.eval(c[1], st2):
                if op in ('<', '<=', '>', '>=', '==', '!='):
                    if a.lin is None or b.lin is None:
                        out.append((st3, Val(None, ty)))
                        continue
                    a2 = self.need_exact(st3, a, e, "comparison '%s'" % op)
                    b2 = self.need_exact(st3, b, e, "comparison '%s'" % op)
                    out.append((st3, Val(None, ty, cmp=(op, a2.lin, b2.lin))))
                else:
                    out.append((st3, self.arith(st3, op, a, b, ty, e)))
        return out

    def compound(self, e, st):
        op = e.get('op')[:-1]
        c = e.get('c') or []
        lt = ty_of(c[0])
        ct = ty_named(e.get('compT')) or lt
        clt = ty_named(e.get('compLT')) or lt
        out = []
        for st2, b in self.eval(c[1], st):
            for st3, a in self.eval(c[0], st2):
                if a.lin is None or b.lin is None or lt is None:
                    out.append((st3, Val(None, lt)))
                    continue
                a2 = self.convert(st3, a, clt, e)
                b2 = self.convert(st3, b, ct, e) if b.ty is None or (b.ty.bits, b.ty.signed) != (ct.bits, ct.signed) else b
                r = self.arith(st3, op, a2, b2, ct, e)
                r = self.convert(st3, r, lt, e)
                self.store(st3, c[0], r, e)
                out.append((st3, r))
        return out

    def call(self, e, st):
        name = ir.call_name(e) or ''
        ty = ty_of(e)
        args = ir.call_args(e)
        # evaluate arguments left to right
        cur = [(st, [])]
        for a in args:
            nxt = []
            for s1, vs in cur:
                for s2, v in self.eval(a, s1):
                    nxt.append((s2, vs + [v]))
            cur = nxt
        out = []
        for s1, vs in cur:
            if name.startswith('__assert') or name in ('abort', 'terminate'):
                s1.dead = True
                continue
            contract = self.cfg.helpers.get(name)
            cal = e.get('callee') or ''
            if cal.startswith('std::numeric_limits<') and name in ('max', 'min') and ty is not None:
                tn = ty_named(cal[len('std::numeric_limits<'):cal.rindex('>')])
                if tn is not None:
                    out.append((s1, Val(Lin(tn.hi if name == 'max' else tn.lo), ty)))
                    continue
            if name != 'swap':
                # a call consumes the machine value of its integer arguments
                vs = [self.need_exact(s1, v, e, 'the call to %s' % (name or 'a function'))
                      if (v is not None and v.lin is not None and v.wrapped) else v for v in vs]
            if name == 'swap' and len(args) == 2:
                a0, a1 = ir.skipcasts(args[0]), ir.skipcasts(args[1])
                if a0 is not None and a1 is not None and a0.get('k') == a1.get('k') == 'DeclRefExpr':
                    s1.env[a0['id']], s1.env[a1['id']] = s1.env.get(a1['id']), s1.env.get(a0['id'])
                out.append((s1, Val(None, None)))
                continue
            if contract == 'reduced':
                for i, v in enumerate(vs):
                    if v.lin is None or v.ty is None:
                        continue
                    pn = None
                    if v.lin.t == {'p': 1} and v.lin.c == 0:
                        continue   # the modulus itself handed down
                    v2 = self.need_exact(s1, v, e, 'the call to %s' % name)
                    self.checked += 1
                    if not (s1.prove_ge0(v2.lin) and s1.prove_ge0(self.P() - v2.lin - 1)):
                        self.ob('precond', e, 'argument %d of %s is not provably a reduced element (0 <= x < modulus)'
                                % (i + 1, name))
                if ty is not None:
                    out.append((s1, Val(self.reduced_sym(s1, name.strip('_')), ty)))
                else:
                    out.append((s1, Val(None, None)))
                continue
            if contract == 'value':
                if ty is not None:
                    out.append((s1, Val(self.reduced_sym(s1, name.strip('_')), ty)))
                else:
                    out.append((s1, Val(None, None)))
                continue
            if ty is not None and ty.name != 'bool':
                out.append((s1, Val(self.full_range_sym(s1, ty, name.strip('_') or 'call'), ty)))
            else:
                out.append((s1, Val(None, ty)))
        return out


def analyse(fn, cfg, closure=True, closure_refs=()):
    """Run the interpreter on one function. Returns (obligations, questions decided, paths returned)."""
    it = Interp(fn, cfg)
    ends = it.run()
    rty = ty_named(fn.get('ret')) or None
    for st, v, node in it.returns:
        if v is None or v.lin is None:
            continue
        v2 = it.need_exact(st, v, node, 'the return statement')
        if closure:
            it.checked += 1
            if not (st.prove_ge0(v2.lin) and st.prove_ge0(it.P() - v2.lin - 1)):
                it.ob('closure', node, 'the returned value is not provably a reduced element (0 <= x < modulus): %s'
                      % v2.lin)
    # reference parameters that receive the result (the *_inplace_* variants)
    finals = [st for st, _, _ in it.returns] + list(ends)
    for p in fn.get('params', []):
        if p.get('n') in closure_refs:
            for st in finals:
                v = st.env.get(p['id'])
                if v is None or v.lin is None:
                    continue
                v2 = it.need_exact(st, v, p, 'the value stored through %s' % p.get('n'))
                it.checked += 1
                if not (st.prove_ge0(v2.lin) and st.prove_ge0(it.P() - v2.lin - 1)):
                    it.ob('closure', p, 'the value left in %s is not provably a reduced element' % p.get('n'))
    return it.obs, it.checked, len(it.returns) + len(ends)

"""Runs tools/gsa-extract over driver units (always from /repo's current tree) and indexes the records."""
import glob
import json
import os
import subprocess
import sys
import tempfile
import time
from concurrent.futures import ThreadPoolExecutor

VERIF = os.path.dirname(os.path.dirname(os.path.abspath(__file__)))
REPO = os.environ.get('GSA_REPO', '/repo')
EXTRACT = os.path.join(VERIF, 'build', 'gsa-extract')
RESOURCE = '/usr/lib/llvm-14/lib/clang/14.0.6/include'


class AnalysisBroken(Exception):
    """exit 2: the analysis could not be carried out (never a pass, never a violation)."""


def base_flags(extra=()):
    incs = sorted(glob.glob(os.path.join(REPO, 'src', '*', 'include')))
    flags = ['-std=gnu++17', '-UNDEBUG', '-w', '-ferror-limit=0']
    flags += ['-I' + i for i in incs]
    flags += ['-I' + os.path.join(REPO, 'ext', 'hera', 'include'), '-isystem', RESOURCE]
    flags += list(extra)
    return flags


def ensure_extractor():
    src = os.path.join(VERIF, 'tools', 'gsa-extract.cc')
    if os.path.exists(EXTRACT) and os.path.getmtime(EXTRACT) >= os.path.getmtime(src):
        return
    os.makedirs(os.path.dirname(EXTRACT), exist_ok=True)
    cxx = subprocess.check_output(['llvm-config-14', '--cxxflags'], text=True).split()
    cmd = ['clang++'] + cxx + ['-fno-rtti', '-O1', src, '-o', EXTRACT,
                              '/usr/lib/llvm-14/lib/libclang-cpp.so.14', '/usr/lib/llvm-14/lib/libLLVM-14.so']
    r = subprocess.run(cmd, capture_output=True, text=True)
    if r.returncode != 0:
        raise AnalysisBroken('cannot build gsa-extract: ' + r.stderr[-2000:])


class Unit:
    def __init__(self, name, driver, match, defines=(), no_inst=False, fn=()):
        self.name = name
        self.driver = driver  # path relative to /verif/drivers, or absolute
        self.match = list(match)
        self.defines = list(defines)
        self.no_inst = no_inst
        self.fn = list(fn)


def run_unit(u, outdir):
    drv = u.driver if os.path.isabs(u.driver) else os.path.join(VERIF, 'drivers', u.driver)
    out = os.path.join(outdir, u.name + '.json')
    cmd = [EXTRACT, '--out=' + out] + ['--match=' + os.path.join(REPO, m) if not os.path.isabs(m) else '--match=' + m
                                       for m in u.match]
    if u.no_inst:
        cmd.append('--no-inst')
    for f in u.fn:
        cmd.append('--fn=' + f)
    cmd += [drv, '--'] + base_flags(u.defines)
    t0 = time.time()
    r = subprocess.run(cmd, capture_output=True, text=True)
    if r.returncode != 0 or not os.path.exists(out):
        raise AnalysisBroken('unit %s failed to parse:\n%s' % (u.name, (r.stderr or r.stdout)[-3000:]))
    with open(out) as f:
        d = json.load(f)
    os.unlink(out)
    if d.get('errors'):
        raise AnalysisBroken('unit %s: %d compile errors\n%s' % (u.name, d['errors'], r.stderr[-3000:]))
    return u.name, d['records'], time.time() - t0


class Facts:
    def __init__(self):
        self.functions = []
        self.classes = []
        self.staticvars = []
        self.units = {}
        self.by_name = {}

    def add(self, unit, records):
        seen = set()
        nf = 0
        for r in records:
            r['unit'] = unit
            if r['rec'] == 'function':
                key = (r['qual'], r['file'], r['line'], r.get('targs'), r['inst'])
                if key in seen:
                    continue
                seen.add(key)
                self.functions.append(r)
                self.by_name.setdefault(r['name'], []).append(r)
                nf += 1
            elif r['rec'] == 'class':
                self.classes.append(r)
            elif r['rec'] == 'staticvar':
                self.staticvars.append(r)
        self.units[unit] = nf

    def funcs(self, name=None, cls=None, file=None, inst=None, unit=None):
        src = self.by_name.get(name, []) if name is not None else self.functions
        out = []
        for f in src:
            if cls is not None and f.get('clsname') != cls:
                continue
            if file is not None and not f['file'].endswith(file):
                continue
            if inst is not None and f['inst'] not in (inst if isinstance(inst, (tuple, list)) else (inst,)):
                continue
            if unit is not None and f['unit'] != unit:
                continue
            out.append(f)
        return out

    def cls(self, name, file=None, inst=None, unit=None):
        out = []
        for c in self.classes:
            if c['name'] != name:
                continue
            if file is not None and not c['file'].endswith(file):
                continue
            if inst is not None and c['inst'] not in (inst if isinstance(inst, (tuple, list)) else (inst,)):
                continue
            if unit is not None and c['unit'] != unit:
                continue
            out.append(c)
        return out


def extract(units, jobs=16):
    ensure_extractor()
    facts = Facts()
    timings = {}
    with tempfile.TemporaryDirectory(prefix='gsa-') as td:
        with ThreadPoolExecutor(max_workers=jobs) as ex:
            for name, recs, dt in ex.map(lambda u: run_unit(u, td), units):
                facts.add(name, recs)
                timings[name] = round(dt, 2)
    facts.timings = timings
    return facts


def rel(path):
    if path.startswith(REPO + '/'):
        return path[len(REPO) + 1:]
    return path

"""Obligation bookkeeping, known findings, evidence files and verdict lines."""
import json
import os
import sys
import time

from .facts import VERIF, AnalysisBroken, rel

KNOWN = os.path.join(VERIF, 'known_findings.json')


def load_known():
    if not os.path.exists(KNOWN):
        return []
    with open(KNOWN) as f:
        return json.load(f).get('findings', [])


class Check:
    def __init__(self, pid, tier, explanation, technique):
        self.pid = pid
        self.tier = tier
        self.t0 = time.time()
        self.obs = []          # all obligations
        self.explanation = explanation
        self.technique = technique
        self.assumptions = []
        self.analysed = {}     # free-form counters
        self.nontrivial = set()
        self.known = [k for k in load_known() if k['property'] == pid]
        self.exhaustive = False
        self.extra = {}

    def count(self, key, n=1):
        self.analysed[key] = self.analysed.get(key, 0) + n

    def ob(self, rule, instance, where, ok, detail='', key=None, nontrivial=True):
        """Record one obligation. key identifies the construct for known-findings (never a line number)."""
        o = {'rule': rule, 'instance': instance, 'where': where, 'ok': bool(ok), 'detail': detail,
             'key': key or (rule + '|' + instance)}
        self.obs.append(o)
        if nontrivial:
            self.nontrivial.add(o['key'])
        return ok

    def expect_count(self, rule, what, got, at_least):
        """Anchor check: a rule matching fewer instances than confirmed by hand is analysis-broken."""
        if got < at_least:
            raise AnalysisBroken('%s: rule %s matched %d %s, expected at least %d (anchor vanished or renamed; '
                                 'update tables/ after reading the code)' % (self.pid, rule, got, what, at_least))

    def finish(self):
        viol = [o for o in self.obs if not o['ok']]
        known_keys = {k['key']: k for k in self.known}
        unknown = []
        known_hit = []
        for o in viol:
            if o['key'] in known_keys:
                known_hit.append(o)
            else:
                unknown.append(o)
        wall = time.time() - self.t0
        samples = []
        for o in self.obs[:3] + self.obs[len(self.obs) // 2: len(self.obs) // 2 + 2] + viol[:5]:
            samples.append({'rule': o['rule'], 'instance': o['instance'], 'where': o['where'],
                            'status': 'ok' if o['ok'] else 'failed', 'detail': o['detail'][:300]})
        ev = {
            'property_id': self.pid,
            'tier': self.tier,
            'seed': int(os.environ.get('VERIF_SEED', '0') or 0),
            'level': 'other',
            'coverage': {
                'explanation': self.explanation,
                'technique': self.technique,
                'obligations': len(self.obs),
                'discharged': len(self.obs) - len(viol),
                'evaluations': len(self.obs),
                'distinct_nontrivial': len(self.nontrivial),
                'rule': 'one evaluation = one rule instance (obligation) decided on the current source; '
                        'distinct_nontrivial = distinct construct keys (rule, function, construct) among them',
                'samples': samples,
                'analysed': self.analysed,
                'exhaustive': self.exhaustive,
                'known_findings_reported': len(known_hit),
                'by_rule': {},
            },
            'assumptions': self.assumptions,
            'wall_s': round(wall, 2),
            'violations': len(unknown),
        }
        for o in self.obs:
            b = ev['coverage']['by_rule'].setdefault(o['rule'], {'obligations': 0, 'failed': 0})
            b['obligations'] += 1
            if not o['ok']:
                b['failed'] += 1
        ev['coverage'].update(self.extra)
        if not os.environ.get('GSA_NO_EVIDENCE'):
            os.makedirs(os.path.join(VERIF, 'evidence'), exist_ok=True)
            with open(os.path.join(VERIF, 'evidence', self.pid + '.json'), 'w') as f:
                json.dump(ev, f, indent=1)
                f.write('\n')
        print('%s [%s]: %d obligations, %d discharged, %d known findings, %d violations (%.1fs)' % (
            self.pid, self.tier, len(self.obs), len(self.obs) - len(viol), len(known_hit), len(unknown), wall))
        for r, b in sorted(ev['coverage']['by_rule'].items()):
            print('   rule %-28s obligations=%-4d failed=%d' % (r, b['obligations'], b['failed']))
        for k, v in sorted(self.analysed.items()):
            print('   analysed %-24s %s' % (k, v))
        seenk = set()
        for o in known_hit:
            if o['key'] in seenk:
                continue
            seenk.add(o['key'])
            print('KNOWN-FINDING: property=%s %s [%s at %s]' % (self.pid, known_keys[o['key']]['what'], o['rule'],
                                                              o['where']))
        if unknown:
            rdir = os.environ.get('GSA_REPLAY_DIR') or os.path.join(VERIF, 'replay')
            os.makedirs(rdir, exist_ok=True)
            for i, o in enumerate(unknown):
                path = os.path.join(rdir, '%s.%d.json' % (self.pid, i))
                with open(path, 'w') as f:
                    json.dump({'property': self.pid, 'tier': self.tier, **o}, f, indent=1)
                print('   %s: %s: %s -- %s [key %s]' % (o['where'], o['rule'], o['instance'], o['detail'], o['key']))
                print('VIOLATION property=%s replay=%s' % (self.pid, path))
            return 1
        return 0

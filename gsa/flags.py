"""Flag idiom (DESIGN 3/E2 ii): local bool variables that accumulate "the effect happened".

  bool modified = false;  ...  modified = true; / modified |= helper(...);  ...  if (modified) B();  return modified;

walk(path) replays the ordered trace of a path (events and branch decisions), keeps a three-valued environment for
local bool variables, rejects paths that contradict it, and cancels trigger events that are conditional on a flag
which the path later finds false."""
from . import ir

SET = '$set'


def _is_local_bool_ref(n):
    n = ir.skipcasts(n)
    return (n is not None and n.get('k') == 'DeclRefExpr' and n.get('dk') in ('Var', 'ParmVar')
            and n.get('t', '').replace('const ', '') in ('bool', 'bool &'))


def with_flags(classify):
    """wrap a classifier so that assignments to local bool variables appear in the trace"""
    def cl(x):
        ev = list(classify(x))
        k = x.get('k')
        if k == 'VarDecl' and x.get('t') == 'bool' and x.get('init') is not None:
            ev.append(SET)
        elif k in ('BinaryOperator', 'CompoundAssignOperator') and x.get('op') in ('=', '|=', '&=') and \
                _is_local_bool_ref((x.get('c') or [None])[0]):
            ev.append(SET)
        return ev
    return cl


def _lit(n):
    n = ir.skipcasts(n)
    if n is not None and n.get('k') == 'CXXBoolLiteralExpr':
        return 'T' if n.get('v') == 'true' else 'F'
    return None


def _cond_var(c):
    """cond `V` or `!V` on a local bool -> (name, negated)"""
    neg = False
    c = ir.skipcasts(c)
    while c is not None and c.get('k') == 'UnaryOperator' and c.get('op') == '!':
        neg = not neg
        c = ir.skipcasts((c.get('c') or [None])[0])
    if _is_local_bool_ref(c):
        return c.get('n'), neg
    return None, False


def walk(path, trigger_tags, conditional_calls=()):
    """Returns (feasible, surviving trigger events, env at end).
    conditional_calls: names of helper calls whose trigger is conditional on the bool they return."""
    env = {}
    pending = []   # [event, condvar or None]
    for tag, node in path.events:
        if tag == '?':
            c, pol, _ = node
            if isinstance(c, tuple):
                continue
            v, neg = _cond_var(c)
            if v is None:
                continue
            val = pol != neg     # value the path assumes for v
            cur = env.get(v, 'U')
            if cur == 'T' and not val or cur == 'F' and val:
                return False, [], env
            env[v] = 'T' if val else 'F'
            if not val:
                pending = [p for p in pending if p[1] != v]
            continue
        if tag == SET:
            if node.get('k') == 'VarDecl':
                name, rhs, op = node.get('n'), node.get('init'), '='
            else:
                c = node.get('c') or []
                name, rhs, op = ir.skipcasts(c[0]).get('n'), c[1], node.get('op')
            lit = _lit(rhs)
            # helper calls in the rhs: their trigger becomes conditional on this variable
            for p in pending:
                if p[1] is None and p[2] and ir.contains(rhs, lambda y, n=p[0][1]: y is n):
                    p[1] = name
            if op == '=':
                for p in pending:
                    if p[1] == name and not ir.contains(rhs, lambda y, n=p[0][1]: y is n):
                        p[1] = '<lost>'
                env[name] = lit or 'U'
            elif op == '|=':
                env[name] = 'T' if (env.get(name) == 'T' or lit == 'T') else ('F' if env.get(name) == 'F' and lit == 'F' else 'U')
            elif op == '&=':
                env[name] = 'F' if (env.get(name) == 'F' or lit == 'F') else 'U'
            continue
        if tag in trigger_tags:
            cond_ok = ir.is_call(node) and ir.call_name(node) in conditional_calls
            pending.append([(tag, node), None, cond_ok])
    return True, [p[0] for p in pending], env


def return_value(path, env):
    """abstract value of the returned expression: 'T' / 'F' / 'U'"""
    if path.end != 'return' or path.value is None:
        return 'U'
    lit = _lit(path.value)
    if lit:
        return lit
    v = ir.skipcasts(path.value)
    if _is_local_bool_ref(v):
        return env.get(v.get('n'), 'U')
    return 'U'

"""Comparator rules shared by C03 / C12 / C13 (E9 cascade by predicate enumeration, E6b purity, E7b sort arms)."""
import itertools
import re

from . import ir, predeval
from .facts import AnalysisBroken, rel


def inline_locals(body):
    """single-assignment locals of a comparator: name -> initialiser (as IR node)"""
    loc = {}
    for x in ir.walk(body):
        if x.get('k') == 'VarDecl' and x.get('init') is not None:
            loc[x.get('n')] = x['init']
    return loc


def comparator_params(fn):
    ps = fn.get('params', [])
    if len(ps) != 2:
        raise AnalysisBroken('comparator %s does not take two parameters' % fn.get('qual'))
    return ps[0]['n'], ps[1]['n']


class Cascade:
    """evaluates a comparator on valuations of its comparison keys, locals inlined textually"""

    def __init__(self, fn, body=None, params=None):
        self.fn = fn
        self.body = body if body is not None else fn['body']
        self.a, self.b = params or comparator_params(fn)
        self.loc = {}
        for n, init in inline_locals(self.body).items():
            self.loc[n] = ir.show(init)

    def text(self, e):
        t = ir.show(e)
        for _ in range(4):
            changed = False
            for n, it in self.loc.items():
                t2 = re.sub(r'(?<![\w.>])%s\b' % re.escape(n), '(' + it + ')', t)
                if t2 != t:
                    t, changed = t2, True
            if not changed:
                break
        return t

    def key_of(self, e):
        e = ir.skipcasts(e)
        if e is None:
            return None
        if e.get('k') in ('BinaryOperator', 'CXXOperatorCallExpr') and e.get('op') in predeval.CMP_OPS:
            c = e.get('c') or []
            if e['k'] == 'CXXOperatorCallExpr':
                c = c[1:]
            if len(c) != 2:
                return None
            l = predeval._subst(self.text(c[0]), self.a, self.b)
            r = predeval._subst(self.text(c[1]), self.a, self.b)
            if '\x01' in l and '\x02' not in l and r == l.replace('\x01', '\x02'):
                return _norm(l.replace('\x01', '@')), e['op'], False
            if '\x02' in l and '\x01' not in l and r == l.replace('\x02', '\x01'):
                return _norm(l.replace('\x02', '@')), e['op'], True
            return None
        return predeval.call_key(e, self.a, self.b)

    def unary_of(self, e):
        """a test of one element's key against something that depends on neither element (`fil1 == infinity()`):
        (key text with '@', operator, other side text, 'a' | 'b') - an opaque predicate of that element's key"""
        e = ir.skipcasts(e)
        if e is None or e.get('k') not in ('BinaryOperator', 'CXXOperatorCallExpr') or \
                e.get('op') not in predeval.CMP_OPS:
            return None
        c = e.get('c') or []
        if e['k'] == 'CXXOperatorCallExpr':
            c = c[1:]
        if len(c) != 2:
            return None
        l = predeval._subst(self.text(c[0]), self.a, self.b)
        r = predeval._subst(self.text(c[1]), self.a, self.b)
        for x, y, op in ((l, r, e['op']), (r, l, {'<': '>', '>': '<', '<=': '>=', '>=': '<='}.get(e['op'], e['op']))):
            if '\x01' not in y and '\x02' not in y:
                if '\x01' in x and '\x02' not in x:
                    return _norm(x.replace('\x01', '@')), op, _norm(y), 'a'
                if '\x02' in x and '\x01' not in x:
                    return _norm(x.replace('\x02', '@')), op, _norm(y), 'b'
        return None

    def unaries(self):
        out = []
        for x in ir.walk(self.body, into_lambdas=False):
            if x.get('k') == 'VarDecl':
                continue
            u = self.unary_of(x)
            if u and u[:3] not in out:
                out.append(u[:3])
        return out

    def keys(self):
        out = []
        for x in ir.walk(self.body, into_lambdas=False):
            if x.get('k') == 'VarDecl':
                continue
            k = self.key_of(x)
            if k and k[0] not in out:
                out.append(k[0])
        return out

    def run(self, valuation, unary=None):
        def oracle(e, env):
            if e.get('k') == 'VarDecl':
                return ('local', e.get('n'))
            k = self.key_of(e)
            if k is None:
                u = self.unary_of(e)
                if u is not None and unary is not None:
                    return unary[(u[:3], u[3])]
                return None
            key, op, sw = k
            if key not in valuation:
                raise predeval.Unknown('comparison on unexpected key %s' % key)
            return predeval.rel_truth(valuation[key], op, sw)
        return predeval.Evaluator(oracle).run(self.body)


def _norm(t):
    while t.startswith('(') and t.endswith(')') and _balanced(t[1:-1]):
        t = t[1:-1]
    return t


def _balanced(t):
    d = 0
    for ch in t:
        if ch == '(':
            d += 1
        elif ch == ')':
            d -= 1
            if d < 0:
                return False
    return d == 0


def check_cascade(chk, rule, fn, expected_keys, identity_key, descending=(), body=None, params=None, name=None):
    """The comparator must equal the lexicographic order on expected_keys (first differing key decides with `<`,
    or `>` for keys in `descending`), be false on full ties, and its last key must be the element's identity
    (identity_key) - then it is a strict total order and any sort, stable or not, parallel or not, returns the
    same sequence. Enumerates all 3^n key valuations."""
    cas = Cascade(fn, body, params)
    name = name or fn.get('qual')
    where = '%s:%d' % (rel(fn['file']), fn['line'])
    keys = cas.keys()
    missing = [k for k in expected_keys if k not in keys]
    extra = [k for k in keys if k not in expected_keys]
    ok_keys = not missing and not extra
    chk.ob(rule, '%s compares exactly the keys %s' % (name, expected_keys), where, ok_keys,
           '' if ok_keys else 'keys found in the comparator: %s (missing %s, unexpected %s)' % (keys, missing, extra),
           key='%s|%s|keys' % (rule, name))
    if identity_key is not None:
        tot = bool(keys) and identity_key in keys
        chk.ob(rule, '%s is total: decides by the identity key %s when all other keys tie' % (name, identity_key),
               where, tot, '' if tot else 'no comparison on %s is left: elements that tie on %s are equivalent, so '
               'an unstable or parallel sort may order them differently from run to run' % (identity_key, keys),
               key='%s|%s|total' % (rule, name))
    if not ok_keys:
        return
    bad = None
    n = 0
    # tests of one element's key against a constant (`value == +inf`) are opaque predicates of that key: explored
    # both ways for each element, with the same truth for both when the valuation says the keys are equal
    uns = cas.unaries()
    for u in uns:
        if u[0] not in expected_keys:
            raise AnalysisBroken('%s: test on an unexpected key: %s %s %s' % (name, u[0], u[1], u[2]))
    if len(uns) > 3:
        raise AnalysisBroken('%s: too many constant tests in the comparator' % name)
    for rels in itertools.product(('lt', 'eq', 'gt'), repeat=len(expected_keys)):
        val = dict(zip(expected_keys, rels))
        for bits in itertools.product((False, True), repeat=2 * len(uns)):
            un = {}
            okc = True
            for i, u in enumerate(uns):
                un[(u, 'a')], un[(u, 'b')] = bits[2 * i], bits[2 * i + 1]
                if val[u[0]] == 'eq' and bits[2 * i] != bits[2 * i + 1]:
                    okc = False
            if not okc:
                continue
            n += 1
            try:
                got = cas.run(val, un)
            except predeval.Unknown as e:
                raise AnalysisBroken('%s: comparator of unknown shape: %s' % (name, e))
            exp = False
            for k in expected_keys:
                if val[k] != 'eq':
                    exp = (val[k] == 'lt') != (k in descending)
                    break
            if got is not exp and bad is None:
                bad = (dict(val, **{'%s %s %s [%s]' % (u[0], u[1], u[2], w): t for (u, w), t in un.items()}), got, exp)
    chk.count('comparator valuations enumerated', n)
    chk.ob(rule, '%s equals the lexicographic strict order on %s (all %d valuations)' % (name, expected_keys, n),
           where, bad is None, '' if bad is None else 'for key relations %s it returns %s, the order requires %s'
           % bad, key='%s|%s|order' % (rule, name))


def check_pure(chk, rule, fn, name=None, allowed_roots=()):
    """E6b: a comparator may write only its own locals"""
    name = name or fn.get('qual')
    localids = set()
    for x in ir.walk(fn.get('body')):
        if x.get('k') == 'VarDecl':
            localids.add(x.get('id'))
    bad = None
    for x in ir.walk(fn.get('body')):
        t = ir.write_target(x)
        if t is None:
            continue
        r = ir.access_root(t)
        if r and r[0] == 'var' and r[1] in localids:
            continue
        bad = x
        break
    chk.ob(rule, '%s writes no non-local memory' % name, '%s:%d' % (rel(fn['file']), fn['line']), bad is None,
           '' if bad is None else 'line %s writes %s: a comparator with side effects is not safe under a parallel '
           'sort' % (bad.get('l'), ir.show(ir.write_target(bad))), key='%s|%s|pure' % (rule, name))


SORTS = ('sort', 'stable_sort', 'parallel_sort')


def sort_calls(fn):
    out = []
    for x in ir.walk(fn.get('body')):
        if ir.is_call(x) and ir.call_name(x) in SORTS:
            out.append(x)
    return out


def check_whole_range(chk, rule, sort_call, where, key, name):
    """The sort covers the whole container: its range is C.begin() .. C.end() of one container C (a sort over a
    sub-range leaves the remaining elements in insertion order, which is not the filtration order)."""
    import re
    args = [ir.show(a).replace(' ', '') for a in ir.call_args(sort_call)]
    ok = False
    detail = 'range arguments: %s' % args[:2]
    if len(args) >= 2:
        m1 = re.match(r'^(?:std::)?(?:begin\((.+)\)|(.+)\.begin\(\))$', args[0])
        m2 = re.match(r'^(?:std::)?(?:end\((.+)\)|(.+)\.end\(\))$', args[1])
        if m1 and m2:
            c1 = m1.group(1) or m1.group(2)
            c2 = m2.group(1) or m2.group(2)
            ok = c1 == c2
            if ok:
                detail = ''
    chk.ob(rule, '%s sorts the whole container' % name, where, ok, detail, key=key)
    return ok


def norm_range_arg(t):
    """std::begin(X) / std::end(X) / X.cbegin() ... -> X.begin() / X.end() (textual forms of the same iterator)"""
    import re
    t = t.replace(' ', '')
    m = re.match(r'^(?:std::)?c?(begin|end)\((.+)\)$', t)
    if m:
        return '%s.%s()' % (m.group(2), m.group(1))
    return re.sub(r'\.c(begin|end)\(\)$', r'.\1()', t)

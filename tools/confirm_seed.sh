#!/bin/bash
# usage: confirm_seed.sh <worktree> <seed dir with patch.diff demo.cpp> <ctest regex> [extra demo flags]
# Confirms: demo PASSes on pristine, FAILs with the patch; the module tests matching the regex pass with the patch.
WT=$1; SD=$2; RX=$3; shift 3; EXTRA="$@"
INC=$(ls -d $WT/src/*/include | sed 's/^/-I/' | tr '\n' ' ')
git -C $WT checkout -q -- . || exit 9
build_demo() { g++ -std=gnu++17 -O1 $INC -I$WT/ext/hera/include $EXTRA $SD/demo.cpp -o /tmp/seed/demo.$$ -ltbb -lgmp -lgmpxx 2>/tmp/seed/demo.$$.log; }
build_demo || { echo "DEMO-BUILD-FAILED pristine"; tail -5 /tmp/seed/demo.$$.log; exit 3; }
/tmp/seed/demo.$$ > /tmp/seed/demo.$$.out 2>&1; P=$?
echo "pristine demo exit=$P: $(tail -1 /tmp/seed/demo.$$.out)"
git -C $WT apply $SD/patch.diff || { echo "PATCH-DOES-NOT-APPLY"; exit 4; }
build_demo || { echo "DEMO-BUILD-FAILED patched"; git -C $WT checkout -q -- .; exit 3; }
/tmp/seed/demo.$$ > /tmp/seed/demo.$$.out 2>&1; Q=$?
echo "patched demo exit=$Q: $(tail -1 /tmp/seed/demo.$$.out)"
if [ -d $WT/_b ]; then
  TG=$(ctest --test-dir $WT/_b -N -R "$RX" 2>/dev/null | grep -c "Test *#")
  # build all registered test executables matching the regex (targets carry the test names)
  T=$(ninja -C $WT/_b -t targets all 2>/dev/null | grep -E "^($RX)[A-Za-z0-9_]*: (phony|CXX_EXECUTABLE_LINKER)" | cut -d: -f1 | sort -u | tr '\n' ' ')
  ninja -C $WT/_b -j8 $T > /tmp/seed/build.$$.log 2>&1 || { echo "TEST-BUILD-FAILED"; tail -5 /tmp/seed/build.$$.log; }
  ctest --test-dir $WT/_b -R "$RX" -j8 2>&1 | tail -4
fi
git -C $WT checkout -q -- .
rm -f /tmp/seed/demo.$$ /tmp/seed/demo.$$.* /tmp/seed/build.$$.log
[ $P -eq 0 ] && [ $Q -ne 0 ] && echo "CONFIRMED-DEMO" || echo "NOT-CONFIRMED"

#!/usr/bin/env python3
"""Regenerates MANIFEST.json from the per-property claims below (kept next to the code so they stay in sync)."""
import json
import os

VERIF = os.path.dirname(os.path.dirname(os.path.abspath(__file__)))

CLAIMS = {
 "C15": dict(
   text="Static decision, on every run from /repo's current headers, of structural necessary clauses of the property: every hand-written copy/move constructor, copy/move assignment and friend swap of Simplex_tree and of all Persistence_matrix classes takes every non-empty data member and base sub-object from its source (member coverage, delegates followed; caches must be dropped by assignments), move constructor and move assignment reset the same source fields; no function with a non-void return type (858 functions of the two families, and Matrix::insert_boundary on an instantiated option grid) flows off its end on any path; every function that creates simplex-tree nodes and maintains dimension_ itself considers the dimension bound on every creating path (deserialisation included); every read of the deserialisation buffer must be dominated by a length test (it is not: known finding); every variable of static storage duration reachable from the two families is const, thread_local, empty or on a documented allow-list (independent objects on different threads); a copy never keeps or hands on the source's settings pointer. It does not decide observational equality of round trips or the absence of all undefined behaviour.",
   note="Trusted: clang 14 parser/Sema, the extractor, tables/c15.json (named symbol + reason). Analysed on template patterns, so all if-constexpr arms are covered. The unbounded deserialisation reads are listed in known_findings.json with their ASan replay.",
   tech="static analysis: custom clang AST member-coverage, path, inventory and information-flow rules (E1/E1b/E1c/E5/E6a/E10/R3b)", ref="DESIGN.md 4/C15"),
 "C01": dict(
   text="Static decision of representation-invariant clauses of the simplex tree that the read interfaces depend on: (R1) every creation of nodes is followed on every path by registration in the label lists, (R2) every path that destroys nodes or a Siblings updates dimension_/dimension_to_be_lowered_ (flag and remove_if-predicate idioms understood, helper obligations moved to callers), (R3) every user-callable creating function can raise dimension_ and (R3b) every creating path of a function that maintains dimension_ itself considers the bound, (R4) leaf convention on delete/new Siblings, (R5) no descent through children() of a node whose has_children() was not established on the path, (R6) a per-label intrusive node list is only destroyed under an emptiness test, (R7) rec_equal, evaluated on all 8 valuations of (left has children, right has children, children equal), continues iff both sides agree, (R8) the three-state result of an inserting call (created / existing and lowered / existing and unchanged, derived from insert_node_ on all valuations) gates the propagation of the filtration value to further faces soundly: it runs in every state in which something changed. Necessary conditions only; the content of the tree is not decided.",
   note="Trusted: clang 14 parser/Sema, class-local call resolution by name, tables/c01.json (exempt sites, one reason each). Throwing paths carry no obligation.",
   tech="static analysis: structured path rules with class-local may/must effect summaries (E2/E2g), guard-dominance rules, finite predicate enumeration of rec_equal", ref="DESIGN.md 4/C01"),
 "C10": dict(
   text="Static decision of arithmetic-safety and refusal clauses of the coefficient-field classes: a symbolic range interpreter (linear forms over the modulus and the operands, exact Fourier-Motzkin, Houdini loop invariants) proves for every modulus in the stated range and all reduced operands that no intermediate of _add/_subtract/_multiply, the fused operations and get_value/_get_value (element types unsigned int, unsigned short, unsigned long; int, long, short and unsigned arguments) wraps harmfully, overflows or converts a possibly negative value to unsigned before % or a comparison, and that every result is again in [0, modulus); run-time setters refuse 0, 1 and composites and do not depend on the previous state; the compile-time primality test is decided by compile-fail witnesses and its sibling copies must agree. All seven partial-inverse implementations take the gcd of the element with the sub-product parameter, compare the gcd with it to decide 'invertible nowhere' and divide it by the gcd (a gcd with the whole product makes the quotient inexact). Extended-Euclid inverses, the inverse-table loop bounds and GMP multi-field values are not decided.",
   note="Trusted: clang 14 Sema (implicit conversions as in the AST), contracts in tables/c10.json (each helper contract is verified on the helper itself), operands reduced as the property states. Documented overflow-unsafe fused operations are listed in known_findings.json.",
   tech="abstract interpretation (linear forms + Fourier-Motzkin) over the clang AST, path rules, compile-fail witnesses", ref="DESIGN.md 4/C10"),
 "C03": dict(
   text="Static decision of structural clauses behind 'the filtration order is valid and deterministic': the simplex-tree comparator is evaluated on every valuation of its comparison keys and must equal the lexicographic strict order (filtration value, reverse-lexicographic vertex word); reverse_lexicographic_order is evaluated on every lockstep scenario; hence the order is strict and total and any sort, sequential or parallel, stable or not, yields one sequence; the TBB and the sequential build sort the same range with that comparator; comparator and helper write nothing; every self-invalidating mutator (and copy/move assignment) drops the filtration cache on every path on which it modified the tree; for_each_simplex runs the callback on a node before its children and visits siblings backwards (what make_filtration_non_decreasing relies on); the lazy initialiser recomputes the cache exactly when it is empty (the cache protocol: a cache built with an ignorer or a custom order is legitimately different from the default one); unify_lifetimes / intersect_lifetimes, evaluated on the three relations of their arguments, overwrite the first argument and report a modification exactly when it changes, and make_filtration_non_decreasing returns their accumulated answer. The values computed by extend_filtration / prune are not decided.",
   note="Trusted: clang 14 parser, trichotomy of filtration values (no NaN, as the property states), tables/c03.json (the documented self-invalidating mutators). Both preprocessor configurations (GUDHI_USE_TBB on/off) are parsed on every run.",
   tech="finite predicate enumeration over comparator ASTs, sibling-arm agreement, purity, path rules with flag idiom", ref="DESIGN.md 4/C03"),
 "C13": dict(
   text="Static decision of the filtration-order clause of cubical complexes: is_before_in_filtration equals, on all 27 valuations of its keys, the lexicographic strict order (value, dimension, cell index): non-decreasing, faces first among equal values, total; both GUDHI_USE_TBB configurations sort the same range with it; it is pure. Boundary enumeration 'with signs alternating': in get_boundary_of_a_cell (plain and periodic) every direction in which the cell is thick contributes exactly two faces and advances the alternation counter exactly once on every path, thin directions contribute nothing, and the two parity arms push the same two faces in opposite order. Lower-star / upper-star propagation starts every non-input cell from the neutral element (+inf for min, -inf for max) in both classes. Coboundary incidences, dd=0 as a value identity and periodic index arithmetic are not decided (value-level).",
   note="Trusted: clang 14 parser, trichotomy of the cell values. The order clause, the alternation shape and the initial values of C13 are claimed.",
   tech="finite predicate enumeration over the comparator AST, sibling-arm agreement, purity, counting path rule, sibling-class agreement", ref="DESIGN.md 4/C13"),
 "C16": dict(
   text="Static decision of one information-flow clause of the toplex maps: in every loop over maximal simplices that erases the current toplex and re-inserts simplices in the same iteration (remove_simplex, remove_vertex, contraction, unitary_collapse, eager and lazy), each re-inserted simplex is data-dependent on the erased toplex (def-use closure over the loop body) - the faces that survive a removal are a function of the destroyed toplex; insert_independent_simplex (which stores its argument without looking for stored faces or cofaces) receives inside such a loop only a simplex obtained from the erased toplex by removing vertices; every path of remove_simplex that erases a stored simplex does so inside the loop over all simplices stored at the pivot vertex (all cofaces go). Membership answers for all histories, the maximality/no-duplicate invariant and eager/lazy agreement are not decided.",
   note="Trusted: clang 14 parser; dependence is syntactic def-use (an over-approximation of data dependence).",
   tech="def-use / information-flow rules and a loop-domination path rule over the clang AST (E10, E2)", ref="DESIGN.md 4/C16"),
 "C12": dict(
   text="Static decision of structural clauses of the flag-complex edge collapser: under GUDHI_COLLAPSE_USE_DENSE_ARRAY every writer of the sparse neighbour table writes the dense table with the same symmetric key pairs and values, and both configurations perform the same sparse writes; the dense and sparse arms of the domination tests compare against the same bound with the same strictness; an emitted edge carries the endpoints of the current input edge and exactly the new time written to the neighbour table; a removed edge is not emitted; a position found by lower_bound in a sparse neighbour list is compared with end and with the key before it is used; the edge sort is the strict descending order on the value in the TBB and the sequential build. That the collapsed graph has the same persistence (the domination argument) is not decided.",
   note="Trusted: clang 14 parser; three preprocessor configurations are parsed on every run; key expressions are compared textually inside one function.",
   tech="dual-table / sibling-arm agreement, provenance, comparator enumeration over the clang AST", ref="DESIGN.md 4/C12"),
 "C04": dict(
   text="Static decision of the reporting clause of incremental flag insertion ('each incremental insertion reports exactly the simplices it created'): in insert_edge_as_flag and every function that receives its output vector, every creation of nodes is followed on every path by the push of those nodes into the output before the next creation or the exit, nothing is pushed that was not created on that path, and a creation that turns out not to have happened (`ins.second` false) must not have been reported. The Rips builders hand the graph a vertex count that is a counter started at 0 and incremented exactly once on every path through a loop over all points that is never left early; insert_graph takes every vertex value from the graph's vertex property and every edge value from its edge property (both reads flow into the creation of the nodes). Equality of the complexes built by the three expansion routes and blocker maximality are not decided.",
   note="Trusted: clang 14 parser, class-local call resolution by name, the for-all loop idiom. Shares the creation events of C01.",
   tech="structured path rules with pairing/counting (E2n) and an information-flow rule (E10) over the clang AST", ref="DESIGN.md 4/C04"),
 "C14": dict(
   text="Static decision of structural clauses of the specialised routines. 2-D: the pre-pairing fill_and_pair is evaluated on every valuation of its neighbour predicates (256 interior + 4 x 32 border leaves, exhaustive for the abstraction) and must pair or mark critical each cell owned by the current square exactly once and touch no cell another square owns - a necessary condition for a correct Morse pre-pairing; the four provisional corner writes must address distinct vertices under the precondition the entry point states (n >= 2: they do not, recorded as a known finding); in the union-find passes, on every valuation of the guard, the exterior cell never receives a parent and the younger cluster dies. 1-D: filtration values are ordered only through the user's comparator and its derived le/ge/gt are correct. The goto state machine of the 1-D routine (a whole-stack invariant) and the pairs produced by the primal/dual passes are not decided.",
   note="Trusted: clang 14 parser; the ownership convention (a cell belongs to the smallest square containing it; border squares keep only their inner edge and its two vertices); independence of the neighbour predicates. Guards the evaluator cannot interpret are explored both ways.",
   tech="finite predicate enumeration over the clang AST (exhaustive), linear-form reasoning (Fourier-Motzkin), comparator discipline", ref="DESIGN.md 4/C14"),
 "C06": dict(
   text="Static decision of the truthful-return clause of vineyard swaps as a typestate/counting rule over every path of the case analysis, for RU_vine_swap and Chain_vine_swap (vine_swap, vine_swap_with_z_eq_1_case and the four sign handlers each): the two cells are exchanged exactly once; the returned value says 'bars exchanged' iff exactly one bar transposition ran and 'bars kept' iff none ran; the transposition or handler applied is the one of the sign case established by the guards on the path (guards evaluated on the four sign valuations); each RU transposition rewrites birth/death/indexToBar_ of the two positions according to its sign case and moves the position-map entries of both columns; in the whole chain family column indices, cell identifiers and filtration positions (the library's own typedefs Index / ID_index / Pos_index) never meet in an assignment, comparison, subscript, argument or return except at the four documented conflations. Equivalence with a freshly built matrix, and Chain_matrix::remove_last after swaps, are not decided.",
   note="Trusted: clang 14 parser; template patterns with contradictory if-constexpr arms pruned; the *_transpose functions are the only code exchanging bars; tables/c06.json lists the kind conflations with reasons.",
   tech="typestate / counting path rule (E2n), guard evaluation and an index-kind (units-of-measure) analysis over the clang AST", ref="DESIGN.md 4/C06"),
 "C07": dict(
   text="Static decision of one bookkeeping clause of zigzag persistence: on every path of the forward arrow, the surjective reflection diamond and the backward arrow, every creation of a key in births_ is paired with exactly one registration of the same birth in the birth ordering, every erasure with exactly one remove_birth, and every streamed finite interval with the removal of exactly the birth it reports; the diamond orders the available births through the ordering. A birth that is unregistered or stale mis-pairs later diamonds. The filtered front-ends advance the arrow counter exactly once on every path of insert_cell / remove_cell and key nothing with it before; every path of the surjective diamond that accumulated chains moves its accumulation frontier to the chain it accumulated into. The interval decomposition itself is not decided.",
   note="Trusted: clang 14 parser; births_[k] = v creates a key while births_.at(k) = v updates one.",
   tech="counting / pairing path rule (E2n) over the clang AST", ref="DESIGN.md 4/C07"),
 "C09": dict(
   text="Static decision of structural clauses of the column and base-matrix classes behind 'a general matrix behaves as a dense matrix': the coefficient of multiply_source_and_add reaches every entry whose value is copied from the source (all nine column types and the shared helper); every non-delegating multiply-and-add guards a zero coefficient (return / clear / throw); lazy state stays invisible - Vector_column marks a row erased only if it is stored, every loop over its entries consults the erased set, Heap_column counts every pushed entry; with row access an entry is unlinked before it is destroyed; no container is iterated while it holds destroyed entries; the one-sided arms of the lazy row swap are mirror images; in the column-compressed matrix every column moved into a slot gets that slot as representative index. Contents read back for all operation sequences are not decided.",
   note="Trusted: clang 14 parser; template patterns; tables/c09.json (four exempt loops with reasons). Four genuine defects found by these rules were repaired in /repo (known_findings.json, fixed).",
   tech="information-flow, sibling/mirror agreement and typestate path rules over the clang AST (E10, E7, E2)", ref="DESIGN.md 4/C09"),
 "C05": dict(
   text="Static decision of invariant-maintenance clauses of the persistence-matrix flavours: on every path of RU_matrix and RU_vine_swap the stored factor U receives the mirror of every column operation applied to R (add / multiply-and-add / column and row swaps / insertion / removal; helper functions are summarised and accounted at their callers), which is necessary for R and U to keep factoring the boundary matrix; the reduction emits exactly one barcode event per inserted column and records the pivot exactly when the column stays non-zero; remove_last removes one bar and forgets the pivot; the chain matrix keeps its pivot dictionary in step with column insertions, removals and pivot-changing additions; in the barcode bookkeeping of the boundary and RU flavours cell identifiers and positions never meet (index-kind analysis); a cell inserted with an explicit dimension keeps it - every callee that takes a Dimension receives a value data-dependent on the caller's Dimension parameter. That the reductions are correct (R reduced, barcode equal to an independent reduction) is not decided.",
   note="Trusted: clang 14 parser; template patterns; for Z2 the factor U is stored transposed, so a column addition on R is mirrored by add_to with exchanged indices or by one pushed entry.",
   tech="companion-update / counting path rules with helper summaries, index-kind analysis and def-use provenance over the clang AST (E2, E2n, E11, E10)", ref="DESIGN.md 4/C05"),
}

NA = {
 "C02": "correctness of the annotation-matrix reduction is an algebraic value-level property; no necessary shape clause",
 "C08": "cycle/birth/death conditions are linear algebra over runtime matrices",
 "C11": "equality of two algorithms' barcodes on all metric inputs; only a thin bit-budget clause is structural",
 "C17": "blocker-set semantics after edits is set arithmetic on runtime data",
 "C18": "floating-point functional identities and norms",
 "C19": "bottleneck-distance guarantee over all point clouds",
 "C20": "combinatorial/geometric identities of partition arithmetic and point location",
}
PENDING = "check under construction in this round (see DESIGN.md 4); not claimed until its rule engine is committed"
ALL = ['C%02d' % i for i in range(1, 21)]


def main():
    m = {
        "version": 1,
        "setup_cmd": "python3 -c \"import sys; sys.path.insert(0,'/verif'); from gsa import facts; facts.ensure_extractor()\"",
        "hooks": {"guard": "GUDHI_VERIF_SA",
                  "enable": "none needed: the checks analyse /repo's sources statically, nothing is instrumented (guard name reserved, guards nothing)",
                  "baseline_off_cmd": "ctest --test-dir /repo/_build -j8 --timeout 900",
                  "source_commits": [], "add_only": True},
        "engines": [{"name": "gsa", "path": "tools/gsa-extract.cc + gsa/*.py + rules/*.py",
                     "serves_properties": sorted(CLAIMS),
                     "kind_free_text": "custom libTooling AST fact extractor over /repo headers (template patterns and instantiations) + Python rule engines (member coverage, structured path rules, effect summaries, ...)"}],
        "checks": [], "not_applicable": [],
        "notes": "Static analysis only; see DESIGN.md. exit 2 = analysis broken (anchor vanished / unit does not parse): never a pass, never a violation.",
    }
    for pid in sorted(CLAIMS):
        c = CLAIMS[pid]
        m["checks"].append({
            "property_id": pid, "quick_cmd": "./check %s --tier quick" % pid,
            "thorough_cmd": "./check %s --tier thorough" % pid,
            "evidence_file": "/verif/evidence/%s.json" % pid,
            "replay_cmd_template": "./check %s --replay {path}" % pid, "engine": "gsa",
            "level_claimed": {"category": "other", "text": c['text'], "design_ref": c['ref']},
            "level_note": c['note'], "technique": c['tech']})
    for pid in ALL:
        if pid in CLAIMS:
            continue
        m["not_applicable"].append({"property_id": pid, "reason": NA.get(pid, PENDING)})
    with open(os.path.join(VERIF, 'MANIFEST.json'), 'w') as f:
        json.dump(m, f, indent=1)
        f.write('\n')


if __name__ == '__main__':
    main()

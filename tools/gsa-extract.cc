// gsa-extract: libTooling fact extractor for the GUDHI static checks.
//
// Emits, for every function definition (template pattern, template instantiation or plain
// function) whose spelling location lies in a file matching one of the --match substrings,
// a compact JSON tree of its body with resolved names/types, plus class records (fields,
// bases, special members) and variables of static storage duration.
//
// usage: gsa-extract --out=facts.json --match=/repo/src/Simplex_tree/ [--match=...] file.cpp -- <flags>
//
// Nothing here knows a GUDHI identifier: rules live in /verif/gsa/*.py.

#include "clang/AST/ASTConsumer.h"
#include "clang/AST/ASTContext.h"
#include "clang/AST/DeclCXX.h"
#include "clang/AST/DeclFriend.h"
#include "clang/AST/DeclTemplate.h"
#include "clang/AST/ExprCXX.h"
#include "clang/AST/RecursiveASTVisitor.h"
#include "clang/AST/StmtCXX.h"
#include "clang/Frontend/CompilerInstance.h"
#include "clang/Frontend/FrontendAction.h"
#include "clang/Tooling/CommonOptionsParser.h"
#include "clang/Tooling/Tooling.h"
#include "llvm/Support/CommandLine.h"
#include "llvm/Support/JSON.h"
#include "llvm/Support/raw_ostream.h"

#include <map>
#include <set>
#include <string>
#include <vector>

using namespace clang;
namespace json = llvm::json;

static llvm::cl::OptionCategory Cat("gsa-extract");
static llvm::cl::opt<std::string> OutFile("out", llvm::cl::desc("output file"), llvm::cl::cat(Cat),
                                          llvm::cl::init("-"));
static llvm::cl::list<std::string> Match("match", llvm::cl::desc("path substring filter"), llvm::cl::cat(Cat));
static llvm::cl::opt<bool> NoInst("no-inst", llvm::cl::desc("skip template instantiations"), llvm::cl::cat(Cat),
                                  llvm::cl::init(false));
static llvm::cl::list<std::string> OnlyFn("fn", llvm::cl::desc("only functions whose qualified name contains this"),
                                          llvm::cl::cat(Cat));

namespace {

class Dumper {
 public:
  Dumper(ASTContext& C, json::OStream& J) : Ctx(C), SM(C.getSourceManager()), J(J), PP(C.getLangOpts()) {
    PP.SuppressTagKeyword = true;
    PP.Bool = true;
    PP.SuppressUnwrittenScope = true;
  }

  ASTContext& Ctx;
  SourceManager& SM;
  json::OStream& J;
  PrintingPolicy PP;
  std::map<const void*, unsigned> Ids;

  unsigned idOf(const void* p) {
    auto it = Ids.find(p);
    if (it != Ids.end()) return it->second;
    unsigned n = Ids.size() + 1;
    Ids[p] = n;
    return n;
  }

  std::string fileOf(SourceLocation L) {
    L = SM.getSpellingLoc(L);
    if (L.isInvalid()) return "";
    return SM.getFilename(L).str();
  }
  unsigned lineOf(SourceLocation L) {
    L = SM.getSpellingLoc(L);
    if (L.isInvalid()) return 0;
    return SM.getSpellingLineNumber(L);
  }
  // A location inside a macro expansion: use the expansion site (the line the user wrote).
  SourceLocation userLoc(SourceLocation L) { return SM.getExpansionLoc(L); }

  bool matches(SourceLocation L) {
    std::string f = fileOf(userLoc(L));
    if (f.empty()) return false;
    for (auto& m : Match)
      if (f.find(m) != std::string::npos) return true;
    return false;
  }

  std::string typeStr(QualType T) {
    if (T.isNull()) return "";
    return T.getAsString(PP);
  }
  std::string canonStr(QualType T) {
    if (T.isNull()) return "";
    return T.getCanonicalType().getAsString(PP);
  }

  std::string qualName(const NamedDecl* D) {
    std::string s;
    llvm::raw_string_ostream os(s);
    D->printQualifiedName(os, PP);
    return os.str();
  }

  std::string declName(const NamedDecl* D) {
    if (!D) return "";
    DeclarationName N = D->getDeclName();
    return N.getAsString();
  }

  void typeAttrs(QualType T) {
    if (T.isNull()) return;
    J.attribute("t", typeStr(T));
    QualType C = T.getCanonicalType();
    if (C->isDependentType()) {
      J.attribute("dep", true);
      return;
    }
    if (C->isIntegerType() && !C->isEnumeralType()) {
      J.attribute("ity", canonStr(C.getUnqualifiedType()));
      J.attribute("bits", (int64_t)Ctx.getTypeSize(C));
      J.attribute("sgn", C->isSignedIntegerType());
    } else if (C->isReferenceType()) {
      QualType P = C->getPointeeType();
      if (!P->isDependentType() && P->isIntegerType() && !P->isEnumeralType()) {
        J.attribute("ity", canonStr(P.getUnqualifiedType()));
        J.attribute("bits", (int64_t)Ctx.getTypeSize(P));
        J.attribute("sgn", P->isSignedIntegerType());
      }
    }
  }

  void loc(SourceLocation L, const std::string& fnFile) {
    SourceLocation U = userLoc(L);
    J.attribute("l", (int64_t)lineOf(U));
    std::string f = fileOf(U);
    if (f != fnFile) J.attribute("f", f);
  }

  std::string CurFile;

  void dumpDeclRefTarget(const ValueDecl* VD) {
    if (!VD) return;
    J.attribute("n", declName(VD));
    J.attribute("dk", VD->getDeclKindName());
    J.attribute("id", (int64_t)idOf(VD->getCanonicalDecl()));
    if (isa<FunctionDecl>(VD) || isa<FieldDecl>(VD) || isa<EnumConstantDecl>(VD) ||
        (isa<VarDecl>(VD) && cast<VarDecl>(VD)->hasGlobalStorage()))
      J.attribute("q", qualName(VD));
    if (auto* V = dyn_cast<VarDecl>(VD)) {
      if (V->hasGlobalStorage()) J.attribute("global", true);
      if (V->isStaticLocal()) J.attribute("staticlocal", true);
    }
    if (auto* EC = dyn_cast<EnumConstantDecl>(VD)) J.attribute("v", llvm::toString(EC->getInitVal(), 10));
  }

  void dumpVarDecl(const VarDecl* V) {
    J.object([&] {
      J.attribute("k", "VarDecl");
      loc(V->getLocation(), CurFile);
      J.attribute("n", declName(V));
      J.attribute("id", (int64_t)idOf(V->getCanonicalDecl()));
      typeAttrs(V->getType());
      if (V->isStaticLocal()) J.attribute("staticlocal", true);
      if (V->getTLSKind() != VarDecl::TLS_None) J.attribute("tls", true);
      if (V->getType().isConstQualified()) J.attribute("const", true);
      if (V->isConstexpr()) J.attribute("constexpr", true);
      if (auto* DD = dyn_cast<DecompositionDecl>(V)) {
        J.attributeArray("bindings", [&] {
          for (auto* B : DD->bindings()) {
            J.object([&] {
              J.attribute("n", declName(B));
              J.attribute("id", (int64_t)idOf(B));
            });
          }
        });
      }
      if (V->hasInit()) {
        J.attributeBegin("init");
        dumpStmt(V->getInit());
        J.attributeEnd();
      }
    });
  }

  const Stmt* strip(const Stmt* S) {
    while (S) {
      if (auto* E = dyn_cast<ConstantExpr>(S))
        S = E->getSubExpr();
      else if (auto* E = dyn_cast<ExprWithCleanups>(S))
        S = E->getSubExpr();
      else if (auto* E = dyn_cast<MaterializeTemporaryExpr>(S))
        S = E->getSubExpr();
      else if (auto* E = dyn_cast<CXXBindTemporaryExpr>(S))
        S = E->getSubExpr();
      else if (auto* E = dyn_cast<ParenExpr>(S))
        S = E->getSubExpr();
      else if (auto* E = dyn_cast<CXXDefaultArgExpr>(S))
        S = E->getExpr();
      else if (auto* E = dyn_cast<CXXDefaultInitExpr>(S))
        S = E->getExpr();
      else
        break;
    }
    return S;
  }

  void named(const char* key, const Stmt* S) {
    J.attributeBegin(key);
    dumpStmt(S);
    J.attributeEnd();
  }

  void children(const Stmt* S) {
    J.attributeArray("c", [&] {
      for (const Stmt* C : S->children()) dumpStmt(C);
    });
  }

  void calleeAttrs(const FunctionDecl* FD) {
    if (!FD) return;
    J.attribute("callee", qualName(FD));
    J.attribute("cn", declName(FD));
    J.attribute("cid", (int64_t)idOf(FD->getCanonicalDecl()));
    if (auto* M = dyn_cast<CXXMethodDecl>(FD)) {
      J.attribute("ccls", qualName(M->getParent()));
      if (M->isConst()) J.attribute("cconst", true);
      if (M->isStatic()) J.attribute("cstatic", true);
    }
    SourceLocation L = userLoc(FD->getLocation());
    J.attribute("cfile", fileOf(L));
    J.attribute("cline", (int64_t)lineOf(L));
  }

  void qualAttrs(NestedNameSpecifier* Q) {
    if (!Q) return;
    std::string s;
    llvm::raw_string_ostream os(s);
    Q->print(os, PP);
    J.attribute("qual", os.str());
    if (const Type* T = Q->getAsType()) J.attribute("qualT", canonStr(QualType(T, 0)));
  }

  // explicit template arguments written at a name (insert_node_<true, false, true>)
  void etaAttrs(ArrayRef<TemplateArgumentLoc> Args) {
    J.attributeArray("eta", [&] {
      for (const TemplateArgumentLoc& A : Args) {
        std::string s;
        llvm::raw_string_ostream os(s);
        A.getArgument().print(PP, os, true);
        J.value(os.str());
      }
    });
  }

  void dumpStmt(const Stmt* S0) {
    const Stmt* S = strip(S0);
    if (!S) {
      J.value(nullptr);
      return;
    }
    J.object([&] {
      J.attribute("k", S->getStmtClassName());
      loc(S->getBeginLoc(), CurFile);
      if (auto* E = dyn_cast<Expr>(S)) {
        typeAttrs(E->getType());
        if (E->isLValue()) J.attribute("lv", true);
      }

      if (auto* I = dyn_cast<IfStmt>(S)) {
        if (I->isConstexpr()) {
          J.attribute("constexpr", true);
          // in an instantiation the condition is a constant: record which arm survives
          if (I->getCond() && !I->getCond()->isValueDependent()) {
            bool V = false;
            if (I->getCond()->EvaluateAsBooleanCondition(V, Ctx)) J.attribute("cv", V);
          }
        }
        if (I->getInit()) named("init", I->getInit());
        if (I->getConditionVariable()) {
          J.attributeBegin("condvar");
          dumpVarDecl(I->getConditionVariable());
          J.attributeEnd();
        }
        named("cond", I->getCond());
        named("then", I->getThen());
        named("else", I->getElse());
        return;
      }
      if (auto* F = dyn_cast<ForStmt>(S)) {
        named("init", F->getInit());
        named("cond", F->getCond());
        named("inc", F->getInc());
        named("body", F->getBody());
        return;
      }
      if (auto* F = dyn_cast<CXXForRangeStmt>(S)) {
        J.attributeBegin("var");
        dumpVarDecl(F->getLoopVariable());
        J.attributeEnd();
        named("range", F->getRangeInit());
        named("body", F->getBody());
        return;
      }
      if (auto* W = dyn_cast<WhileStmt>(S)) {
        named("cond", W->getCond());
        named("body", W->getBody());
        return;
      }
      if (auto* D = dyn_cast<DoStmt>(S)) {
        named("body", D->getBody());
        named("cond", D->getCond());
        return;
      }
      if (auto* Sw = dyn_cast<SwitchStmt>(S)) {
        named("cond", Sw->getCond());
        named("body", Sw->getBody());
        return;
      }
      if (auto* Cs = dyn_cast<CaseStmt>(S)) {
        named("lhs", Cs->getLHS());
        named("sub", Cs->getSubStmt());
        return;
      }
      if (auto* Ds = dyn_cast<DefaultStmt>(S)) {
        named("sub", Ds->getSubStmt());
        return;
      }
      if (auto* R = dyn_cast<ReturnStmt>(S)) {
        named("value", R->getRetValue());
        return;
      }
      if (auto* G = dyn_cast<GotoStmt>(S)) {
        J.attribute("label", G->getLabel()->getName());
        return;
      }
      if (auto* L = dyn_cast<LabelStmt>(S)) {
        J.attribute("label", L->getName());
        named("sub", L->getSubStmt());
        return;
      }
      if (auto* DS = dyn_cast<DeclStmt>(S)) {
        J.attributeArray("decls", [&] {
          for (auto* D : DS->decls()) {
            if (auto* V = dyn_cast<VarDecl>(D))
              dumpVarDecl(V);
            else if (auto* SA = dyn_cast<StaticAssertDecl>(D)) {
              J.object([&] {
                J.attribute("k", "StaticAssert");
                J.attribute("l", (int64_t)lineOf(userLoc(SA->getLocation())));
                J.attributeBegin("cond");
                dumpStmt(SA->getAssertExpr());
                J.attributeEnd();
              });
            } else
              J.object([&] {
                J.attribute("k", D->getDeclKindName());
                if (auto* ND = dyn_cast<NamedDecl>(D)) J.attribute("n", declName(ND));
              });
          }
        });
        return;
      }
      if (auto* T = dyn_cast<CXXTryStmt>(S)) {
        named("try", T->getTryBlock());
        J.attributeArray("handlers", [&] {
          for (unsigned i = 0; i < T->getNumHandlers(); ++i) dumpStmt(T->getHandler(i));
        });
        return;
      }
      if (auto* Cch = dyn_cast<CXXCatchStmt>(S)) {
        named("body", Cch->getHandlerBlock());
        return;
      }
      if (auto* L = dyn_cast<LambdaExpr>(S)) {
        J.attribute("id", (int64_t)idOf(L->getLambdaClass()));
        J.attributeArray("captures", [&] {
          for (auto& C : L->captures()) {
            J.object([&] {
              if (C.capturesThis())
                J.attribute("n", "this");
              else if (C.capturesVariable()) {
                J.attribute("n", declName(C.getCapturedVar()));
                J.attribute("id", (int64_t)idOf(C.getCapturedVar()->getCanonicalDecl()));
              }
              J.attribute("byref", C.getCaptureKind() == LCK_ByRef);
            });
          }
        });
        J.attribute("defcap", (int64_t)L->getCaptureDefault());
        if (auto* CO = L->getCallOperator()) {
          J.attributeArray("params", [&] {
            for (auto* P : CO->parameters()) dumpVarDecl(P);
          });
        } else if (auto* FT = L->getLambdaClass()->getDependentLambdaCallOperator()) {
          J.attributeArray("params", [&] {
            for (auto* P : FT->getTemplatedDecl()->parameters()) dumpVarDecl(P);
          });
        }
        named("body", L->getBody());
        return;
      }

      // expressions with attributes, generic children
      if (auto* DR = dyn_cast<DeclRefExpr>(S)) {
        dumpDeclRefTarget(DR->getDecl());
        qualAttrs(DR->getQualifier());
        return;
      }
      if (auto* ME = dyn_cast<MemberExpr>(S)) {
        dumpDeclRefTarget(ME->getMemberDecl());
        qualAttrs(ME->getQualifier());
        if (ME->hasExplicitTemplateArgs()) etaAttrs(ME->template_arguments());
        if (ME->isArrow()) J.attribute("arrow", true);
        if (ME->isImplicitAccess()) J.attribute("implicit", true);
        children(S);
        return;
      }
      if (auto* ME = dyn_cast<CXXDependentScopeMemberExpr>(S)) {
        J.attribute("n", ME->getMember().getAsString());
        qualAttrs(ME->getQualifier());
        if (ME->hasExplicitTemplateArgs()) etaAttrs(ME->template_arguments());
        if (ME->isArrow()) J.attribute("arrow", true);
        if (ME->isImplicitAccess()) {
          J.attribute("implicit", true);
          J.attributeArray("c", [&] {});
        } else
          children(S);
        return;
      }
      if (auto* ME = dyn_cast<UnresolvedMemberExpr>(S)) {
        J.attribute("n", ME->getMemberName().getAsString());
        qualAttrs(ME->getQualifier());
        if (ME->hasExplicitTemplateArgs()) etaAttrs(ME->template_arguments());
        if (ME->isArrow()) J.attribute("arrow", true);
        if (ME->isImplicitAccess()) {
          J.attribute("implicit", true);
          J.attributeArray("c", [&] {});
        } else
          children(S);
        return;
      }
      if (auto* UL = dyn_cast<UnresolvedLookupExpr>(S)) {
        J.attribute("n", UL->getName().getAsString());
        qualAttrs(UL->getQualifier());
        if (UL->hasExplicitTemplateArgs()) etaAttrs(UL->template_arguments());
        return;
      }
      if (auto* DS = dyn_cast<DependentScopeDeclRefExpr>(S)) {
        J.attribute("n", DS->getDeclName().getAsString());
        qualAttrs(DS->getQualifier());
        return;
      }
      if (auto* OC = dyn_cast<CXXOperatorCallExpr>(S)) {
        J.attribute("op", getOperatorSpelling(OC->getOperator()));
        calleeAttrs(OC->getDirectCallee());
        children(S);
        return;
      }
      if (auto* CE = dyn_cast<CallExpr>(S)) {
        calleeAttrs(CE->getDirectCallee());
        children(S);
        return;
      }
      if (auto* CE = dyn_cast<CXXConstructExpr>(S)) {
        J.attribute("ctor", qualName(CE->getConstructor()->getParent()));
        J.attribute("ct", canonStr(CE->getType().getUnqualifiedType()));
        if (CE->getConstructor()->isCopyConstructor()) J.attribute("copy", true);
        if (CE->getConstructor()->isMoveConstructor()) J.attribute("move", true);
        if (CE->isElidable()) J.attribute("elidable", true);
        children(S);
        return;
      }
      if (auto* NE = dyn_cast<CXXNewExpr>(S)) {
        J.attribute("alloc", typeStr(NE->getAllocatedType()));
        children(S);
        return;
      }
      if (auto* BO = dyn_cast<BinaryOperator>(S)) {
        J.attribute("op", BO->getOpcodeStr());
        if (auto* CA = dyn_cast<CompoundAssignOperator>(S)) {
          J.attribute("compT", canonStr(CA->getComputationResultType()));
          J.attribute("compLT", canonStr(CA->getComputationLHSType()));
        }
        children(S);
        return;
      }
      if (auto* UO = dyn_cast<UnaryOperator>(S)) {
        J.attribute("op", UnaryOperator::getOpcodeStr(UO->getOpcode()));
        if (UO->isPostfix()) J.attribute("postfix", true);
        children(S);
        return;
      }
      if (auto* CE = dyn_cast<CastExpr>(S)) {
        J.attribute("ck", CE->getCastKindName());
        if (isa<ExplicitCastExpr>(CE)) {
          QualType W = cast<ExplicitCastExpr>(CE)->getTypeAsWritten();
          J.attribute("ct", canonStr(W.getNonReferenceType().getUnqualifiedType()));
        }
        children(S);
        return;
      }
      if (auto* SP = dyn_cast<SubstNonTypeTemplateParmExpr>(S)) {
        // keep the template parameter's name: value-level rules treat it as a symbol, not as this instantiation's value
        J.attribute("n", SP->getParameter()->getNameAsString());
        J.attributeArray("c", [&] { dumpStmt(SP->getReplacement()); });
        return;
      }
      if (auto* IL = dyn_cast<IntegerLiteral>(S)) {
        J.attribute("v", llvm::toString(IL->getValue(), 10, false));
        return;
      }
      if (auto* BL = dyn_cast<CXXBoolLiteralExpr>(S)) {
        J.attribute("v", BL->getValue() ? "true" : "false");
        return;
      }
      if (auto* FL = dyn_cast<FloatingLiteral>(S)) {
        J.attribute("v", FL->getValueAsApproximateDouble());
        return;
      }
      if (auto* SL = dyn_cast<StringLiteral>(S)) {
        if (SL->isAscii() || SL->isUTF8()) J.attribute("v", SL->getString());
        return;
      }
      if (auto* CL = dyn_cast<CharacterLiteral>(S)) {
        J.attribute("v", (int64_t)CL->getValue());
        return;
      }
      if (auto* UE = dyn_cast<UnaryExprOrTypeTraitExpr>(S)) {
        J.attribute("trait", (int64_t)UE->getKind());
        if (UE->isArgumentType()) J.attribute("argT", typeStr(UE->getArgumentType()));
        if (!UE->isValueDependent()) {
          Expr::EvalResult R;
          if (UE->EvaluateAsInt(R, Ctx)) J.attribute("v", llvm::toString(R.Val.getInt(), 10));
        }
        if (!UE->isArgumentType()) children(S);
        return;
      }
      if (auto* UC = dyn_cast<CXXUnresolvedConstructExpr>(S)) {
        J.attribute("ctorT", typeStr(UC->getTypeAsWritten()));
        J.attribute("ct", canonStr(UC->getTypeAsWritten().getNonReferenceType().getUnqualifiedType()));
        children(S);
        return;
      }
      if (auto* TO = dyn_cast<CXXTemporaryObjectExpr>(S)) {
        (void)TO;
        children(S);
        return;
      }
      if (auto* SO = dyn_cast<SizeOfPackExpr>(S)) {
        (void)SO;
        return;
      }
      children(S);
    });
  }

  static const char* specialKind(const FunctionDecl* FD) {
    if (auto* C = dyn_cast<CXXConstructorDecl>(FD)) {
      if (C->isCopyConstructor()) return "copy_ctor";
      if (C->isMoveConstructor()) return "move_ctor";
      if (C->isDefaultConstructor()) return "default_ctor";
      return "ctor";
    }
    if (isa<CXXDestructorDecl>(FD)) return "dtor";
    if (auto* M = dyn_cast<CXXMethodDecl>(FD)) {
      if (M->isCopyAssignmentOperator()) return "copy_assign";
      if (M->isMoveAssignmentOperator()) return "move_assign";
      if (isa<CXXConversionDecl>(FD)) return "conversion";
      return "method";
    }
    return "function";
  }

  std::string templateArgs(const FunctionDecl* FD) {
    std::string s;
    llvm::raw_string_ostream os(s);
    // class args
    const DeclContext* DC = FD->getDeclContext();
    std::vector<std::string> parts;
    while (DC) {
      if (auto* Sp = dyn_cast<ClassTemplateSpecializationDecl>(DC)) {
        std::string a;
        llvm::raw_string_ostream aos(a);
        printTemplateArgumentList(aos, Sp->getTemplateArgs().asArray(), PP);
        parts.push_back(Sp->getNameAsString() + aos.str());
      }
      DC = DC->getParent();
    }
    for (auto it = parts.rbegin(); it != parts.rend(); ++it) os << *it << "::";
    if (auto* Args = FD->getTemplateSpecializationArgs()) {
      os << "<fn>";
      printTemplateArgumentList(os, Args->asArray(), PP);
    }
    return os.str();
  }

  // The lexical class a friend function is defined in (for `friend void swap(...)`).
  const CXXRecordDecl* lexicalClass(const FunctionDecl* FD) {
    const DeclContext* DC = FD->getLexicalDeclContext();
    while (DC) {
      if (auto* R = dyn_cast<CXXRecordDecl>(DC)) return R;
      DC = DC->getLexicalParent();
    }
    return nullptr;
  }

  void dumpFunction(const FunctionDecl* FD, int inst) {
    SourceLocation L = userLoc(FD->getLocation());
    CurFile = fileOf(L);
    J.object([&] {
      J.attribute("rec", "function");
      J.attribute("name", declName(FD));
      J.attribute("qual", qualName(FD));
      J.attribute("file", CurFile);
      J.attribute("line", (int64_t)lineOf(L));
      J.attribute("endline", (int64_t)lineOf(userLoc(FD->getEndLoc())));
      J.attribute("inst", inst);
      J.attribute("kind", specialKind(FD));
      J.attribute("ret", typeStr(FD->getReturnType()));
      if (!FD->getReturnType()->isDependentType()) J.attribute("retc", canonStr(FD->getReturnType()));
      if (inst == 1) J.attribute("targs", templateArgs(FD));
      if (auto* M = dyn_cast<CXXMethodDecl>(FD)) {
        J.attribute("cls", qualName(M->getParent()));
        J.attribute("clsname", M->getParent()->getNameAsString());
        if (M->isConst()) J.attribute("const", true);
        if (M->isStatic()) J.attribute("static", true);
      } else if (FD->getFriendObjectKind() != Decl::FOK_None) {
        if (auto* R = lexicalClass(FD)) {
          J.attribute("friendof", qualName(R));
          J.attribute("clsname", R->getNameAsString());
        }
      }
      if (FD->isDefaulted()) J.attribute("defaulted", true);
      if (FD->getDescribedFunctionTemplate() || FD->getPrimaryTemplate()) J.attribute("fntemplate", true);
      if (auto* FT = FD->getDescribedFunctionTemplate()) {
        J.attributeArray("tparams", [&] {
          for (const NamedDecl* P : *FT->getTemplateParameters()) J.value(P->getNameAsString());
        });
      }
      J.attributeArray("params", [&] {
        for (auto* P : FD->parameters()) dumpVarDecl(P);
      });
      if (auto* C = dyn_cast<CXXConstructorDecl>(FD)) {
        J.attributeArray("inits", [&] {
          for (auto* I : C->inits()) {
            J.object([&] {
              if (I->isAnyMemberInitializer())
                J.attribute("member", declName(I->getAnyMember()));
              else if (I->isBaseInitializer())
              {
                J.attribute("base", typeStr(QualType(I->getBaseClass(), 0)));
                J.attribute("basec", canonStr(QualType(I->getBaseClass(), 0)));
              }
              else if (I->isDelegatingInitializer())
                J.attribute("delegating", true);
              J.attribute("written", I->isWritten());
              J.attribute("l", (int64_t)lineOf(userLoc(I->getSourceLocation())));
              J.attributeBegin("init");
              dumpStmt(I->getInit());
              J.attributeEnd();
            });
          }
        });
      }
      J.attributeBegin("body");
      dumpStmt(FD->getBody());
      J.attributeEnd();
    });
  }

  bool isEmptyClassType(QualType T) {
    T = T.getCanonicalType();
    if (T->isDependentType()) return false;
    if (auto* R = T->getAsCXXRecordDecl()) {
      if (R->hasDefinition()) return R->isEmpty();
    }
    return false;
  }

  void dumpClass(const CXXRecordDecl* R, int inst) {
    SourceLocation L = userLoc(R->getLocation());
    J.object([&] {
      J.attribute("rec", "class");
      J.attribute("name", R->getNameAsString());
      J.attribute("qual", qualName(R));
      J.attribute("file", fileOf(L));
      J.attribute("line", (int64_t)lineOf(L));
      J.attribute("inst", inst);
      if (auto* Sp = dyn_cast<ClassTemplateSpecializationDecl>(R)) {
        std::string a;
        llvm::raw_string_ostream aos(a);
        printTemplateArgumentList(aos, Sp->getTemplateArgs().asArray(), PP);
        J.attribute("targs", aos.str());
      }
      if (inst != 0) J.attribute("empty", R->isEmpty());
      if (inst != 0) {
        // how the class is copied: user (user-provided), defaulted, implicit (member-wise), deleted
        std::string cc = R->needsImplicitCopyConstructor()
                             ? (R->defaultedCopyConstructorIsDeleted() ? "deleted" : "implicit") : "";
        for (auto* C : R->ctors())
          if (C->isCopyConstructor())
            cc = C->isDeleted() ? "deleted" : C->isUserProvided() ? "user" : C->isImplicit() ? "implicit" : "defaulted";
        std::string ca = R->needsImplicitCopyAssignment() ? "implicit" : "";
        for (auto* M : R->methods())
          if (M->isCopyAssignmentOperator())
            ca = M->isDeleted() ? "deleted" : M->isUserProvided() ? "user" : M->isImplicit() ? "implicit" : "defaulted";
        J.attribute("copy_ctor", cc);
        J.attribute("copy_assign", ca);
      }
      J.attributeArray("bases", [&] {
        for (auto& B : R->bases()) {
          J.object([&] {
            J.attribute("t", typeStr(B.getType()));
            J.attribute("ct", canonStr(B.getType().getUnqualifiedType()));
            J.attribute("dep", B.getType()->isDependentType());
            if (!B.getType()->isDependentType()) J.attribute("empty", isEmptyClassType(B.getType()));
          });
        }
      });
      J.attributeArray("fields", [&] {
        for (auto* F : R->fields()) {
          J.object([&] {
            J.attribute("n", declName(F));
            J.attribute("l", (int64_t)lineOf(userLoc(F->getLocation())));
            typeAttrs(F->getType());
            if (inst != 0 && !F->getType()->isDependentType()) J.attribute("ct", canonStr(F->getType()));
            if (F->isMutable()) J.attribute("mutable", true);
            if (F->getType().isConstQualified()) J.attribute("const", true);
            if (isEmptyClassType(F->getType())) J.attribute("empty", true);
            if (F->hasInClassInitializer()) J.attribute("hasinit", true);
          });
        }
      });
      J.attributeArray("aliases", [&] {
        for (auto* D : R->decls()) {
          if (auto* TD = dyn_cast<TypedefNameDecl>(D)) {
            J.object([&] {
              J.attribute("n", TD->getNameAsString());
              J.attribute("t", typeStr(TD->getUnderlyingType()));
              J.attribute("l", (int64_t)lineOf(userLoc(TD->getLocation())));
            });
          }
        }
      });
      J.attributeArray("methods", [&] {
        for (auto* D : R->decls()) {
          const FunctionDecl* FD = nullptr;
          bool isFriend = false;
          if (auto* M = dyn_cast<CXXMethodDecl>(D))
            FD = M;
          else if (auto* FT = dyn_cast<FunctionTemplateDecl>(D))
            FD = FT->getTemplatedDecl();
          else if (auto* Fr = dyn_cast<FriendDecl>(D)) {
            if (auto* ND = Fr->getFriendDecl()) {
              if (auto* F2 = dyn_cast<FunctionDecl>(ND))
                FD = F2;
              else if (auto* FT2 = dyn_cast<FunctionTemplateDecl>(ND))
                FD = FT2->getTemplatedDecl();
              isFriend = true;
            }
          }
          if (!FD) continue;
          if (FD->isImplicit()) continue;
          J.object([&] {
            J.attribute("n", declName(FD));
            J.attribute("kind", specialKind(FD));
            J.attribute("l", (int64_t)lineOf(userLoc(FD->getLocation())));
            if (isFriend) J.attribute("friend", true);
            if (FD->isDeleted()) J.attribute("deleted", true);
            if (FD->isDefaulted()) J.attribute("defaulted", true);
            J.attribute("access", (int64_t)D->getAccess());
            if (auto* M = dyn_cast<CXXMethodDecl>(FD)) {
              if (M->isConst()) J.attribute("const", true);
              if (M->isStatic()) J.attribute("static", true);
            }
            J.attribute("ret", typeStr(FD->getReturnType()));
            J.attributeArray("params", [&] {
              for (auto* P : FD->parameters()) {
                J.object([&] {
                  J.attribute("n", declName(P));
                  J.attribute("t", typeStr(P->getType()));
                });
              }
            });
            J.attribute("hasbody", FD->doesThisDeclarationHaveABody());
          });
        }
      });
    });
  }

  void dumpGlobalVar(const VarDecl* V, const FunctionDecl* InFn) {
    SourceLocation L = userLoc(V->getLocation());
    J.object([&] {
      J.attribute("rec", "staticvar");
      J.attribute("name", declName(V));
      J.attribute("qual", qualName(V));
      J.attribute("file", fileOf(L));
      J.attribute("line", (int64_t)lineOf(L));
      J.attribute("t", typeStr(V->getType()));
      J.attribute("const", V->getType().isConstQualified());
      J.attribute("constexpr", V->isConstexpr());
      J.attribute("tls", V->getTLSKind() != VarDecl::TLS_None);
      J.attribute("staticlocal", V->isStaticLocal());
      J.attribute("staticmember", V->isStaticDataMember());
      J.attribute("inline", V->isInline());
      if (InFn) J.attribute("infn", qualName(InFn));
      if (auto* R = dyn_cast<CXXRecordDecl>(V->getDeclContext())) J.attribute("cls", qualName(R));
      bool emptyT = isEmptyClassType(V->getType());
      J.attribute("emptytype", emptyT);
      // initialiser (static data members initialised by an immediately invoked lambda carry real code)
      if (V->hasInit() && !V->isStaticLocal()) {
        std::string saved = CurFile;
        CurFile = fileOf(L);
        J.attributeBegin("init");
        dumpStmt(V->getInit());
        J.attributeEnd();
        CurFile = saved;
      }
    });
  }
};

class Visitor : public RecursiveASTVisitor<Visitor> {
 public:
  Visitor(Dumper& D) : D(D) {}
  Dumper& D;
  std::set<const void*> Seen;
  const FunctionDecl* CurFn = nullptr;

  bool shouldVisitTemplateInstantiations() const { return !NoInst; }
  bool shouldVisitImplicitCode() const { return false; }

  static bool isInstantiation(const FunctionDecl* FD) {
    if (FD->isTemplateInstantiation()) return true;
    const DeclContext* DC = FD->getDeclContext();
    while (DC) {
      if (isa<ClassTemplateSpecializationDecl>(DC) && !isa<ClassTemplatePartialSpecializationDecl>(DC)) return true;
      DC = DC->getParent();
    }
    if (FD->getFriendObjectKind() != Decl::FOK_None) {
      const DeclContext* L = FD->getLexicalDeclContext();
      while (L) {
        if (isa<ClassTemplateSpecializationDecl>(L) && !isa<ClassTemplatePartialSpecializationDecl>(L)) return true;
        L = L->getLexicalParent();
      }
    }
    return false;
  }

#define GSA_WRAP(KIND)                                             \
  bool Traverse##KIND(KIND* FD) {                                  \
    const FunctionDecl* Saved = CurFn;                             \
    CurFn = FD;                                                    \
    handleFunction(FD);                                            \
    bool r = RecursiveASTVisitor<Visitor>::Traverse##KIND(FD);     \
    CurFn = Saved;                                                 \
    return r;                                                      \
  }
  GSA_WRAP(FunctionDecl)
  GSA_WRAP(CXXMethodDecl)
  GSA_WRAP(CXXConstructorDecl)
  GSA_WRAP(CXXDestructorDecl)
  GSA_WRAP(CXXConversionDecl)
#undef GSA_WRAP

  void handleFunction(FunctionDecl* FD) {
    if (!FD->doesThisDeclarationHaveABody()) return;
    if (!Seen.insert(FD).second) return;
    if (!D.matches(FD->getLocation())) return;
    if (auto* M = dyn_cast<CXXMethodDecl>(FD))
      if (M->getParent()->isLambda()) return;
    if (!OnlyFn.empty()) {
      std::string q = D.qualName(FD);
      bool ok = false;
      for (auto& s : OnlyFn)
        if (q.find(s) != std::string::npos) ok = true;
      if (!ok) return;
    }
    int inst;
    if (isInstantiation(FD))
      inst = 1;
    else if (FD->isDependentContext())
      inst = 0;
    else
      inst = 2;
    if (inst == 1 && FD->isDependentContext()) return;  // member template of an instantiated class, not itself instantiated
    D.dumpFunction(FD, inst);
  }

  bool VisitCXXRecordDecl(CXXRecordDecl* R) {
    if (!R->isThisDeclarationADefinition()) return true;
    if (R->isLambda()) return true;
    if (!Seen.insert(R).second) return true;
    if (!D.matches(R->getLocation())) return true;
    int inst = 2;
    if (isa<ClassTemplateSpecializationDecl>(R) && !isa<ClassTemplatePartialSpecializationDecl>(R))
      inst = 1;
    else if (R->isDependentContext())
      inst = 0;
    else {
      // nested class of an instantiation
      const DeclContext* DC = R->getDeclContext();
      while (DC) {
        if (isa<ClassTemplateSpecializationDecl>(DC)) inst = 1;
        DC = DC->getParent();
      }
    }
    D.dumpClass(R, inst);
    return true;
  }

  bool VisitVarDecl(VarDecl* V) {
    if (!V->hasGlobalStorage()) return true;
    if (isa<ParmVarDecl>(V)) return true;
    if (!V->isThisDeclarationADefinition() && !V->isStaticDataMember()) return true;
    if (!Seen.insert(V->getCanonicalDecl()).second) return true;
    if (!D.matches(V->getLocation())) return true;
    D.dumpGlobalVar(V, V->isStaticLocal() ? CurFn : nullptr);
    return true;
  }
};

class Consumer : public ASTConsumer {
 public:
  void HandleTranslationUnit(ASTContext& Ctx) override {
    std::error_code EC;
    std::unique_ptr<llvm::raw_fd_ostream> FOS;
    llvm::raw_ostream* OS = &llvm::outs();
    if (OutFile != "-") {
      FOS = std::make_unique<llvm::raw_fd_ostream>(OutFile, EC);
      if (EC) {
        llvm::errs() << "cannot open " << OutFile << "\n";
        return;
      }
      OS = FOS.get();
    }
    json::OStream J(*OS, 0);
    J.object([&] {
      J.attribute("errors", (int64_t)Ctx.getDiagnostics().getClient()->getNumErrors());
      J.attributeArray("records", [&] {
        Dumper D(Ctx, J);
        Visitor V(D);
        V.TraverseDecl(Ctx.getTranslationUnitDecl());
      });
    });
    *OS << "\n";
  }
};

class Action : public ASTFrontendAction {
 public:
  std::unique_ptr<ASTConsumer> CreateASTConsumer(CompilerInstance&, llvm::StringRef) override {
    return std::make_unique<Consumer>();
  }
};

}  // namespace

int main(int argc, const char** argv) {
  auto Exp = tooling::CommonOptionsParser::create(argc, argv, Cat);
  if (!Exp) {
    llvm::errs() << Exp.takeError();
    return 2;
  }
  tooling::ClangTool Tool(Exp->getCompilations(), Exp->getSourcePathList());
  int r = Tool.run(tooling::newFrontendActionFactory<Action>().get());
  return r ? 2 : 0;
}

#!/usr/bin/env python3
"""keep_seed.py <seed-id> <property> <src dir with patch.diff demo.cpp notes.md> <needs> <ran> [detected_by]"""
import json, os, shutil, sys
sid, prop, src, needs, ran = sys.argv[1:6]
det = sys.argv[6] if len(sys.argv) > 6 else ''
d = os.path.join('/verif/seeded', sid)
os.makedirs(d, exist_ok=True)
for f in ('patch.diff', 'demo.cpp', 'notes.md'):
    if os.path.exists(os.path.join(src, f)):
        shutil.copy(os.path.join(src, f), os.path.join(d, f))
meta = {'id': sid, 'property': prop, 'needs_to_manifest': needs, 'what_i_ran': ran, 'detected_by': det}
json.dump(meta, open(os.path.join(d, 'meta.json'), 'w'), indent=1)
print('kept', d)

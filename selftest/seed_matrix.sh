#!/bin/bash
# runs every claimed check against every kept seeded change (scratch copy) and prints the exit-code matrix
cd /verif
PROPS=$(python3 -c "import json; print(' '.join(c['property_id'] for c in json.load(open('MANIFEST.json'))['checks']))")
printf "%-10s" seed; for p in $PROPS; do printf "%4s" $p; done; echo
for d in seeded/*/; do
  s=$(basename $d)
  printf "%-10s" $s
  for p in $PROPS; do
    rc=$(./selftest/run.py --patch $d/patch.diff --prop $p 2>&1 | grep "^exit" | cut -d' ' -f2)
    printf "%4s" "$rc"
  done
  echo
done

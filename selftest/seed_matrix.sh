#!/bin/bash
# runs every claimed check against every kept seeded change (scratch copy) and prints the exit-code matrix
# (parallel: one result file per pair under a scratch directory that is removed at the end)
cd /verif
PROPS=$(python3 -c "import json; print(' '.join(c['property_id'] for c in json.load(open('MANIFEST.json'))['checks']))")
OUT=$(mktemp -d /tmp/gsa-seedmatrix-XXXXXX)
for d in seeded/*/; do s=$(basename $d); for p in $PROPS; do echo "$s $p"; done; done | \
  xargs -P 8 -L 1 bash -c './selftest/run.py --patch seeded/$0/patch.diff --prop $1 > '$OUT'/$0.$1.out 2>&1'
printf "%-10s" seed; for p in $PROPS; do printf "%4s" $p; done; echo
for d in seeded/*/; do
  s=$(basename $d)
  printf "%-10s" $s
  for p in $PROPS; do
    rc=$(grep "^exit" $OUT/$s.$p.out | cut -d' ' -f2)
    if grep -q "FAILED\|rejects\|can't find file" $OUT/$s.$p.out; then rc="P$rc"; fi
    printf "%4s" "$rc"
  done
  echo
done
rm -rf $OUT

#!/usr/bin/env python3
"""Both-ways test of the checkers: applies each mutation of selftest/mutations.json to a scratch copy of
/repo's include trees (outside /repo and /verif, removed afterwards), runs the property's check against the copy
(GSA_REPO) and requires exit 1 with a report naming the expected instance. The unchanged tree must stay silent.

usage: selftest/run.py [--prop Cxx] [--id name] [--patch file.diff --prop Cxx]"""
import argparse
import json
import os
import shutil
import subprocess
import sys
import tempfile

VERIF = os.path.dirname(os.path.dirname(os.path.abspath(__file__)))
REPO = '/repo'


def make_copy():
    td = tempfile.mkdtemp(prefix='gsa-selftest-')
    for d in sorted(os.listdir(os.path.join(REPO, 'src'))):
        inc = os.path.join(REPO, 'src', d, 'include')
        if os.path.isdir(inc):
            shutil.copytree(inc, os.path.join(td, 'src', d, 'include'))
    os.makedirs(os.path.join(td, 'ext', 'hera', 'include'), exist_ok=True)
    return td


def run_check(prop, repo, tier='quick'):
    env = dict(os.environ, GSA_REPO=repo, GSA_NO_EVIDENCE='1')
    r = subprocess.run([os.path.join(VERIF, 'check'), prop, '--tier', tier], capture_output=True, text=True, env=env,
                       cwd=VERIF)
    return r.returncode, r.stdout + r.stderr


def main():
    ap = argparse.ArgumentParser()
    ap.add_argument('--prop')
    ap.add_argument('--id')
    ap.add_argument('--patch')
    ap.add_argument('-v', action='store_true')
    a = ap.parse_args()
    muts = json.load(open(os.path.join(VERIF, 'selftest', 'mutations.json')))['mutations']
    if a.patch:
        td = make_copy()
        try:
            r = subprocess.run(['patch', '-p1', '-d', td, '-i', os.path.abspath(a.patch)], capture_output=True,
                               text=True)
            print(r.stdout[-500:], r.stderr[-500:])
            rc, out = run_check(a.prop, td)
            print(out)
            print('exit', rc)
        finally:
            shutil.rmtree(td, ignore_errors=True)
        return 0
    fails = 0
    n = 0
    for m in muts:
        if a.prop and m['property'] != a.prop:
            continue
        if a.id and m['id'] != a.id:
            continue
        n += 1
        td = make_copy()
        try:
            path = os.path.join(td, m['file'])
            s = open(path).read()
            if s.count(m['find']) != m.get('count', 1):
                print('SELFTEST-BROKEN %s: anchor text occurs %d times in %s' % (m['id'], s.count(m['find']),
                                                                               m['file']))
                fails += 1
                continue
            s = s.replace(m['find'], m['replace'])
            open(path, 'w').write(s)
            broken = False
            for e in m.get('more', []):          # further edits of the same change (same or other file)
                p2 = os.path.join(td, e.get('file', m['file']))
                s2 = open(p2).read()
                if s2.count(e['find']) != 1:
                    print('SELFTEST-BROKEN %s: anchor text of an extra edit occurs %d times' % (
                        m['id'], s2.count(e['find'])))
                    broken = True
                    break
                open(p2, 'w').write(s2.replace(e['find'], e['replace']))
            if broken:
                fails += 1
                continue
            rc, out = run_check(m['property'], td)
            if m.get('neutral'):
                # behaviour-preserving rewrite: the check must stay silent (no false alarm, no exit 2)
                ok = rc == 0
                print('%-8s %-44s %s' % (m['property'], m['id'], 'silent (neutral)' if ok else
                                         'FALSE ALARM (exit %d)' % rc))
            else:
                ok = rc == 1 and m['expect'] in out
                print('%-8s %-44s %s' % (m['property'], m['id'], 'caught' if ok else 'MISSED (exit %d)' % rc))
            if a.v or not ok:
                print('\n'.join('      ' + l for l in out.splitlines() if 'VIOLATION' not in l)[-3000:])
            if not ok:
                fails += 1
        finally:
            shutil.rmtree(td, ignore_errors=True)
    print('%d mutations, %d not caught' % (n, fails))
    return 1 if fails else 0


if __name__ == '__main__':
    sys.exit(main())

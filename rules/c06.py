"""C06 vine swaps: the truthful-return clause as a typestate path rule over the whole case analysis (DESIGN 4/C06).

On every path of the swap entry points and of the four sign handlers:
  * the two cells are exchanged exactly once (RU: _swap_at_index ; chain with stored barcode: swap_positions),
  * the path returns "bars exchanged" (RU: true ; chain: columnIndex1) iff exactly one *_transpose ran - the only
    code that exchanges birth/death/indexToBar_ entries - and "bars kept" (false ; columnIndex2) iff none ran,
  * the transpose / handler chosen matches the signs of the two columns established by the guards on the path,
  * each *_transpose rewrites birth/death of the two positions according to the signs in its name.
"""
import itertools
import re

import json
import os

from rules import c05, findrule
from gsa import facts, ir, kinds, paths, predeval
from gsa.facts import Unit, rel, AnalysisBroken
from gsa.report import Check

TABLE = json.load(open(os.path.join(facts.VERIF, 'tables', 'c06.json')))
UNITS = [Unit('mx_pat', 'matrix_pat.cpp', ['src/Persistence_matrix/include/gudhi/Persistence_matrix/'], no_inst=True)]
RU = 'src/Persistence_matrix/include/gudhi/Persistence_matrix/ru_vine_swap.h'
CH = 'src/Persistence_matrix/include/gudhi/Persistence_matrix/chain_vine_swap.h'
HANDLERS = ('_positive_vine_swap', '_negative_vine_swap', '_positive_negative_vine_swap',
            '_negative_positive_vine_swap')


def sign_case(name):
    """('+','+') etc. from a handler / transpose name"""
    m = re.match(r'_?(positive|negative)(?:_(positive|negative))?_(?:vine_swap|transpose)$', name)
    if not m:
        return None
    a = '+' if m.group(1) == 'positive' else '-'
    b = a if m.group(2) is None else ('+' if m.group(2) == 'positive' else '-')
    return a, b


def path_signs(p, sign_vars):
    """sign pairs (col1 sign, col2 sign) consistent with the decisions of the path on the two bool locals"""
    ok = []
    for s1, s2 in itertools.product('+-', repeat=2):
        val = {}
        for name, (which, true_means) in sign_vars.items():
            sgn = s1 if which == 1 else s2
            val[name] = (sgn == true_means)
        good = True
        for c, pol, _ in p.conds:
            if isinstance(c, tuple) or c.get('k') in ('ForStmt', 'WhileStmt', 'DoStmt', 'CXXForRangeStmt'):
                continue

            def oracle(e, env, val=val):
                e2 = ir.skipcasts(e)
                if e2.get('k') == 'DeclRefExpr' and e2.get('n') in val:
                    return val[e2['n']]
                return None
            try:
                r = predeval.Evaluator(oracle).truth(c)
            except predeval.Unknown:
                continue        # a decision on something else
            if r != pol:
                good = False
                break
        if good:
            ok.append((s1, s2))
    return ok


def check_family(chk, F, cls, header, entry_names, swap_name, kept, exchanged, sign_vars, pairing_only):
    fns = {}
    for f in F.functions:
        if f.get('clsname') == cls and f['inst'] in (0, 2) and f['file'].endswith(header.split('/')[-1]):
            fns.setdefault(f['name'], []).append(f)
    for n in entry_names + list(HANDLERS):
        if n not in fns:
            raise AnalysisBroken('C06: %s::%s not found' % (cls, n))
    npaths = 0
    for name in entry_names + list(HANDLERS):
        f = fns[name][0]
        where = '%s:%d' % (header, f['line'])

        def cl(x):
            if ir.is_call(x):
                n = ir.call_name(x) or ''
                if n == swap_name:
                    return ['SWAP']
                if n.endswith('_transpose'):
                    return ['TR:' + n]
                if n in HANDLERS and n != name:
                    return ['DELEGATE:' + n]
            return []
        ps = paths.enumerate_paths(f, cl, loop_mode='01', keep_conds=True, cap=20000)
        bad_swap = bad_ret = bad_case = bad_order = None
        for p in ps:
            if p.end == 'throw':
                continue
            # arms compiled without a stored barcode keep no bars: nothing to exchange, nothing to report
            no_pairing = any(cx and not pol and ir.show(c).endswith('has_column_pairings')
                             for c, pol, cx in p.conds if not isinstance(c, tuple))
            tags = p.tags()
            swaps = tags.count('SWAP')
            trs = [t for t in tags if t.startswith('TR:')]
            dels = [t for t in tags if t.startswith('DELEGATE:')]
            npaths += 1
            signs = path_signs(p, sign_vars) if name in entry_names else [sign_case(name)]
            if dels:
                # the handler carries the obligations; the entry point must not swap/transposes on top of it
                if (swaps or trs or len(dels) != 1) and bad_swap is None:
                    bad_swap = (p, 'delegates to %s but also swaps/transposes itself' % dels)
                if len(signs) == 1 and sign_case(dels[0].split(':')[1]) != signs[0] and bad_case is None:
                    bad_case = (p, 'columns have signs %s but the handler %s is called' % (signs[0], dels[0][9:]))
                continue
            if pairing_only and no_pairing:
                if trs and bad_ret is None:
                    bad_ret = (p, 'transposes bars although no barcode is stored')
                continue
            if swaps != 1 and bad_swap is None:
                bad_swap = (p, '%s is called %d times' % (swap_name, swaps))
            rv = ir.show(p.value) if p.value is not None else ''
            if rv == exchanged:
                if len(trs) != 1 and bad_ret is None:
                    bad_ret = (p, 'returns %s (bars exchanged) after %d transpositions of the bars' % (rv, len(trs)))
            elif rv == kept:
                if trs and bad_ret is None:
                    bad_ret = (p, 'returns %s (bars kept) although %s ran' % (rv, trs[0][3:]))
            elif bad_ret is None:
                bad_ret = (p, 'returns %s, neither %s nor %s' % (rv, exchanged, kept))
            if trs and len(signs) == 1 and sign_case(trs[0][3:].split('::')[-1]) != signs[0] and bad_case is None:
                bad_case = (p, 'columns have signs %s but %s is applied' % (signs[0], trs[0][3:]))
            # a mixed-sign transposition is not symmetric in the two positions: when no barcode is stored it finds
            # the negative cell by reading R at one position (_get_birth), so it runs before the columns are exchanged
            if cls == 'RU_vine_swap' and trs and 'SWAP' in tags:
                tn = trs[0][3:]
                if 'positive_negative' in tn or 'negative_positive' in tn:
                    if tags.index('SWAP') < tags.index(trs[0]) and bad_order is None:
                        bad_order = (p, '%s runs after %s: without stored barcode it reads the pivot of the column '
                                     'that now holds the other cell' % (tn, swap_name))

        def descr(b):
            p, msg = b
            ds = '; '.join(('' if pol else '!') + ir.show(c)[:60] for c, pol, _ in p.conds
                           if not isinstance(c, tuple))[:300]
            return '%s [decisions: %s]' % (msg, ds)
        chk.ob('E2n-swap-once', '%s::%s exchanges the two cells exactly once on every path' % (cls, name), where,
               bad_swap is None, '' if bad_swap is None else descr(bad_swap), key='E2n|%s::%s|swap' % (cls, name))
        chk.ob('E2n-truthful', '%s::%s returns "exchanged" iff exactly one bar transposition ran' % (cls, name),
               where, bad_ret is None, '' if bad_ret is None else descr(bad_ret),
               key='E2n|%s::%s|return' % (cls, name))
        if cls == 'RU_vine_swap':
            chk.ob('E2-transpose-first', '%s::%s runs a mixed-sign transposition before it exchanges the columns'
                   % (cls, name), where, bad_order is None, '' if bad_order is None else descr(bad_order),
                   key='E2|%s::%s|transpose-first' % (cls, name))
        chk.ob('E7-case', '%s::%s applies the transposition / handler of the matching sign case' % (cls, name),
               where, bad_case is None, '' if bad_case is None else descr(bad_case),
               key='E7|%s::%s|case' % (cls, name))
    chk.count('swap paths analysed', npaths)
    return fns


def check_ru_transposes(chk, fns):
    """each RU *_transpose rewrites birth/death of positions columnIndex, columnIndex+1 according to its name"""
    n = 0
    for name, fl in fns.items():
        sc = sign_case(name)
        if sc is None or not name.endswith('_transpose'):
            continue
        f = fl[0]
        n += 1
        writes = []
        swaps_bar = False
        for x in ir.walk(f['body']):
            t = ir.write_target(x)
            if t is not None and x.get('op') == '=':
                tt = ir.skipcasts(t)
                if ir.is_call(tt) and ir.call_name(tt) in ('_birth', '_death'):
                    writes.append((ir.call_name(tt), ir.show(ir.call_args(tt)[0]), ir.show(x['c'][-1])))
            if ir.is_call(x) and ir.call_name(x) == 'swap':
                a = sorted(ir.show(y) for y in ir.call_args(x))
                if a == ['indexToBar_.at((columnIndex + 1))', 'indexToBar_.at(columnIndex)'] or \
                        a == sorted(['RUP::indexToBar_.at(columnIndex)', 'RUP::indexToBar_.at((columnIndex + 1))']):
                    swaps_bar = True
        fld = {'+': '_birth', '-': '_death'}
        exp = sorted([(fld[sc[0]], 'columnIndex', '(columnIndex + 1)'), (fld[sc[1]], '(columnIndex + 1)',
                                                                           'columnIndex')])
        ok = sorted(writes) == exp and swaps_bar
        chk.ob('E7-transpose', 'RU_vine_swap::%s moves %s of position i to i+1, %s of i+1 to i and swaps indexToBar_'
               % (name, fld[sc[0]][1:], fld[sc[1]][1:]), '%s:%d' % (RU, f['line']), ok,
               '' if ok else 'bar writes found: %s, indexToBar_ swapped: %s' % (sorted(writes), swaps_bar),
               key='E7|RU_vine_swap::%s|bars' % name)
    chk.expect_count('E7-transpose', 'RU transposes', n, 4)


def check_map_moves(chk, F):
    """moving a dictionary entry from key A to key B is written `C.emplace(B, C.at(A)); C.erase(A);` - the key that
    is erased must be the key that was read, never the key just created"""
    n = 0
    for f in F.functions:
        if f['inst'] not in (0, 2) or f.get('clsname') not in ('RU_vine_swap', 'Chain_vine_swap', 'Chain_barcode_swap',
                                                                  'RU_matrix', 'Chain_matrix'):
            continue
        for blk in ir.walk(f.get('body')):
            if blk.get('k') != 'CompoundStmt':
                continue
            st = blk.get('c') or []
            for a, b in zip(st, st[1:]):
                if not (ir.is_call(a) and ir.call_name(a) in ('emplace', 'try_emplace') and ir.is_call(b)
                        and ir.call_name(b) == 'erase'):
                    continue
                ca, cb = ir.show(ir.call_receiver(a)), ir.show(ir.call_receiver(b))
                args = ir.call_args(a)
                if ca != cb or len(args) != 2:
                    continue
                v = ir.skipcasts(args[1])
                if not (ir.is_call(v) and ir.call_name(v) == 'at' and ir.show(ir.call_receiver(v)) == ca):
                    continue
                n += 1
                kb, ka, ke = ir.show(args[0]), ir.show(ir.call_args(v)[0]), ir.show(ir.call_args(b)[0])
                ok = ke == ka and kb != ka
                chk.ob('E2-map-move', '%s::%s moves %s[%s] to key %s and erases the old key' % (
                    f['clsname'], f['name'], ca.split('->')[-1], ka, kb), '%s:%s' % (rel(f['file']), b.get('l')), ok,
                    '' if ok else 'entry read at key %s, created at key %s, but key %s is erased' % (ka, kb, ke),
                    key='E2|%s::%s|map-move|%s' % (f['clsname'], f['name'], ka))
    chk.expect_count('E2-map-move', 'dictionary entry moves', n, 4)


CHAIN_FILES = ('Chain_matrix.h', 'chain_vine_swap.h', 'chain_pairing.h', 'chain_rep_cycles.h',
               'chain_column_extra_properties.h')
CHAIN_CONTAINERS = {'pivotToColumnIndex_': ('ID', 'MAT'), 'pivotToPosition_': ('ID', 'POS'), 'matrix_': ('MAT', None),
                    'positionToIndex_': ('POS', 'MAT'), 'idToIndex_': ('ID', 'MAT')}
OVERLAY_FILES = ('Position_to_index_overlay.h', 'Id_to_index_overlay.h')      # indexing layers on top of the chain matrix


def check_index_kinds(chk, F):
    """E11: the three index spaces of the chain matrix (column index, cell ID, filtration position) never meet: every
    dictionary is indexed with its key kind, every argument has the kind of its parameter, comparisons and
    assignments stay within one kind (kinds read from the declared typedef names Index / ID_index / Pos_index)"""
    fns = [f for f in F.functions if f['inst'] in (0, 2) and f['file'].split('/')[-1] in CHAIN_FILES]
    if len(fns) < 80:
        raise AnalysisBroken('C06: chain family not found (%d functions)' % len(fns))
    kc = kinds.KindChecker(fns, CHAIN_CONTAINERS)
    per_fn = {}
    for f in fns:
        before = len(kc.reports)
        c0 = kc.checked
        kc.run(f)
        per_fn[id(f)] = (f, list(zip(kc.reports[before:], kc.report_sigs[before:])), kc.checked - c0)
    # the position overlay on top of the chain matrix: its own functions, read against the chain signatures it calls
    # (an own instance: the overlay re-declares the public interface with other index kinds)
    ov = [f for f in F.functions if f['inst'] in (0, 2) and f['file'].split('/')[-1] in OVERLAY_FILES and
          f.get('body') is not None]
    if len(ov) < 20:
        raise AnalysisBroken('C06: position overlay not found (%d functions)' % len(ov))
    chain_only = [f for f in fns if f.get('clsname') in ('Chain_matrix', 'Chain_vine_swap')]
    kc2 = kinds.KindChecker(chain_only, CHAIN_CONTAINERS, check_returns=True,
                            extra_sigs={('_id_to_index', 1): (['ID'], 'MAT')})
    for f in ov:
        before, c0 = len(kc2.reports), kc2.checked
        kc2.run(f)
        per_fn[id(f)] = (f, list(zip(kc2.reports[before:], kc2.report_sigs[before:])), kc2.checked - c0)
    chk.count('index-kind meetings checked', kc.checked + kc2.checked)
    ok = TABLE['kind_conflations_ok']
    for f, reps, n in per_fn.values():
        if n == 0 and not reps:
            continue
        owner = f.get('clsname') or '-'
        real, seen = [], {}
        for (node, msg), sig in reps:
            k = '%s::%s|%s' % (owner, f['name'], sig)
            seen[k] = seen.get(k, 0) + 1
            if k in ok and seen[k] <= ok[k]['n']:
                chk.count('documented kind conflations')
                continue
            real.append((node, msg, sig))
        chk.ob('E11-index-kinds', '%s::%s keeps column indices, cell IDs and positions apart (%d meetings)'
               % (owner, f['name'], n), '%s:%d' % (rel(f['file']), f['line']), not real,
               '; '.join('line %s: %s' % (nd.get('l'), m) for nd, m, _ in real[:3]),
               key='E11|%s::%s|%s' % (owner, f['name'], real[0][2] if real else ''))
    chk.expect_count('E11-index-kinds', 'kind meetings', kc.checked, 150)


ID_ORDER_OK = {
    'Chain_matrix::remove_last': 'arm without stored positions (no stored barcode): the class has nothing else to go by '
                                 'and the source documents that identifiers must then increase along the filtration',
}


def check_identifier_order(chk, F):
    """E11-id-order: a transposition exchanges the positions of two cells and leaves their identifiers alone, so in a
    matrix with vine updates the order of two identifiers says nothing about the order of the cells. In the chain
    family no two values of identifier kind are compared with < or > except in an arm compiled without vine updates
    (exemptions listed with their reason)."""
    fns = [f for f in F.functions if f['inst'] in (0, 2) and f['file'].split('/')[-1] in CHAIN_FILES and
           f.get('body') is not None]
    kc = kinds.KindChecker(fns, CHAIN_CONTAINERS)
    n = 0
    total = 0
    for f in fns:
        env = {}
        for p_ in f.get('params', []):
            env[p_.get('id')] = ('scalar', kc.param_kind(p_), kinds.elem_kind_of_type(p_.get('t')))
        kc.fn, kc.ret_kind = f, None
        kc.walk(f['body'], env)
        par = None
        for x in ir.walk(f['body']):
            if x.get('k') not in ('BinaryOperator', 'CXXOperatorCallExpr') or x.get('op') not in ('<', '>', '<=', '>='):
                continue
            ab = x['c'] if x['k'] == 'BinaryOperator' else ir.call_args(x)
            if len(ab) != 2:
                continue
            total += 1
            if kc.kind(ab[0], env) != 'ID' or kc.kind(ab[1], env) != 'ID':
                continue
            n += 1
            par = par or ir.parents(f['body'])
            vine_off = False
            cur = x
            while id(cur) in par:
                up = par[id(cur)]
                if up.get('k') == 'IfStmt' and up.get('constexpr'):
                    t = ir.show(up.get('cond')).replace(' ', '').replace('Master_matrix::Option_list::', '')
                    if (t == 'has_vine_update' and cur is up.get('else')) or \
                            (t == '!has_vine_update' and cur is up.get('then')):
                        vine_off = True
                cur = up
            owner = '%s::%s' % (f.get('clsname') or '-', f['name'])
            ok = vine_off or owner in ID_ORDER_OK
            chk.ob('E11-id-order', '%s line %s: two identifiers are ordered only where no transposition can have '
                   'reordered the cells%s' % (owner, x.get('l'), '' if vine_off or not ok else ' (exempt: %s)' %
                                              ID_ORDER_OK[owner]), '%s:%s' % (rel(f['file']), x.get('l')), ok,
                   '' if ok else '`%s` orders two cell identifiers in code compiled with vine updates: after a '
                   'transposition the larger identifier is not the later cell' % ir.show(x)[:80],
                   key='E11|%s|id-order' % owner)
    # the identifier overlay: a column index is a position only for boundary-type matrices; for a chain matrix it is a
    # storage slot (a column keeps it when it moves with its cell), so two column indices are ordered only in the
    # boundary-type arm
    ov = [f for f in F.functions if f['inst'] in (0, 2) and f['file'].endswith('Id_to_index_overlay.h') and
          f.get('body') is not None]
    kc3 = kinds.KindChecker([g for g in fns if g.get('clsname') in ('Chain_matrix', 'Chain_vine_swap')],
                            CHAIN_CONTAINERS, extra_sigs={('_id_to_index', 1): (['ID'], 'MAT')})
    n_slot = 0
    for f in ov:
        env = {}
        for p_ in f.get('params', []):
            env[p_.get('id')] = ('scalar', kc3.param_kind(p_), kinds.elem_kind_of_type(p_.get('t')))
        kc3.fn, kc3.ret_kind = f, None
        kc3.walk(f['body'], env)
        par = None
        for x in ir.walk(f['body']):
            if x.get('k') not in ('BinaryOperator', 'CXXOperatorCallExpr') or x.get('op') not in ('<', '>', '<=', '>='):
                continue
            ab = x['c'] if x['k'] == 'BinaryOperator' else ir.call_args(x)
            if len(ab) != 2 or kc3.kind(ab[0], env) != 'MAT' or kc3.kind(ab[1], env) != 'MAT':
                continue
            # loop bounds `i < nextIndex_` enumerate the slots, they do not order two cells
            if any((ir.skipcasts(y) or {}).get('n') in ('nextIndex_',) for y in ab):
                continue
            n_slot += 1
            par = par or ir.parents(f['body'])
            boundary_arm = False
            cur = x
            while id(cur) in par:
                up = par[id(cur)]
                if up.get('k') == 'IfStmt' and up.get('constexpr') and cur is up.get('then') and ir.show(
                        up.get('cond')).replace(' ', '').endswith('is_of_boundary_type'):
                    boundary_arm = True
                cur = up
            chk.ob('E11-id-order', 'Id_to_index_overlay::%s line %s: two column indices are ordered only where the '
                   'column index is the position (boundary-type arm)' % (f['name'], x.get('l')),
                   '%s:%s' % (rel(f['file']), x.get('l')), boundary_arm, '' if boundary_arm else
                   '`%s` also runs for chain matrices, whose columns keep their index when they move with their cells: '
                   'the smaller index is not the earlier cell' % ir.show(x)[:60],
                   key='E11|Id_to_index_overlay::%s|slot-order' % f['name'])
    chk.expect_count('E11-id-order', 'ordered comparisons of column indices in the identifier overlay', n_slot, 2)
    chk.count('ordered comparisons inspected in the chain family', total)
    chk.expect_count('E11-id-order', 'ordered comparisons of identifiers', n, 1)
    chk.expect_count('E11-id-order', 'ordered comparisons in the chain family', total, 10)


def check_last_cell(chk, F):
    """E11-last-cell: "removals of the last cell": a transposition exchanges positions, not identifiers, so where vine
    updates are on and the class stores the positions (pivotToPosition_, with the stored barcode) the last cell is
    the one of highest position. A maximum search over the *identifiers* of the pivot dictionary (`p.first > best`) that
    selects the column to remove is accepted only in an arm compiled without vine updates or without stored positions
    (there the caller provides the order and the documentation asks for increasing identifiers)."""
    fs = [f for f in F.functions if f.get('clsname') == 'Chain_matrix' and f['name'] == 'remove_last' and
          f.get('inst') in (0, 2) and f.get('body') is not None]
    if len(fs) != 1:
        raise AnalysisBroken('C06: Chain_matrix::remove_last not found')
    f = fs[0]
    par = ir.parents(f['body'])
    n = 0
    for lp in ir.walk(f['body']):
        if lp.get('k') != 'CXXForRangeStmt':
            continue
        rng = ir.show(lp.get('range'))
        var = (lp.get('var') or {}).get('n')
        cmpk = [x for x in ir.walk(lp.get('body')) if x.get('k') in ('BinaryOperator', 'CXXOperatorCallExpr') and
                x.get('op') in ('>', '<', '>=', '<=') and ('%s.first' % var) in ir.show(x).replace(' ', '')]
        cmpv = [x for x in ir.walk(lp.get('body')) if x.get('k') in ('BinaryOperator', 'CXXOperatorCallExpr') and
                x.get('op') in ('>', '<', '>=', '<=') and ('%s.second' % var) in ir.show(x).replace(' ', '')]
        if not cmpk and not cmpv:
            continue
        n += 1
        by_identifier = bool(cmpk) and 'pivotToPosition_' not in rng
        ok = True
        if by_identifier:
            # constexpr arms in force, evaluated on the four values of (vine updates, stored positions)
            decisions = []
            cur = lp
            while id(cur) in par:
                up = par[id(cur)]
                if up.get('k') == 'IfStmt' and up.get('constexpr'):
                    if cur is up.get('then'):
                        decisions.append((up.get('cond'), True))
                    elif cur is up.get('else'):
                        decisions.append((up.get('cond'), False))
                cur = up

            def evc(c, vine, pairs):
                c = ir.skipcasts(c)
                k = c.get('k')
                if k == 'ParenExpr':
                    return evc(c['c'][0], vine, pairs)
                if k == 'UnaryOperator' and c.get('op') == '!':
                    r = evc(c['c'][0], vine, pairs)
                    return None if r is None else not r
                if k == 'BinaryOperator' and c.get('op') in ('&&', '||'):
                    a_, b_ = evc(c['c'][0], vine, pairs), evc(c['c'][1], vine, pairs)
                    if c['op'] == '&&':
                        return False if (a_ is False or b_ is False) else (True if (a_ and b_) else None)
                    return True if (a_ is True or b_ is True) else (False if (a_ is False and b_ is False) else None)
                t = ir.show(c).replace(' ', '')
                if t.endswith('has_vine_update'):
                    return vine
                if t.endswith('has_column_pairings'):
                    return pairs
                return None
            ok = not all(evc(c, True, True) in (None, pol) for c, pol in decisions)
        chk.ob('E11-last-cell', 'Chain_matrix::remove_last: the search at line %s selects the last cell by %s' % (
            lp.get('l'), 'identifier (arm without vine updates or without stored positions)' if by_identifier else
            'position'), '%s:%s' % (rel(f['file']), lp.get('l')), ok, '' if ok else
            'the column of highest *identifier* in `%s` is removed although vine updates are on and the positions are '
            'stored: after a transposition of the last two cells the last cell has the smaller identifier' % rng,
            key='E11|Chain_matrix::remove_last|last-cell')
    chk.expect_count('E11-last-cell', 'maximum searches in Chain_matrix::remove_last', n, 1)


def check_overlay_removals(chk, F):
    """Identifier indexing: the overlay keeps identifier -> position. (a) E2-inverse-lockstep: a loop that exchanges
    two entries of a dictionary, looking them up through a local inverse table (`swap(M.at(L[a]), M.at(L[b]))`), also
    exchanges `L[a]` and `L[b]` in the same iteration - otherwise the table is stale from the second iteration on.
    (b) E8-targeted-removal: the entry `remove_last` forgets is the one the guards (loop exits and ifs, not
    assertions) establish to hold the position given back: abstract states (slot == position given back, slot is
    null) enumerated, for the map arm (iterator) and the vector arm (slot) alike."""
    fns = [f for f in F.functions if f.get('clsname') == 'Id_to_index_overlay' and f.get('inst') in (0, 2) and
           f.get('body') is not None]
    if not fns:
        raise AnalysisBroken('C06: Id_to_index_overlay not found')
    n_sw = 0
    for f in fns:
        locals_ = {x['n'] for x in ir.walk(f['body']) if x.get('k') == 'VarDecl' and 'vector' in (x.get('t') or '')}
        for lp in ir.walk(f['body']):
            if lp.get('k') not in ('ForStmt', 'WhileStmt'):
                continue
            swaps = [x for x in ir.walk(lp.get('body')) if ir.is_call(x) and ir.call_name(x) == 'swap' and
                     len(ir.call_args(x)) == 2]
            for sw in swaps:
                a0, a1 = [ir.show(y).replace(' ', '') for y in ir.call_args(sw)]
                for L in locals_:
                    ma = re.search(r'%s\[([^\]]+)\]' % re.escape(L), a0)
                    mb = re.search(r'%s\[([^\]]+)\]' % re.escape(L), a1)
                    if not ma or not mb or a0 == '%s[%s]' % (L, ma.group(1)):
                        continue
                    n_sw += 1
                    want = {'%s[%s]' % (L, ma.group(1)), '%s[%s]' % (L, mb.group(1))}
                    ok = any({ir.show(y).replace(' ', '') for y in ir.call_args(s2)} == want for s2 in swaps)
                    chk.ob('E2-inverse-lockstep', '%s::%s: the loop at line %s exchanges `%s[%s]` and `%s[%s]` when it '
                           'exchanges the dictionary entries they designate' % (f['clsname'], f['name'], lp.get('l'),
                           L, ma.group(1), L, mb.group(1)), '%s:%s' % (rel(f['file']), sw.get('l')), ok,
                           '' if ok else 'the inverse table `%s` is computed before the loop and not updated: from the '
                           'second iteration on, the entries of other identifiers are exchanged' % L,
                           key='E2|%s::%s|inverse-lockstep' % (f['clsname'], f['name']))
    chk.expect_count('E2-inverse-lockstep', 'exchanges through a local inverse table', n_sw, 1)

    # (c) position overlay: which column sits at a position after a transposition is only known from the answer of the
    # underlying vine_swap (columns either move with their cells or stay and exchange pivots): positionToIndex_ is
    # changed by exchanging two entries under that answer, by appending or by dropping the last - never by copying one
    # entry over another (a wholesale shift assumes the columns always moved)
    pfns = [f for f in F.functions if f.get('clsname') == 'Position_to_index_overlay' and f.get('inst') in (0, 2) and
            f.get('body') is not None]
    if len(pfns) < 20:
        raise AnalysisBroken('C06: Position_to_index_overlay not found')
    n_w = 0
    for f in pfns:
        for x in ir.walk(f['body']):
            t = ir.write_target(x)
            if t is None or x.get('op') != '=' or not ir.show(t).replace(' ', '').startswith('positionToIndex_['):
                continue
            n_w += 1
            rhs = ir.show(x['c'][1]).replace(' ', '')
            ok = not rhs.startswith('positionToIndex_[') or f['kind'] in ('ctor', 'copy_ctor', 'move_ctor')
            chk.ob('E2-position-map', 'Position_to_index_overlay::%s line %s does not copy one entry of positionToIndex_ '
                   'over another' % (f['name'], x.get('l')), '%s:%s' % (rel(f['file']), x.get('l')), ok, '' if ok else
                   '`%s`: the entries are shifted before the transpositions have answered whether the columns moved with '
                   'their cells or exchanged their pivots' % ir.show(x)[:70],
                   key='E2|Position_to_index_overlay::%s|position-map' % f['name'])
    swaps_ok = any(f['name'] == 'vine_swap' and ir.contains(f['body'], lambda y: y.get('k') == 'IfStmt' and ir.contains(
        y.get('then'), lambda z: ir.is_call(z) and ir.call_name(z) == 'swap' and 'positionToIndex_' in ir.show(z)))
        for f in pfns)
    if not swaps_ok:
        raise AnalysisBroken('C06: Position_to_index_overlay::vine_swap no longer exchanges positionToIndex_ entries '
                             'under the answer of the underlying swap')
    chk.expect_count('E2-position-map', 'element writes of positionToIndex_', n_w, 2)

    fs = [f for f in fns if f['name'] == 'remove_last']
    if len(fs) != 1:
        raise AnalysisBroken('C06: Id_to_index_overlay::remove_last not found')
    f = fs[0]
    par_map = ir.parents(f['body'])
    n_rm = 0
    for x in ir.walk(f['body']):
        slot = None
        if ir.is_call(x) and ir.call_name(x) == 'erase' and ir.call_args(x):
            a = ir.skipcasts(ir.call_args(x)[0])
            if a is not None and a.get('k') == 'DeclRefExpr':
                slot = a['n'] + '->second'
        t = ir.write_target(x)
        if t is not None and x.get('op') == '=' and 'get_null_value' in ir.show(x['c'][1]):
            tt = ir.show(t).replace(' ', '')
            if tt.startswith('_id_to_index(') or 'idToIndex_' in tt:
                slot = tt
        if slot is None:
            continue
        n_rm += 1
        guards = []
        node = x
        while id(node) in par_map:
            pn = par_map[id(node)]
            if pn.get('k') == 'IfStmt' and not pn.get('constexpr'):
                if node is pn.get('then'):
                    guards.append((pn.get('cond'), True))
                elif node is pn.get('else'):
                    guards.append((pn.get('cond'), False))
            elif pn.get('k') == 'CompoundStmt':
                for sib in pn.get('c') or []:
                    if sib is node:
                        break
                    if sib.get('k') == 'WhileStmt' and not ir.contains(
                            sib.get('body'), lambda y: y.get('k') in ('BreakStmt', 'ReturnStmt')):
                        guards.append((sib.get('cond'), False))
            node = pn

        def holds(c, eq, null):
            c = ir.skipcasts(c)
            if c is None:
                return None
            k = c.get('k')
            if k == 'ParenExpr':
                return holds(c['c'][0], eq, null)
            if k == 'UnaryOperator' and c.get('op') == '!':
                r = holds(c['c'][0], eq, null)
                return None if r is None else not r
            if k == 'BinaryOperator' and c.get('op') in ('&&', '||'):
                a_, b_ = holds(c['c'][0], eq, null), holds(c['c'][1], eq, null)
                if c['op'] == '&&':
                    return False if (a_ is False or b_ is False) else (True if a_ and b_ else None)
                return True if (a_ is True or b_ is True) else (False if (a_ is False and b_ is False) else None)
            if k in ('BinaryOperator', 'CXXOperatorCallExpr') and c.get('op') in ('==', '!='):
                ab = c['c'] if k == 'BinaryOperator' else ir.call_args(c)
                ta, tb = [ir.show(y).replace(' ', '') for y in ab]
                for p_, q_ in ((ta, tb), (tb, ta)):
                    if p_ == slot or p_ == '(' + slot + ')':
                        if q_ == 'nextIndex_':
                            return eq if c['op'] == '==' else not eq
                        if 'get_null_value' in q_:
                            return null if c['op'] == '==' else not null
            return None
        bad = None
        for eq, null in ((True, False), (False, True), (False, False)):
            if all(holds(c, eq, null) in (None, pol) for c, pol in guards) and not eq and bad is None:
                bad = 'a null slot' if null else 'the slot of another cell'
        chk.ob('E8-targeted-removal', 'Id_to_index_overlay::remove_last forgets `%s` only where the guards establish '
               'that it holds the position given back' % slot, '%s:%s' % (rel(f['file']), x.get('l')), bad is None,
               '' if bad is None else 'the guards before the removal also admit %s: after a vine swap the cell at the '
               'last position is not the one with the largest identifier (an assertion does not guard a release '
               'build)' % bad, key='E8|Id_to_index_overlay::remove_last|targeted|%s' % slot.split('(')[0].split('-')[0])
    chk.expect_count('E8-targeted-removal', 'removals in Id_to_index_overlay::remove_last', n_rm, 2)


def run(tier, replay=None):
    chk = Check('C06', tier,
                'Static decision of the truthful-return clause of vineyard swaps on every path of the case analysis '
                '(RU: vine_swap, vine_swap_with_z_eq_1_case and the four sign handlers; chain: the same six): the two '
                'cells are exchanged exactly once, the returned value says "bars exchanged" iff exactly one bar '
                'transposition ran and "bars kept" iff none ran, the transposition / handler applied is the one of '
                'the sign case established by the guards, and every RU transposition rewrites birth/death/indexToBar_ '
                'of the two positions according to its sign case. Equivalence with a matrix rebuilt from scratch is '
                'not decided.',
                'typestate / counting path rule over the clang AST (E2n), guard evaluation on sign valuations (E7)')
    F = facts.extract(UNITS)
    ru = check_family(chk, F, 'RU_vine_swap', RU, ['vine_swap', 'vine_swap_with_z_eq_1_case'], '_swap_at_index',
                      kept='false', exchanged='true',
                      sign_vars={'iIsPositive': (1, '+'), 'iiIsPositive': (2, '+')}, pairing_only=False)
    check_ru_transposes(chk, ru)
    check_map_moves(chk, F)
    check_index_kinds(chk, F)
    c05.run_row_kinds(chk, F, only=('ru_vine_swap.h',), floor=100)
    findrule.run(chk, F, ('ru_vine_swap.h', 'chain_vine_swap.h'), {}, 'C06', 2)
    check_overlay_removals(chk, F)
    check_last_cell(chk, F)
    check_identifier_order(chk, F)
    check_family(chk, F, 'Chain_vine_swap', CH, ['vine_swap', 'vine_swap_with_z_eq_1_case'], 'swap_positions',
                 kept='columnIndex2', exchanged='columnIndex1',
                 sign_vars={'col1IsNeg': (1, '-'), 'col2IsNeg': (2, '-')}, pairing_only=True)
    check_paired_direction(chk, F)
    check_position_row_map(chk, F)
    check_sorted_by_position(chk, F)
    check_dictionary_cover(chk, F)
    check_reduction_order(chk, F)
    chk.assumptions += ['clang 14 parser; template patterns (all if-constexpr arms, contradictory arms pruned)',
                        'the *_transpose functions are the only code exchanging bars (checked by name)']
    return chk


def check_position_row_map(chk, F):
    """E2-position-row-map: with vine updates an RU matrix keeps position -> row identifier for cells whose identifier
    differs from their position (`_positionToRowIdx()`, the member of RU_vine_swap or, with a stored barcode, the map of
    the pairing). insert_boundary adds the entry under `has_vine_update`; remove_last gives the position back, so for
    every valuation of (has_vine_update, has_column_pairings) with vine updates exactly one erase of that entry runs on
    its way: in RU_matrix::remove_last itself (its guards evaluated on the valuation) or in RU_pairing::_remove_last
    (reached through _remove_last_in_barcode when the barcode is stored). A stale entry makes the next cell inserted at
    that position read the row of the removed cell."""
    def fn(cls, name):
        fs = [f for f in F.functions if f.get('clsname') == cls and f['name'] == name and f.get('inst') in (0, 2) and
              f.get('body') is not None]
        if not fs:
            raise AnalysisBroken('C06: %s::%s not found' % (cls, name))
        return fs[0]
    rl = fn('RU_matrix', 'remove_last')
    pr = fn('RU_pairing', '_remove_last')

    def guards_hold(node, root, val):
        par = ir.parents(root)
        cur = node
        while id(cur) in par:
            up = par[id(cur)]
            if up.get('k') == 'IfStmt' and up.get('constexpr') and cur is not up.get('cond'):
                t = ir.show(up.get('cond')).replace(' ', '').replace('Master_matrix::Option_list::', '').strip('()')
                env = {'has_vine_update': val[0], 'has_column_pairings': val[1]}
                try:
                    v = eval(t.replace('&&', ' and ').replace('||', ' or ').replace('!', ' not '), {}, env)
                except Exception:
                    raise AnalysisBroken('C06: guard `%s` of remove_last not understood' % t)
                if (cur is up.get('then')) != bool(v):
                    return False
            cur = up
        return True
    erases = [x for x in ir.walk(rl['body']) if ir.is_call(x) and ir.call_name(x) == 'erase' and
              '_positionToRowIdx()' in ir.show(x)]
    pair_erases = [x for x in ir.walk(pr['body']) if ir.is_call(x) and ir.call_name(x) == 'erase' and
                   'map_' in ir.show(x)]
    calls_pairing = ir.contains(rl['body'], lambda y: ir.is_call(y) and ir.call_name(y) == '_remove_last_in_barcode')
    for vine, pairings in ((True, False), (True, True)):
        k = sum(1 for x in erases if guards_hold(x, rl['body'], (vine, pairings)))
        if pairings and calls_pairing:
            k += 1 if pair_erases else 0
        chk.ob('E2-position-row-map', 'RU_matrix::remove_last gives the position -> row entry back exactly once '
               '(vine updates, %s stored barcode)' % ('with' if pairings else 'without'),
               '%s:%d' % (rel(rl['file']), rl['line']), k == 1,
               '' if k == 1 else '%d erases of the entry run in this option set: %s' % (
                   k, 'the entry of the removed position stays, the next cell inserted there reads the row of the '
                   'removed cell' if k == 0 else 'erased twice'),
               key='E2|RU_matrix::remove_last|position-row-map|%s' % ('barcode' if pairings else 'no-barcode'))


def check_sorted_by_position(chk, F):
    """E11-sort-by-position: in a chain matrix a column index is a storage slot (a column keeps it when it moves with its
    cell): where a function compiled with vine updates sorts a container of column indices, it does so with a comparator
    that goes through the positions (`pivotToPosition`, `get_pivot`); a plain std::sort orders the slots, not the cells."""
    n = 0
    for f in F.functions:
        if f.get('clsname') not in ('Chain_matrix', 'Chain_vine_swap') or f.get('inst') not in (0, 2) or \
                f.get('body') is None:
            continue
        for x in ir.walk(f['body']):
            if not (ir.is_call(x) and ir.call_name(x) == 'sort'):
                continue
            args = ir.call_args(x)
            cont = ir.show(args[0]).split('.')[0] if args else ''
            decl = [y for y in ir.walk(f['body']) if y.get('k') == 'VarDecl' and y.get('n') == cont]
            if not decl or 'Index' not in (decl[0].get('t') or '') or 'ID_index' in (decl[0].get('t') or ''):
                continue
            n += 1
            cmp_text = ' '.join(ir.show(y) for y in ir.walk(args[2])) if len(args) == 3 else ''
            ok = len(args) == 3 and any(w in cmp_text for w in ('pivotToPosition', 'get_pivot', 'position'))
            chk.ob('E11-sort-by-position', '%s::%s sorts the column indices `%s` through their positions' % (
                f['clsname'], f['name'], cont), '%s:%s' % (rel(f['file']), x.get('l')), ok,
                '' if ok else '`%s` orders storage slots: after a transposition in which the columns moved with their '
                'cells the slots are not in the order of the filtration' % ir.show(x)[:60],
                key='E11|%s::%s|sort-by-position' % (f['clsname'], f['name']))
    chk.expect_count('E11-sort-by-position', 'sorts of column indices in the chain matrix', n, 1)


def check_paired_direction(chk, F):
    """E2-paired-direction: a paired positive chain g and the chain h that kills it satisfy d(h) = g, and the boundary
    is linear: when a swap handler adds chain a onto chain b, the chains paired with them are added in the same
    direction (partner(a) onto partner(b)) on the same path - otherwise d(h) != g afterwards and the next case
    analysis involving the partners takes the wrong branch. Operands are normalised to (index | partner, 1 | 2)."""
    fns = [f for f in F.functions if f.get('clsname') == 'Chain_vine_swap' and f.get('inst') in (0, 2) and
           f.get('body') is not None and f['name'] in HANDLERS]
    n = 0
    for f in fns:
        if len(f.get('params', [])) != 2:
            continue
        i1, i2 = f['params'][0]['n'], f['params'][1]['n']
        # locals: colN = get_column(indexN) ; pairedIndexN = colN.get_paired_chain_index()
        col = {}
        par = {}
        for x in ir.walk(f['body']):
            if x.get('k') == 'VarDecl' and x.get('init') is not None:
                t = ir.show(x['init'])
                if 'get_column(%s)' % i1 in t:
                    col[x['n']] = 1
                elif 'get_column(%s)' % i2 in t:
                    col[x['n']] = 2
        for x in ir.walk(f['body']):
            if x.get('k') == 'VarDecl' and x.get('init') is not None:
                t = ir.show(x['init'])
                for c_, k_ in col.items():
                    if t.replace(' ', '') == '%s.get_paired_chain_index()' % c_:
                        par[x['n']] = k_

        def norm(e):
            t = ir.show(e).replace(' ', '')
            if t == i1:
                return 'I1'
            if t == i2:
                return 'I2'
            if t in par:
                return 'P%d' % par[t]
            for c_, k_ in col.items():
                if t == '%s.get_paired_chain_index()' % c_:
                    return 'P%d' % k_
            return None

        def cl(x):
            if ir.is_call(x) and ir.call_name(x) == 'add_to' and len(ir.call_args(x)) == 2:
                a, b = [norm(y) for y in ir.call_args(x)]
                if a and b:
                    return ['ADD:%s>%s' % (a, b)]
            return []
        if not ir.contains(f['body'], lambda y: any(t.startswith('ADD:P') for t in cl(y))):
            continue
        ps = paths.enumerate_paths(f, cl, loop_mode='01', keep_conds=False, cap=20000)
        bad = None
        for p in ps:
            if p.end == 'throw':
                continue
            adds = [t[4:] for t in p.tags() if t.startswith('ADD:')]
            pp = sorted(t.replace('P', '') for t in adds if t.startswith('P'))
            ii = sorted(t.replace('I', '') for t in adds if t.startswith('I'))
            # two negative cells are both paired: whatever is added between them is added between their partners
            always_paired = f['name'] == '_negative_vine_swap' and set(par.values()) == {1, 2}
            if (pp or (always_paired and ii)) and pp != ii and bad is None:
                bad = (adds, p)
        n += 1
        chk.ob('E2-paired-direction', 'Chain_vine_swap::%s: partners are added in the direction of their chains on '
               'every path (%d paths)' % (f['name'], len(ps)), '%s:%d' % (rel(f['file']), f['line']), bad is None,
               '' if bad is None else 'a path performs the additions %s: the partners are combined %s while the '
               'chains themselves are combined %s' % (bad[0], [t for t in bad[0] if t.startswith('P')],
                                                      [t for t in bad[0] if t.startswith('I')]),
               key='E2|Chain_vine_swap::%s|paired-direction' % f['name'])
    chk.expect_count('E2-paired-direction', 'handlers adding paired chains', n, 2)


def check_dictionary_cover(chk, F):
    """E5b: with the vector container the RU pivot dictionary is a std::vector subscripted without a bound test by the
    swap code at the positions of the two swapped cells (whatever their sign). Wherever that is so, every insertion
    makes the vector cover the index of the inserted cell: the size handed to resize() in RU_matrix::_insert_boundary
    is data-dependent on the index of the new column (a dictionary sized for the pivots seen so far is too short as
    soon as the last cells are positive)."""
    sw = [f for f in F.functions if f.get('clsname') == 'RU_vine_swap' and f.get('inst') in (0, 2) and
          f.get('body') is not None]

    def names_dict(e):
        e = ir.skipcasts(e)
        while e is not None:
            if e.get('n') == 'pivotToColumnIndex_':
                return True
            c = e.get('c') or []
            if e.get('k') in ir.MEMBER_KINDS and c:
                e = ir.skipcasts(c[0])
                continue
            return False
        return False
    unguarded = []
    for f in sw:
        for x in ir.walk(f['body']):
            base = None
            if x.get('k') == 'ArraySubscriptExpr':
                base = x['c'][0]
            elif x.get('k') == 'CXXOperatorCallExpr' and x.get('op') == '[]':
                base = ir.call_args(x)[0]
            if base is not None and names_dict(base):
                unguarded.append((f, x))
    ins = [f for f in F.functions if f.get('clsname') == 'RU_matrix' and f['name'] == '_insert_boundary' and
           f.get('inst') in (0, 2) and f.get('body') is not None]
    if len(ins) != 1:
        raise AnalysisBroken('C06: RU_matrix::_insert_boundary not found')
    f = ins[0]
    where = '%s:%d' % (rel(f['file']), f['line'])
    if not unguarded:
        chk.ob('E5b-dictionary-cover', 'the swap code does not subscript the pivot dictionary without a bound test',
               where, True, '', key='E5b|RU_matrix::_insert_boundary|dictionary-cover', nontrivial=False)
        return
    idx = f['params'][0]['n'] if f.get('params') else None

    # lower-bound provenance, flow-sensitive: env maps a local to the list of its alternative reaching values; a value
    # is "anchored" when it is the new column's index, an arithmetic expression over anchored values that does not
    # subtract, the mapped value of a lookup of an anchored key (the row of that position), or a maximum with one
    def anchored(e, env, depth=0):
        e = ir.skipcasts(e)
        if e is None or depth > 6:
            return False
        k = e.get('k')
        if k == 'ParenExpr':
            return anchored(e['c'][0], env, depth + 1)
        if k == 'DeclRefExpr':
            if e.get('n') == idx:
                return True
            alts = env.get(e.get('n'))
            return bool(alts) and all(alts)
        if k == 'BinaryOperator' and e.get('op') in ('+', '*'):
            return any(anchored(c, env, depth + 1) for c in e['c'])
        if k in ir.MEMBER_KINDS and e.get('n') == 'second' and e.get('c'):
            return anchored(e['c'][0], env, depth + 1)          # it->second with it = find(anchored key)
        if ir.is_call(e):
            nm = ir.call_name(e)
            if nm in ('find', 'at', '_get_row_id_from_position') and ir.call_args(e):
                return anchored(ir.call_args(e)[-1], env, depth + 1)
            if nm == 'max':
                return any(anchored(a, env, depth + 1) for a in ir.call_args(e))
        if k == 'ConditionalOperator':
            return anchored(e['c'][1], env, depth + 1) and anchored(e['c'][2], env, depth + 1)
        return False
    verdicts = []

    def raises_only(cond, var, rhs):
        """`if (.. && rhs > var) var = rhs;` keeps the lower bound of var"""
        t = ir.show(cond).replace(' ', '')
        r, v = ir.show(rhs).replace(' ', ''), var
        return ('%s>%s' % (r, v)) in t or ('%s<%s' % (v, r)) in t or ('%s>=%s' % (r, v)) in t or \
               ('%s<=%s' % (v, r)) in t

    def merge(e1, e2):
        return {k: e1[k] + e2[k] for k in e1 if k in e2}      # locals of one arm end with it

    def run_stmt(st, env, guard=None):
        if st is None:
            return env
        k = st.get('k')
        if k == 'CompoundStmt':
            for c in st.get('c') or []:
                env = run_stmt(c, env, guard)
            return env
        if k == 'DeclStmt':
            for d in st.get('decls', []):
                if isinstance(d, dict) and d.get('k') == 'VarDecl':
                    env = dict(env)
                    env[d['n']] = [anchored(d.get('init'), env)] if d.get('init') is not None else [False]
            return env
        if k == 'IfStmt':
            e_then = run_stmt(st.get('then'), dict(env), st.get('cond'))
            e_else = run_stmt(st.get('else'), dict(env), None) if st.get('else') is not None else dict(env)
            return merge(e_then, e_else)
        for x in ir.walk(st, into_lambdas=False):
            if x.get('k') == 'BinaryOperator' and x.get('op') == '=':
                l = ir.skipcasts(x['c'][0])
                if l is not None and l.get('k') == 'DeclRefExpr' and l.get('n') in env:
                    env = dict(env)
                    if guard is not None and raises_only(guard, l['n'], x['c'][1]):
                        pass                                     # raised, never lowered
                    else:
                        env[l['n']] = [anchored(x['c'][1], env)]
            if ir.is_call(x) and ir.call_name(x) == 'resize' and names_dict(ir.call_receiver(x)) and ir.call_args(x):
                verdicts.append((x, anchored(ir.call_args(x)[0], env)))
        return env
    run_stmt(f['body'], {})
    if not verdicts:
        raise AnalysisBroken('C06: RU_matrix::_insert_boundary no longer sizes pivotToColumnIndex_')
    ok = all(v for _, v in verdicts)
    u = unguarded[0]
    chk.ob('E5b-dictionary-cover', 'RU_matrix::_insert_boundary makes the pivot dictionary cover the row of the '
           'inserted cell on every path (subscripted unchecked by %s, line %s)' % (u[0]['name'], u[1].get('l')), where,
           ok, '' if ok else 'on some path the size given to pivotToColumnIndex_.resize() is not bounded below by the '
           'row of the new column `%s` (its position, or the identifier registered for it): the vector only covers '
           'the pivots seen so far while %s subscripts it at the rows of the swapped cells' % (idx, u[0]['name']),
           key='E5b|RU_matrix::_insert_boundary|dictionary-cover')


def check_reduction_order(chk, F):
    """E11-order: "later insertions behave as on the fresh matrix". The chain reduction of a new boundary repeatedly
    takes the *latest* cell of the working column and reduces by the chain with that pivot. A transposition exchanges
    filtration positions, not identifiers: in a matrix with vine updates the latest cell is the one of highest
    *position*, which the class tracks in pivotToPosition_. A working column that is an ordered container keyed by
    ID_index with the default order, whose extremum (rbegin / begin / max) selects the reducing chain, picks the cell
    of highest identifier instead."""
    import re
    cs = [c for c in F.classes if c['name'] == 'Chain_matrix' and c.get('inst') == 0]
    if len(cs) != 1:
        raise AnalysisBroken('C06: class Chain_matrix not found')
    aliases = {a['n']: a['t'] for a in cs[0].get('aliases', [])}
    fns = [f for f in F.functions if f.get('clsname') == 'Chain_matrix' and f.get('inst') in (0, 2) and
           f.get('body') is not None]
    n = 0
    for f in fns:
        # variables of an alias type that is an ordered container keyed by ID_index without comparator
        cand = {}
        decls = list(f.get('params', [])) + [x for x in ir.walk(f['body']) if x.get('k') == 'VarDecl']
        for d in decls:
            t = (d.get('t') or '').replace('const ', '').replace('&', '').strip().split('::')[-1]
            under = aliases.get(t)
            if under and re.search(r'std::(set|map)<ID_index(,[^,<>]*)?>', under.replace(' ', '')):
                # std::set<ID_index> or std::map<ID_index, V>: a third/second template argument would be a comparator
                if not re.search(r'std::set<ID_index,[^>]+>|std::map<ID_index,[^,>]+,[^>]+>', under.replace(' ', '')):
                    cand[d['n']] = t
        if not cand:
            continue
        picks = [x for x in ir.walk(f['body']) if ir.is_call(x) and ir.call_name(x) in ('rbegin', 'begin', 'crbegin')
                 and ir.call_receiver(x) is not None and ir.show(ir.call_receiver(x)) in cand]
        selects = ir.contains(f['body'], lambda y: ir.is_call(y) and ir.call_name(y) == 'get_column_with_pivot')
        if not picks or not selects:
            continue
        n += 1
        # accepted: the extremum is only taken where vine updates are statically off
        par = ir.parents(f['body'])
        guarded = True
        for x in picks:
            cur, g = x, False
            while id(cur) in par:
                up = par[id(cur)]
                if up.get('k') == 'IfStmt' and up.get('constexpr') and 'has_vine_update' in ir.show(up.get('cond')):
                    g = True
                cur = up
            guarded = guarded and g
        chk.ob('E11-reduction-order', 'Chain_matrix::%s selects the reducing chain by filtration position'
               % f['name'], '%s:%s' % (rel(f['file']), picks[0].get('l')), guarded,
               '' if guarded else '`%s` takes the extremum of `%s`, a %s ordered by identifier (%s): after a '
               'transposition the cell of highest identifier is not the latest cell of the filtration, the new '
               'boundary is reduced in the wrong order' % (ir.show(picks[0]), ir.show(ir.call_receiver(picks[0])),
                                                           cand[ir.show(ir.call_receiver(picks[0]))],
                                                           aliases[cand[ir.show(ir.call_receiver(picks[0]))]][:90]),
               key='E11|Chain_matrix::%s|reduction-order' % f['name'])
    chk.expect_count('E11-reduction-order', 'reductions driven by the extremum of an identifier-ordered column', n, 1)

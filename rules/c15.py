"""C15 copies, moves, swaps and serialisation: structural clauses decided statically (DESIGN 4/C15)."""
import json
import os

import re

from gsa import e1, facts, ir, paths
from gsa.facts import Unit, rel, AnalysisBroken
from gsa.report import Check

TABLE = json.load(open(os.path.join(facts.VERIF, 'tables', 'c15.json')))

CONTROL_UNITS = [Unit('control', 'positive_controls.cpp', [os.path.join(facts.VERIF, 'drivers', 'positive_controls.cpp')],
                      no_inst=True)]
UNITS = [
    Unit('st_pat', 'simplex_tree_pat.cpp', ['src/Simplex_tree/'], no_inst=True),
    Unit('mx_pat', 'matrix_pat.cpp', ['src/Persistence_matrix/', 'src/Zigzag_persistence/'], no_inst=True),
    # option grid (boundary / RU / chain x three indexations) for entry points whose return type depends on the options
    Unit('mx_inst', 'matrix_inst.cpp', ['src/Persistence_matrix/include/gudhi/Matrix.h'], fn=['insert_boundary']),
    # option grid with and without removable columns: class records with canonical member types and copy members
    Unit('mx_cls', 'matrix_cls.cpp', ['src/Persistence_matrix/include']),
    # the reader behind operator>>(istream, Simplex_tree)
    Unit('st_io', 'simplex_tree_pat.cpp', ['src/common/include/gudhi/reader_utils.h'], no_inst=True, fn=['read_simplex']),
]


def copy_like(cls, fn):
    """Classify fn: 'copy_ctor'/'move_ctor'/'copy_assign'/'move_assign'/'swap'/'copy_ctor+'/'move_ctor+' or None."""
    if fn['kind'] in e1.SPECIAL:
        return fn['kind']
    if fn.get('friendof') and fn['name'] == 'swap':
        return 'swap'
    if fn['kind'] == 'ctor' and fn.get('params'):
        t = fn['params'][0].get('t', '')
        core = t.replace('const ', '').replace('&', '').strip()
        if core == cls['name'] or core.startswith(cls['name'] + '<') or core.endswith('::' + cls['name']):
            if '&&' in t:
                return 'move_ctor+'
            if '&' in t:
                return 'copy_ctor+'
    return None


def _exempt(cls, field, cov, kind):
    e = TABLE['e1_field_exempt'].get('%s::%s' % (cls, field))
    if not e:
        return False
    if e[0] == 'rebuilt':
        return field in cov['this']
    if e[0] == 'cache':
        # a constructor starts from the member's default (empty) state; an assignment must drop the old cache
        return kind.endswith('ctor') or kind.endswith('ctor+') or field in cov['thisw']
    return True


def run_e1(chk, F):
    n_special = 0
    for c in F.classes:
        if c['inst'] not in (0, 2) or c.get('unit') == 'mx_cls':
            continue
        fields = [f for f in c['fields'] if not f.get('empty')]
        cfs = e1.class_functions(F, c)
        kinds = {}
        for fn in cfs:
            kind = copy_like(c, fn)
            if kind is None or fn.get('defaulted'):
                continue
            n_special += 1
            fkey = '%s::%s' % (c['name'], kind)
            where = '%s:%d' % (rel(fn['file']), fn['line'])
            if fkey in TABLE['e1_function_exempt']:
                chk.count('E1 exempt functions')
                continue
            cov = e1.coverage(F, c, fn, depth=3)
            kinds.setdefault(kind.rstrip('+'), []).append((fn, cov))
            for f in fields:
                name = f['n']
                if name in cov['src']:
                    ok, why = True, 'read from the source object'
                elif _exempt(c['name'], name, cov, kind):
                    ok, why = True, 'exempt: %s' % TABLE['e1_field_exempt']['%s::%s' % (c['name'], name)][1]
                else:
                    ok, why = False, ('field %s of %s is never taken from the source object in %s (followed: %s)'
                                      % (name, c['name'], kind, ','.join(cov['via']) or '-'))
                chk.ob('E1-field', '%s %s.%s' % (fkey, c['name'], name), where, ok, why,
                       key='E1|%s|%s' % (fkey, name))
            for b in c['bases']:
                if b.get('empty'):
                    continue
                bk = '%s::%s' % (c['name'], b['t'])
                bk2 = '%s::%s::%s' % (c['name'], kind.rstrip('+'), b['t'])
                if bk in TABLE['e1_base_exempt'] or bk2 in TABLE['e1_base_exempt']:
                    continue
                ok = e1.base_mentioned(b, cov['bases'])
                chk.ob('E1-base', '%s base %s' % (fkey, b['t'][:80]), where, ok,
                       '' if ok else 'base sub-object %s is not copied/moved/swapped in %s' % (b['t'], kind),
                       key='E1|%s|base %s' % (fkey, e1._head(b['t']) if not b['t'].startswith('std::conditional')
                                              else b['t'][:120]))
        # E1b: move ctor and move assignment leave the source in the same state
        if 'move_ctor' in kinds and 'move_assign' in kinds:
            (f1, c1), (f2, c2) = kinds['move_ctor'][0], kinds['move_assign'][0]
            diff = sorted(c1['srcw'] ^ c2['srcw'])
            chk.ob('E1b-move-parity', '%s move ctor vs move assignment' % c['name'],
                   '%s:%d' % (rel(f2['file']), f2['line']), not diff,
                   '' if not diff else 'source fields reset by only one of the two: %s (ctor resets %s, assignment %s)'
                   % (diff, sorted(c1['srcw']), sorted(c2['srcw'])),
                   key='E1b|%s|%s' % (c['name'], ','.join(diff)))
    chk.count('E1 special members / swaps evaluated', n_special)
    chk.expect_count('E1', 'hand-written special members', n_special, TABLE['e1_min_special_members'])


def run_e1c(chk, F):
    """No function with a non-void return type flows off its end on any path (undefined behaviour); contradictory
    if-constexpr arms are pruned, infinite loops are only left through break/return. Covers every function of the two
    families, not only the assignment operators."""
    n = n_assign = 0
    for fn in F.functions:
        if fn['inst'] not in (0, 2) or fn.get('body') is None or fn.get('defaulted') or fn.get('unit') == 'mx_cls':
            continue
        ret = fn.get('ret', 'void') or 'void'
        if ret == 'void' or fn['kind'] in ('ctor', 'dtor', 'copy_ctor', 'move_ctor', 'default_ctor'):
            continue
        if ret.startswith('std::enable_if_t<') and ret.count(',') == ret[ret.rfind('>::value'):].count(','):
            # enable_if_t<cond> without a second argument is void
            if _enable_if_is_void(ret):
                continue
        owner = fn.get('clsname') or '-'
        fq = '%s::%s' % (owner, fn['name'])
        if fq in TABLE.get('return_exempt', {}):
            chk.count('E1c exempt functions')
            continue
        n += 1
        if fn['name'] == 'operator=':
            n_assign += 1
        try:
            ps = paths.enumerate_paths(fn, lambda x: [], keep_conds=True, cap=30000)
        except paths.TooManyPaths:
            raise facts.AnalysisBroken('C15: too many paths in %s' % fn['qual'])
        bad = [p for p in ps if p.end == 'fall']
        if bad and fn['inst'] == 0 and fn.get('retc') is None:
            # the return type depends on the template arguments (it may be void for the arm that falls through):
            # decide on the instantiations of the option grid instead
            insts = [g for g in F.functions if g['inst'] == 1 and g['name'] == fn['name'] and g['file'] == fn['file']
                     and len(g['params']) == len(fn['params']) and g.get('clsname') == fn.get('clsname')]
            if insts:
                for g in insts:
                    if (g.get('retc') or 'void') == 'void':
                        continue
                    gps = paths.enumerate_paths(g, lambda x: [], keep_conds=True, cap=30000)
                    gbad = [p for p in gps if p.end == 'fall']
                    opt = (g.get('targs') or '')[:110]
                    chk.ob('E1c-returns', '%s [%s] returns a value on every path' % (fq, opt),
                           '%s:%d' % (rel(g['file']), g['line']), not gbad,
                           '' if not gbad else 'this instantiation returns %s but a path flows off the end of the '
                           'function (undefined behaviour)' % g.get('retc'),
                           key='E1c|%s|inst|%s' % (fq, opt))
                chk.count('E1c functions decided on the instantiated option grid')
                continue
        chk.ob('E1c-returns', '%s returns a value on every path' % fq, '%s:%d' % (rel(fn['file']), fn['line']),
               not bad, '' if not bad else 'a path reaches the end of the non-void function without a return statement '
               '(undefined behaviour) [decisions: %s]' % '; '.join(
                   ('' if pol else '!') + ir.show(c)[:60] for c, pol, _ in bad[0].conds
                   if not isinstance(c, tuple))[:240],
               key='E1c|%s|%s|%d' % (fq, fn['kind'], len(fn['params'])), nontrivial=(fn['name'] == 'operator='))
    chk.count('E1c non-void functions', n)
    chk.expect_count('E1c', 'assignment operators', n_assign, 40)
    chk.expect_count('E1c', 'non-void functions', n, 600)


def _enable_if_is_void(ret):
    inner = ret[len('std::enable_if_t<'):-1] if ret.endswith('>') else ret
    depth = 0
    for ch in inner:
        if ch in '<(':
            depth += 1
        elif ch in '>)':
            depth -= 1
        elif ch == ',' and depth == 0:
            return False
    return True


def run_bounded_reads(chk, F):
    """E5: every read from the caller's buffer in deserialize / rec_deserialize is bounded: since the previous read the
    path has passed a decision on the remaining length (a comparison involving buffer_size or an end pointer) or a
    call of a checker - a function of the class that compares its arguments with `end` and throws. The read done by
    the filtration functor of the caller (whose size only the functor knows) may instead be followed by such a check
    before the next read."""
    READS = ('deserialize_value_from_char_buffer', 'deserialize_trivial', 'memcpy')
    FUNCTOR = ('deserialize_filtration_value',)
    checkers = set()
    for g in F.funcs(cls='Simplex_tree', unit='st_pat'):
        if g['inst'] in (0, 2) and g.get('body') is not None and len(g.get('params', [])) >= 2 and \
                ir.contains(g['body'], lambda y: y.get('k') == 'CXXThrowExpr') and \
                any(x.get('k') == 'IfStmt' and any(
                    y.get('k') == 'BinaryOperator' and y.get('op') in ('<', '>', '<=', '>=') and
                    re.search(r'\bend\b(?!\()', ir.show(y)) for y in ir.walk(x.get('cond')))
                    for x in ir.walk(g['body'])) and \
                not ir.contains(g['body'], lambda y: ir.is_call(y) and ir.call_name(y) in READS):
            checkers.add(g['name'])
    n = 0
    for name in ('deserialize', 'rec_deserialize'):
        fs = [f for f in F.funcs(name, cls='Simplex_tree', unit='st_pat') if f['inst'] in (0, 2)]
        for f in fs:
            in_lambda = {id(z) for lam in ir.walk(f['body']) if lam.get('k') == 'LambdaExpr'
                         for z in ir.walk(lam.get('body'))}      # the functor handed on: its read is the FREAD of the callee

            def kind(y, in_lambda=in_lambda):
                if not ir.is_call(y) or id(y) in in_lambda:
                    return None
                nm = ir.call_name(y) or ir.show(ir.callee_expr(y))
                if nm in READS or ir.show(ir.callee_expr(y)) in READS:
                    return 'READ'
                if nm in FUNCTOR or ir.show(ir.callee_expr(y)) in FUNCTOR:
                    return 'FREAD'
                if nm in checkers:
                    return 'CHECK'
                return None
            if not ir.contains(f['body'], lambda y: kind(y) in ('READ', 'FREAD')):
                continue
            n += 1

            def cl(x):
                k = kind(x)
                return [k] if k else []
            ps = paths.enumerate_paths(f, cl, loop_mode='1', keep_conds=True)
            bad = None
            for p in ps:
                bounded = False
                pending = None          # a functor read waiting for its check
                for tag, node in p.events:
                    if tag == '?' and not isinstance(node[0], tuple):
                        if any(y.get('k') == 'BinaryOperator' and y.get('op') in ('<', '>', '<=', '>=') and
                               re.search(r'buffer_size|buffer_end|\bend\b(?!\()', ir.show(y))
                               for y in ir.walk(node[0])):
                            bounded, pending = True, None
                    elif tag == 'CHECK':
                        bounded, pending = True, None
                    elif tag in ('READ', 'FREAD'):
                        if pending is not None and bad is None:
                            bad = pending
                        if not bounded:
                            # only a filtration value that is not a number has a size the functor alone knows
                            sized = not any(cx and not pol and re.search(r'is_arithmetic_v|is_trivially_copyable_v',
                                                                         ir.show(c))
                                            for c, pol, cx in p.conds if not isinstance(c, tuple))
                            if tag == 'FREAD' and sized and bad is None:
                                bad = node
                            elif tag == 'FREAD':
                                pending = node
                            elif bad is None:
                                bad = node
                        bounded = False
                if pending is not None and p.end != 'throw' and bad is None:
                    bad = pending
            chk.ob('E5-bounded-read', 'Simplex_tree::%s checks the remaining length before reading the buffer'
                   % name, '%s:%d' % (rel(f['file']), f['line']), bad is None,
                   '' if bad is None else 'the read at line %s is not dominated by any comparison with the buffer '
                   'length: a truncated buffer is read past its end before the final length test can throw'
                   % bad.get('l'), key='E5|Simplex_tree::%s|unbounded-read|%d' % (name, len(f['params'])))
    chk.expect_count('E5-bounded-read', 'deserialisation functions reading the buffer', n, 2)
    chk.count('bound checkers of the deserialisation', len(checkers))


def run_static_state(chk, F):
    """E6a: independent objects on different threads: every variable of static storage duration in the two class
    families is const / constexpr / thread_local / of an empty type, or in the allow-list with its reason"""
    n = 0
    for v in F.staticvars:
        if v['const'] or v['constexpr'] or v['unit'] in ('mx_inst', 'mx_cls'):
            continue
        n += 1
        allow = TABLE['static_state_allowed'].get(v['qual'])
        ok = v['tls'] or v.get('emptytype') or allow is not None
        chk.ob('E6a-static-state', 'static %s is thread-safe to share between independent objects' % v['qual'],
               '%s:%d' % (rel(v['file']), v['line']), ok,
               'thread_local' if v['tls'] else ('empty type' if v.get('emptytype') else (allow or
               'mutable state of static storage duration (not const, not thread_local): independent objects used '
               'from different threads race on it')), key='E6a|%s' % v['qual'])
    chk.expect_count('E6a-static-state', 'non-const static-duration variables', n, 8)


def _parse_bool(text):
    """tiny parser of an option condition `A && !B || (C)` -> nested tuples over atom names (last path component)"""
    toks = re.findall(r'&&|\|\||!|\(|\)|[A-Za-z_][\w:<>]*', text)
    pos = [0]

    def atom():
        t = toks[pos[0]]
        pos[0] += 1
        if t == '(':
            r = orx()
            pos[0] += 1          # ')'
            return r
        if t == '!':
            return ('not', atom())
        return ('atom', t.split('::')[-1])

    def andx():
        r = atom()
        while pos[0] < len(toks) and toks[pos[0]] == '&&':
            pos[0] += 1
            r = ('and', r, atom())
        return r

    def orx():
        r = andx()
        while pos[0] < len(toks) and toks[pos[0]] == '||':
            pos[0] += 1
            r = ('or', r, andx())
        return r
    r = orx()
    if pos[0] != len(toks):
        raise AnalysisBroken('C15: cannot parse the option condition `%s`' % text)
    return r


def _bool_of_ir(e):
    e = ir.skipcasts(e)
    k = e.get('k')
    if k == 'ParenExpr':
        return _bool_of_ir(e['c'][0])
    if k == 'UnaryOperator' and e.get('op') == '!':
        return ('not', _bool_of_ir(e['c'][0]))
    if k == 'BinaryOperator' and e.get('op') in ('&&', '||'):
        return ('and' if e['op'] == '&&' else 'or', _bool_of_ir(e['c'][0]), _bool_of_ir(e['c'][1]))
    t = ir.show(e).replace(' ', '')
    if re.fullmatch(r'[\w:<>]+', t):
        return ('atom', t.split('::')[-1])
    raise AnalysisBroken('C15: guard of a conditional base is not an option formula: %s' % t[:80])


def _atoms_of(f, out):
    if f[0] == 'atom':
        out.add(f[1])
    else:
        for x in f[1:]:
            _atoms_of(x, out)
    return out


def _eval_bool(f, val):
    if f[0] == 'atom':
        return val[f[1]]
    if f[0] == 'not':
        return not _eval_bool(f[1], val)
    if f[0] == 'and':
        return _eval_bool(f[1], val) and _eval_bool(f[2], val)
    return _eval_bool(f[1], val) or _eval_bool(f[2], val)


MATRIX_LEVEL = ('Matrix', 'Base_matrix', 'Base_matrix_with_column_compression', 'Boundary_matrix', 'RU_matrix',
                'Chain_matrix', 'Id_to_index_overlay', 'Position_to_index_overlay', 'Matrix_row_access', 'Base_swap',
                'Base_pairing', 'RU_pairing', 'Chain_pairing', 'RU_vine_swap', 'Chain_vine_swap', 'Chain_barcode_swap',
                'RU_representative_cycles', 'Chain_representative_cycles', 'Matrix_max_dimension_holder',
                'Matrix_all_dimension_holder', 'Cell_position_to_ID_mapper')
SCALAR_T = re.compile(r'(bool|int|unsigned int|Dimension|(\w+::)*(Index|Pos_index|ID_index))$')


def _init_of(f, member):
    for i in f.get('inits') or []:
        if isinstance(i, dict) and i.get('member') == member and i.get('written'):
            return i.get('init')
    return None


def _mentions_other_field(e, other, field):
    return e is not None and ir.contains(e, lambda y: y.get('k') in ir.MEMBER_KINDS and y.get('n') == field and
                                         y.get('c') and (ir.skipcasts(y['c'][0]) or {}).get('n') == other)


def run_moved_from(chk, F):
    """"a moved-from object is empty and usable again", on the matrix-level classes (pattern level):
    E1m-pointer: a pointer member the move constructor takes away from the source (`std::exchange(other.p, nullptr)`)
    is given back a target in the same constructor (`other.p = ..` / `other.p.reset(..)`), or the class re-establishes
    it in `reset(..)` and Matrix's move constructor calls `reset` on the source's part;
    E1m-state: every scalar state member (flags, counters) is re-initialised in the source (`std::exchange(other.f, v)`
    or an assignment) - an implicit move constructor copies it and the source keeps believing e.g. that its barcode
    is computed;
    E1m-self: a pointer member that designates a member of the same object (assigned `&member..` in a constructor) is
    re-pointed by the move constructor under the same option condition, not taken from the source."""
    classes = {}
    for c in F.classes:
        if c.get('inst') == 0 and c['name'] in MATRIX_LEVEL and c['name'] not in classes and \
                'Persistence_matrix' in c['file'] or (c.get('inst') == 0 and c['name'] == 'Matrix' and
                                                        c['file'].endswith('Matrix.h') and c['name'] not in classes):
            classes[c['name']] = c
    if len(classes) < 15:
        raise AnalysisBroken('C15: matrix-level classes not found (%d)' % len(classes))
    fns = {}
    for f in F.functions:
        if f.get('inst') == 0 and f.get('clsname') in classes and f['file'] == classes[f['clsname']]['file']:
            fns.setdefault(f['clsname'], []).append(f)
    # does Matrix's move constructor reset the parts of the source?
    mm = [f for f in fns.get('Matrix', []) if f['kind'] == 'move_ctor']
    owner_resets = bool(mm) and mm[0].get('body') is not None and ir.contains(
        mm[0]['body'], lambda y: ir.is_call(y) and ir.call_name(y) == 'reset' and 'other' in ir.show(y))
    n_ptr = n_sc = n_self = 0
    for cname, c in sorted(classes.items()):
        mv = [f for f in fns.get(cname, []) if f['kind'] == 'move_ctor']
        scalars = [fl for fl in c.get('fields', []) if SCALAR_T.search((fl.get('t') or '').replace('const ', ''))]
        pointers = [fl for fl in c.get('fields', []) if (fl.get('t') or '').rstrip().endswith('*') or
                    'unique_ptr' in (fl.get('t') or '')]
        where = '%s:%d' % (rel(c['file']), c['line'])
        declared = [m for m in c.get('methods', []) if m.get('kind') == 'move_ctor']
        if not mv or mv[0].get('body') is None:
            # implicit / defaulted move constructor: member-wise move, scalars are copied
            if declared and not declared[0].get('defaulted'):
                continue                      # declared, defined elsewhere: not seen in this unit
            for fl in scalars:
                n_sc += 1
                chk.ob('E1m-state', '%s: the move constructor re-initialises `%s` in the source' % (cname, fl['n']),
                       where, False, 'the class has no move constructor of its own: `%s` is copied and the moved-from '
                       'object keeps its value (state of an object that is otherwise emptied)' % fl['n'],
                       key='E1m|%s|state|%s' % (cname, fl['n']))
            continue
        f = mv[0]
        other = f['params'][0]['n'] if f.get('params') else 'other'
        where = '%s:%d' % (rel(f['file']), f['line'])
        body = f['body']
        resets = [r for r in fns.get(cname, []) if r['name'] == 'reset' and r.get('body') is not None]
        for fl in pointers:
            init = _init_of(f, fl['n'])
            taken = init is not None and ir.contains(init, lambda y: y.get('k') == 'CXXNullPtrLiteralExpr') and \
                _mentions_other_field(init, other, fl['n'])
            if not taken:
                continue
            n_ptr += 1
            given = ir.contains(body, lambda y: (ir.write_target(y) is not None and y.get('op') == '=' and
                                                 _mentions_other_field(ir.write_target(y), other, fl['n'])) or
                                (ir.is_call(y) and ir.call_name(y) == 'reset' and
                                 _mentions_other_field(ir.call_receiver(y), other, fl['n'])))
            via_reset = owner_resets and any(ir.contains(r['body'], lambda y: ir.write_target(y) is not None and
                                                         ir.show(ir.write_target(y)) == fl['n']) for r in resets)
            ok = given or via_reset
            chk.ob('E1m-pointer', '%s: the pointer `%s` taken from the moved-from object is given a target again (%s)'
                   % (cname, fl['n'], 'in the constructor' if given else 'by reset(), called by Matrix on the source'
                      if via_reset else 'nowhere'), where, ok, '' if ok else '`%s` of the source stays null: the first '
                   'operation on the moved-from matrix dereferences it' % fl['n'],
                   key='E1m|%s|pointer|%s' % (cname, fl['n']))
        for fl in scalars:
            n_sc += 1
            init = _init_of(f, fl['n'])
            ok = (init is not None and ir.contains(init, lambda y: ir.is_call(y) and ir.call_name(y) == 'exchange') and
                  _mentions_other_field(init, other, fl['n'])) or ir.contains(
                body, lambda y: ir.write_target(y) is not None and _mentions_other_field(ir.write_target(y), other,
                                                                                        fl['n']))
            chk.ob('E1m-state', '%s: the move constructor re-initialises `%s` in the source' % (cname, fl['n']),
                   where, ok, '' if ok else '`%s` keeps its value in the moved-from object' % fl['n'],
                   key='E1m|%s|state|%s' % (cname, fl['n']))
        # self-referential pointers
        for fl in pointers:
            ctx = None
            for g in fns.get(cname, []):
                if g['kind'] not in ('ctor', 'copy_ctor', 'default_ctor') or g.get('body') is None:
                    continue
                par = ir.parents(g['body'])
                for y in ir.walk(g['body']):
                    t = ir.write_target(y)
                    if t is None or y.get('op') != '=' or ir.show(t) != fl['n']:
                        continue
                    r = ir.skipcasts(y['c'][1])
                    if r is None or r.get('k') != 'UnaryOperator' or r.get('op') != '&':
                        continue
                    root = ir.skipcasts(r['c'][0])
                    while root is not None and root.get('k') in ir.MEMBER_KINDS and root.get('c') and \
                            (ir.skipcasts(root['c'][0]) or {}).get('k') != 'CXXThisExpr':
                        root = ir.skipcasts(root['c'][0])       # the object the address is taken in
                    own = {x['n'] for x in c.get('fields', [])}
                    if root is None or root.get('k') not in ir.MEMBER_KINDS or root.get('n') not in own:
                        continue                                 # address of something outside the object
                    conds = []
                    cur = y
                    while id(cur) in par:
                        up = par[id(cur)]
                        if up.get('k') == 'IfStmt' and up.get('constexpr'):
                            conds.append((ir.show(up.get('cond')).replace(' ', ''), cur is up.get('then')))
                        cur = up
                    ctx = (ir.show(r).replace(' ', ''), tuple(conds))
            if ctx is None:
                continue
            n_self += 1
            par = ir.parents(body)
            ok = False
            for y in ir.walk(body):
                t = ir.write_target(y)
                if t is None or y.get('op') != '=' or ir.show(t) != fl['n']:
                    continue
                if ir.show(y['c'][1]).replace(' ', '') != ctx[0]:
                    continue
                conds = []
                cur = y
                while id(cur) in par:
                    up = par[id(cur)]
                    if up.get('k') == 'IfStmt' and up.get('constexpr'):
                        conds.append((ir.show(up.get('cond')).replace(' ', ''), cur is up.get('then')))
                    cur = up
                if tuple(conds) == ctx[1]:
                    ok = True
            chk.ob('E1m-self', '%s: `%s` designates a member of the same object (%s): the move constructor points it '
                   'to the new object\'s own member' % (cname, fl['n'], ctx[0]), where, ok, '' if ok else
                   '`%s` is taken from the source as it is: the new object keeps a pointer into the object it was '
                   'moved from' % fl['n'], key='E1m|%s|self|%s' % (cname, fl['n']))
    chk.expect_count('E1m-pointer', 'pointers taken by move constructors', n_ptr, 6)
    chk.expect_count('E1m-state', 'scalar state members', n_sc, 8)
    chk.expect_count('E1m-self', 'self-referential pointer members', n_self, 1)


def run_text_roundtrip(chk, F):
    """E5t-text: "re-reading its text output rebuilds an equal tree": two necessary conditions on the writer / reader
    pair. The writer inserts floating-point filtration values only after giving the stream a precision of
    max_digits10 (the default 6 digits round); the reader does not extract a floating-point filtration value with
    operator>> (which cannot read the "inf" the writer prints): it converts a word with strto*, in the floating-point
    arm at least."""
    ws = [f for f in F.functions if f['name'] == 'operator<<' and f.get('body') is not None and
          f['file'].endswith('Simplex_tree.h') and any('Simplex_tree' in (p_.get('t') or '') for p_ in f.get('params', []))
          and f.get('inst') in (0, 2)]
    rs = [f for f in F.functions if f['name'] == 'read_simplex' and f.get('body') is not None and f.get('inst') in (0, 2)]
    if not ws or not rs:
        raise AnalysisBroken('C15: text writer / reader of the simplex tree not found (%d, %d)' % (len(ws), len(rs)))
    w, r = ws[0], rs[0]
    order = {id(x): i for i, x in enumerate(ir.walk(w['body']))}
    ins = [x for x in ir.walk(w['body']) if x.get('k') in ('CXXOperatorCallExpr', 'BinaryOperator') and
           x.get('op') == '<<' and 'filtration(' in ir.show(x)]
    prec = [x for x in ir.walk(w['body']) if 'max_digits10' in ir.show(x) and (
        (ir.is_call(x) and ir.call_name(x) in ('precision', 'setprecision')))]
    ok = bool(ins) and bool(prec) and min(order[id(x)] for x in prec) < min(order[id(x)] for x in ins)
    chk.ob('E5t-text', 'operator<<(ostream, Simplex_tree) writes the filtration values with max_digits10 digits',
           '%s:%d' % (rel(w['file']), w['line']), ok, '' if ok else 'no precision of max_digits10 is set before the '
           'values are inserted: with the default 6 significant digits the re-read values differ',
           key='E5t|operator<<|precision')
    par = ir.parents(r['body'])
    fil = r['params'][2]['n'] if len(r.get('params', [])) == 3 else 'fil'
    bad = None
    for x in ir.walk(r['body']):
        if x.get('k') in ('CXXOperatorCallExpr', 'BinaryOperator') and x.get('op') == '>>':
            ab = x['c'] if x['k'] == 'BinaryOperator' else ir.call_args(x)
            if len(ab) == 2 and ir.show(ab[1]) == fil:
                guarded = False
                cur = x
                while id(cur) in par:
                    up = par[id(cur)]
                    if up.get('k') == 'IfStmt' and up.get('constexpr') and 'is_floating_point' in ir.show(
                            up.get('cond')) and cur is up.get('else'):
                        guarded = True
                    cur = up
                if not guarded:
                    bad = x
    conv = ir.contains(r['body'], lambda y: ir.is_call(y) and ir.call_name(y) in ('strtod', 'strtold', 'strtof',
                                                                                   'stod', 'stold', 'from_chars'))
    ok = bad is None and conv
    chk.ob('E5t-text', 'read_simplex converts the filtration value from a word (reads "inf") for floating-point types',
           '%s:%d' % (rel(r['file']), r['line']), ok, '' if ok else 'the value is extracted with operator>>, which '
           'fails on the "inf" the writer prints: reading stops at the first infinite value',
           key='E5t|read_simplex|inf')


def run_copy_counters(chk, F):
    """E1c-counter-copied: a copy equals its source. In the copy constructors of the matrix-level classes a counter
    (a scalar member whose name starts with `next`, the number of columns / cells inserted so far) is initialised with
    the same member of the source - not recounted while the columns are copied: the containers can hold reserved,
    still empty slots (Matrix(numberOfColumns)), which are not columns."""
    n = 0
    for f in F.functions:
        if f.get('kind') != 'copy_ctor' and not (f.get('kind') == 'ctor' and len(f.get('params', [])) == 2 and
                                                   (f['params'][0].get('t') or '').startswith('const ') and
                                                   (f.get('clsname') or '') in (f['params'][0].get('t') or '')):
            continue
        if f.get('clsname') not in MATRIX_LEVEL + ('Base_matrix_with_column_compression',) or \
                f.get('inst') not in (0, 2) or f.get('body') is None:
            continue
        src = f['params'][0]['n']
        for ini in f.get('inits') or []:
            if not (isinstance(ini, dict) and ini.get('written') and (ini.get('member') or '').startswith('next')):
                continue
            n += 1
            m = ini['member']
            t = ir.show(ini.get('init')) if ini.get('init') is not None else ''
            ok = re.search(r'(?<!\w)%s\.%s(?!\w)' % (re.escape(src), re.escape(m)), t) is not None
            rewritten = [x for x in ir.walk(f['body']) if ir.write_target(x) is not None and
                         ir.show(ir.write_target(x)).replace('this->', '') == m] + \
                        [x for x in ir.walk(f['body']) if x.get('k') == 'UnaryOperator' and x.get('op') in ('++', '--')
                         and ir.show(x['c'][0]).replace('this->', '') == m]
            ok = ok and not rewritten
            chk.ob('E1c-counter-copied', '%s: the copy takes `%s` from its source' % (f['clsname'], m),
                   '%s:%d' % (rel(f['file']), f['line']), ok,
                   '' if ok else '`%s` is initialised with `%s`%s: recounted, it counts the reserved empty slots of the '
                   'source as columns - the copy reports more columns and inserts its next column further' % (
                       m, t[:40], ' and changed in the body' if rewritten else ''),
                   key='E1c|%s|%s|counter-copied' % (f['clsname'], m))
    chk.expect_count('E1c-counter-copied', 'counters in copy constructors of matrix-level classes', n, 4)


def run_field_guards(chk, F, control=False):
    """E1-field-unguarded: a data member whose declaration does not depend on the options exists in every option set: a
    swap / assignment / copy-like constructor handles it in every option set. A statement of such a function that
    touches the member of the *other* object (`other.m`, `a.m.swap(b.m)`) only under one arm of an `if constexpr` on
    the options - and nowhere unconditionally, initialiser list included - is accepted only when the member's declared
    type is option-dependent itself (a std::conditional / a dummy type); otherwise the member is skipped in the option
    sets where the condition is false and the target keeps its own, stale value."""
    n = 0
    fired = 0
    for c in F.classes:
        if c['inst'] not in (0, 2) or c.get('unit') == 'mx_cls' or \
                (('/Persistence_matrix/' not in c['file']) if not control else
                 not c['file'].endswith('positive_controls.cpp')):
            continue
        ftypes = {fl['n']: (fl.get('t') or '') + ' ' + (fl.get('ct') or '') for fl in c['fields']}
        if not ftypes:
            continue
        for fn in e1.class_functions(F, c):
            kind = copy_like(c, fn)
            if kind is None or fn.get('defaulted') or fn.get('body') is None or fn.get('inst') not in (0, 2):
                continue
            pnames = {q['n'] for q in fn.get('params', [])}
            par = ir.parents(fn['body'])
            ctx = {}            # member -> list of (guard or None, arm, node)
            for ini in fn.get('inits') or []:
                if isinstance(ini, dict) and ini.get('init') is not None:
                    for x in ir.walk(ini['init']):
                        if x.get('k') in ir.MEMBER_KINDS and x.get('n') in ftypes and x.get('c') and \
                                (ir.skipcasts(x['c'][0]) or {}).get('n') in pnames:
                            ctx.setdefault(x['n'], []).append((None, None, x))
            for x in ir.walk(fn['body']):
                if x.get('k') not in ir.MEMBER_KINDS or x.get('n') not in ftypes or not x.get('c'):
                    continue
                b = ir.skipcasts(x['c'][0])
                if b is None or b.get('k') != 'DeclRefExpr' or b.get('n') not in pnames:
                    continue
                guard = arm = None
                cur = x
                while id(cur) in par:
                    up = par[id(cur)]
                    if up.get('k') == 'IfStmt' and up.get('constexpr') and cur is not up.get('cond'):
                        guard, arm = up, ('then' if cur is up.get('then') else 'else')
                        break
                    cur = up
                ctx.setdefault(x['n'], []).append((guard, arm, x))
            for m, lst in ctx.items():
                if any(g is None for g, _, _ in lst):
                    continue                      # handled in every option set somewhere in the function
                guards = {}
                for g, a, x in lst:
                    guards.setdefault(id(g), (g, set(), x))[1].add(a)
                if any(arms == {'then', 'else'} for _, arms, _ in guards.values()):
                    continue                      # both arms of one test handle it

                def rebuilt(arm_node, m=m):
                    return arm_node is not None and any(
                        ir.write_target(y) is not None and
                        ir.show(ir.write_target(y)).replace('this->', '') == m for y in ir.walk(arm_node))
                if any(rebuilt(g_.get('else') if arms == {'then'} else g_.get('then')) for g_, arms, _ in guards.values()):
                    continue                      # the other arm gives this object's member a value of its own
                n += 1
                g, arms, x = list(guards.values())[0]
                t = ftypes[m]
                ok = 'conditional' in t or 'Dummy' in t or 'dummy' in t
                if control:
                    fired += 0 if ok else 1
                    continue
                chk.ob('E1-field-unguarded', '%s %s: `%s` of the other object is only handled under `%s`: its type '
                       'depends on the options' % (c['name'], kind, m, ir.show(g.get('cond'))[:50]),
                       '%s:%s' % (rel(fn['file']), x.get('l')), ok,
                       '' if ok else 'the member `%s` (%s) exists in every option set but is only %s when `%s`: elsewhere '
                       'the target keeps its own stale value' % (m, t.split(' ')[0][:50],
                                                                 'swapped' if kind == 'swap' else 'taken over',
                                                                 ir.show(g.get('cond'))[:60]),
                       key='E1|%s|%s|%s|unguarded' % (c['name'], kind.rstrip('+'), m))
    if control:
        if not fired:
            raise AnalysisBroken('C15: E1-field-unguarded stays silent on its positive control '
                                 '(drivers/positive_controls.cpp)')
        chk.count('E1-field-unguarded positive control reports', fired)
        return
    chk.count('members handled under an option test in copy-like functions', n)


def run_tree_roundtrip_clauses(chk, F):
    """E5-size-per-node: the announced serialisation size adds `get_serialization_size_of(value)` for every node: each
    such call sits in a loop over the members and takes the value of the loop's node - it is not multiplied by a count
    (a value type may serialise with a length that depends on the value).
    E1-root-retarget: `move_from` re-targets every vertex of the root it takes over: the vertices with children get
    `children()->oncles_ = &root_`, the leaves `assign_children(&root_)` (a leaf's children pointer designates the set
    it lives in): both arms of the test are there, otherwise the leaves of the moved-to tree keep pointing into the
    source object."""
    fs = [f for f in F.funcs(cls='Simplex_tree', unit='st_pat') if f['inst'] in (0, 2) and f.get('body') is not None
          and ir.contains(f['body'], lambda y: ir.is_call(y) and ir.call_name(y) == 'get_serialization_size_of')]
    k = 0
    for f in fs:
        par = ir.parents(f['body'])
        for x in ir.walk(f['body']):
            if not (ir.is_call(x) and ir.call_name(x) == 'get_serialization_size_of'):
                continue
            k += 1
            up = par.get(id(x))
            while up is not None and up.get('k') in ('ImplicitCastExpr', 'ParenExpr'):
                up = par.get(id(up))
            multiplied = up is not None and up.get('k') == 'BinaryOperator' and up.get('op') == '*'
            inloop = False
            cur = x
            while id(cur) in par:
                cur = par[id(cur)]
                if cur.get('k') in ('ForStmt', 'CXXForRangeStmt', 'WhileStmt'):
                    inloop = True
            ok = inloop and not multiplied
            chk.ob('E5-size-per-node', 'Simplex_tree::%s adds the serialised size of each node\'s own value' % f['name'],
                   '%s:%s' % (rel(f['file']), x.get('l')), ok,
                   '' if ok else '`%s` is %s: a value whose serialised length depends on the value makes the announced '
                   'size differ from what serialize() writes (buffer overflow before the final test)' % (
                       ir.show(up if multiplied else x)[:70], 'multiplied by a count' if multiplied else
                       'not inside the loop over the nodes'), key='E5|Simplex_tree::%s|size-per-node' % f['name'])
    chk.expect_count('E5-size-per-node', 'serialised-size queries', k, 1)
    mf = [f for f in F.funcs('move_from', cls='Simplex_tree', unit='st_pat') if f['inst'] in (0, 2) and
          f.get('body') is not None]
    if not mf:
        raise AnalysisBroken('C15: Simplex_tree::move_from not found')
    f = mf[0]
    loops = [x for x in ir.walk(f['body']) if x.get('k') in ('CXXForRangeStmt', 'ForStmt') and
             'members' in ir.show(x.get('range') or x.get('cond') or {})]
    ok = False
    for lp in loops:
        has_onc = ir.contains(lp.get('body'), lambda y: ir.write_target(y) is not None and 'oncles_' in
                              ir.show(ir.write_target(y)))
        has_assign = ir.contains(lp.get('body'), lambda y: ir.is_call(y) and ir.call_name(y) == 'assign_children')
        if has_onc and has_assign:
            ok = True
    chk.ob('E1-root-retarget', 'Simplex_tree::move_from re-targets the root vertices with children and the leaves',
           '%s:%d' % (rel(f['file']), f['line']), ok,
           '' if ok else 'the loop over the root members does not both set `children()->oncles_` and call '
           '`assign_children(&root_)`: one kind of vertex keeps pointing into the source object',
           key='E1|Simplex_tree::move_from|root-retarget')


def run_scalar_init(chk, F):
    """E1i-scalar-init: the iterators and ranges of the simplex tree are copied around by value (boost::iterator_range,
    filter adaptors): copying an object loads every scalar member, and loading an indeterminate bool / pointer is
    undefined behaviour. In every class of the Simplex_tree headers each constructor gives a value to each member of
    scalar or pointer type: in its initialiser list, by an assignment in its body, through a default member
    initialiser (`= v` on the declaration, read from the source line), or by delegating to a member function of the
    class that assigns it."""
    seen = set()
    n = 0
    src_cache = {}
    for c in F.classes:
        if c.get('inst') != 0 or '/Simplex_tree/' not in c['file'] or (c['name'], c['line']) in seen:
            continue
        seen.add((c['name'], c['line']))
        sc = [fl for fl in c.get('fields', []) if fl.get('ity') or (fl.get('t') or '').rstrip().endswith('*')]
        if not sc:
            continue
        if c['file'] not in src_cache:
            src_cache[c['file']] = open(c['file']).read().split('\n')
        lines = src_cache[c['file']]
        dflt = {fl['n'] for fl in sc if fl.get('l') and '=' in lines[fl['l'] - 1].split('//')[0]}
        methods = [f for f in F.functions if f.get('clsname') == c['name'] and f['file'] == c['file'] and
                   f.get('inst') == 0 and f.get('unit') == 'st_pat' and f.get('body') is not None]
        assigns = {}
        for m in methods:
            w = set()
            for x in ir.walk(m['body']):
                t = ir.write_target(x)
                if t is not None:
                    w.add(ir.show(t).replace('this->', ''))
            assigns[m['name']] = assigns.get(m['name'], set()) | w
        for k in methods:
            if k['kind'] not in ('ctor', 'default_ctor'):
                continue
            w = {i.get('member') for i in (k.get('inits') or []) if isinstance(i, dict) and i.get('written')}
            w |= assigns.get(k['name'], set()) if False else set()
            for x in ir.walk(k['body']):
                t = ir.write_target(x)
                if t is not None:
                    w.add(ir.show(t).replace('this->', ''))
                if ir.is_call(x) and ir.is_this_call(x):
                    w |= assigns.get(ir.call_name(x), set())
            for fl in sc:
                n += 1
                ok = fl['n'] in w or fl['n'] in dflt
                chk.ob('E1i-scalar-init', '%s: the constructor at line %d gives `%s` a value' % (c['name'], k['line'],
                       fl['n']), '%s:%d' % (rel(k['file']), k['line']), ok, '' if ok else
                       '`%s` (%s) is left indeterminate: the objects of this class are copied by value, which loads it '
                       '(undefined behaviour for a bool / pointer with an invalid value)' % (fl['n'], fl.get('t')),
                       key='E1i|%s|%s|%d' % (c['name'], fl['n'], len(k.get('params', []))))
    chk.expect_count('E1i-scalar-init', 'scalar members x constructors in the Simplex_tree headers', n, 20)


def run_conditional_bases(chk, F):
    """E1-conditional-base: option-dependent parts are bases of the form std::conditional<C, A, B>::type. Wherever a
    member function (swap, assignment, constructors) treats the object as one of the two alternatives
    (`static_cast<A&>(x)`) under an `if` on the options, the guard is logically equivalent to the condition under
    which that alternative *is* the base (C for A, !C for B), on every valuation of the option constants involved -
    a weaker guard skips the part in some option sets (the swapped / assigned object keeps its old part), a stronger
    one touches a part that is not there."""
    n = 0
    for c in F.classes:
        if c.get('inst') != 0:
            continue
        alts = []
        for b in c.get('bases', []):
            m = re.match(r'(?:typename )?std::conditional<(.*)>::type$', (b.get('t') or '').strip())
            if not m:
                continue
            # split the three template arguments at top-level commas
            args, depth, cur = [], 0, ''
            for ch in m.group(1):
                if ch == '<' or ch == '(':
                    depth += 1
                elif ch == '>' or ch == ')':
                    depth -= 1
                if ch == ',' and depth == 0:
                    args.append(cur.strip())
                    cur = ''
                else:
                    cur += ch
            args.append(cur.strip())
            if len(args) != 3:
                continue
            cond = _parse_bool(args[0])
            alts.append((args[1].split('<')[0].split('::')[-1], cond))
            alts.append((args[2].split('<')[0].split('::')[-1], ('not', cond)))
        if not alts:
            continue
        for f in F.functions:
            if f.get('inst') != 0 or f.get('body') is None:
                continue
            owner = f.get('cls') or f.get('friendof') or ''
            if owner.split('::')[-1] != c['name'] or f['file'] != c['file']:
                continue
            for x in ir.walk(f['body']):
                if x.get('k') != 'IfStmt':
                    continue
                casts = {(y.get('t') or '').split('<')[0].split('::')[-1] for y in ir.walk(x.get('then'))
                         if y.get('k') == 'CXXStaticCastExpr'}
                for name, exists in alts:
                    if name not in casts or name.startswith('Dummy'):
                        continue
                    n += 1
                    guard = _bool_of_ir(x.get('cond'))
                    atoms = sorted(_atoms_of(guard, set()) | _atoms_of(exists, set()))
                    bad = None
                    for mbits in range(1 << len(atoms)):
                        val = {a_: (mbits >> i) & 1 == 1 for i, a_ in enumerate(atoms)}
                        if _eval_bool(guard, val) != _eval_bool(exists, val) and bad is None:
                            bad = val
                    chk.ob('E1-conditional-base', '%s::%s treats the object as %s exactly in the option sets in which %s '
                           'is its base' % (c['name'], f['name'], name, name), '%s:%s' % (rel(f['file']), x.get('l')),
                           bad is None, '' if bad is None else 'for %s the guard `%s` is %s but %s %s the base: the part '
                           'is %s' % (', '.join('%s=%s' % (k_, 'true' if v_ else 'false') for k_, v_ in bad.items()),
                                      ir.show(x.get('cond'))[:90], _eval_bool(guard, bad), name,
                                      'is' if _eval_bool(exists, bad) else 'is not',
                                      'skipped (the object keeps its old one)' if _eval_bool(exists, bad) else
                                      'touched although it is not there'),
                           key='E1cb|%s::%s|%s' % (c['name'], f['name'], name))
    chk.expect_count('E1-conditional-base', 'guarded uses of a conditional base', n, 4)


def run_settings_alias(chk, F):
    """E10: a copy never keeps or hands on the source's settings pointer: it may only dereference it for a deep copy
    or use it as the fallback when the caller supplies no new settings"""
    n = 0
    for c in F.classes:
        if c['inst'] not in (0, 2) or c['unit'] != 'mx_pat':
            continue
        for fn in e1.class_functions(F, c):
            kind = copy_like(c, fn)
            if kind not in ('copy_ctor', 'copy_ctor+'):
                continue
            src = fn['params'][0]['n']
            nodes = []
            for i in fn.get('inits', []) or []:
                nodes.append(i.get('init'))
            nodes.append(fn.get('body'))
            for root in nodes:
                if root is None:
                    continue
                par = ir.parents(root)
                for x in ir.walk(root):
                    if x.get('k') in ir.MEMBER_KINDS and x.get('n') == 'colSettings_' and x.get('c') and \
                            ir.show(x['c'][0]) == src:
                        n += 1
                        p = par.get(id(x))
                        while p is not None and p.get('k') in ir.CAST_KINDS + ('ParenExpr',):
                            p = par.get(id(p))
                        ok = False
                        why = ''
                        q = p
                        while q is not None:
                            if q.get('k') == 'UnaryOperator' and q.get('op') == '*':
                                ok, why = True, 'dereferenced for a deep copy'
                                break
                            if q.get('k') == 'ConditionalOperator' and 'nullptr' in ir.show(q['c'][0]):
                                ok, why = True, 'fallback when no new settings are supplied'
                                break
                            q = par.get(id(q))
                        chk.ob('E10-settings', '%s copy: %s.colSettings_ is not aliased' % (c['name'], src),
                               '%s:%s' % (rel(fn['file']), x.get('l')), ok,
                               why if ok else 'the copy stores or passes on the source object\'s settings pointer: '
                               'the two objects share field operators and entry pool, destroying one breaks the other',
                               key='E10|%s::%s|settings-alias' % (c['name'], kind))
    chk.expect_count('E10-settings', 'uses of the source settings pointer in copy constructors', n, 4)


def run_settings_forwarding(chk, F):
    """E10b: a copy made with new settings rebinds *every* part to them. On the instantiated option grid: a
    constructor `C(const C& source, Column_settings* s, ...)` initialises each member and base whose own class has such
    a constructor from the source's part *and passes s on*; the one-argument copy constructor of those classes means
    "keep the source's settings" (default argument nullptr), so an omitted argument leaves that part allocating in
    the source's pool and computing with the source's field operators."""
    import re
    fns = [f for f in F.functions if f.get('unit') == 'mx_cls' and f.get('inst') == 1 and
           f.get('kind') in ('ctor', 'copy_ctor') and len(f.get('params', [])) >= 2]

    def is_settings_copy(f):
        ps = f['params']
        own = f['qual'].rsplit('::', 1)[0]
        t0 = (ps[0].get('t') or '')
        return t0.startswith('const ') and t0.rstrip().endswith('&') and 'Column_settings' in (ps[1].get('t') or '') \
            and '*' in (ps[1].get('t') or '')
    sc = [f for f in fns if is_settings_copy(f)]
    aware = {f['qual'].rsplit('::', 1)[0] for f in sc}          # classes (with template arguments) that can be rebound
    aware_names = {a.split('<')[0] for a in aware}
    n = 0
    seen = set()
    for f in sc:
        cls = f['qual'].rsplit('::', 1)[0]
        cname = f.get('clsname')
        src, st = f['params'][0]['n'], f['params'][1]['n']
        for ini in f.get('inits', []) or []:
            init = ini.get('init')
            if init is None:
                continue
            target = ini.get('member') or ini.get('base') or ''
            ct = (init.get('ct') or init.get('ctor') or '')
            tname = ct.split('<')[0]
            if tname not in aware_names:
                continue
            args = init.get('c') or []
            if not args:
                continue
            first = ir.show(args[0])
            if not re.search(r'(?<!\w)%s(?!\w)' % re.escape(src), first):
                continue
            key = (cname, target if isinstance(target, str) else str(target))
            n += 1
            passes = any(ir.contains(a, lambda y: y.get('k') == 'DeclRefExpr' and y.get('n') == st) for a in args[1:])
            if key in seen:
                continue
            seen.add(key)
            chk.ob('E10-settings-forward', '%s(const %s&, Column_settings*): `%s` is copied with the new settings'
                   % (cname, cname, key[1]), '%s:%s' % (rel(f['file']), ini.get('l') or f['line']), passes,
                   '' if passes else 'initialised as %s without `%s`: the one-argument copy keeps the source\'s '
                   'settings (entry pool, field operators), the copy is not independent of the source' %
                   (ir.show(init)[:120], st), key='E10|%s|%s|settings-forward' % (cname, key[1]))
    chk.count('E10b parts copied by settings-aware constructors', n)
    chk.expect_count('E10-settings-forward', 'parts copied by settings-aware constructors', n, 8)


def _live_walk(n):
    """pre-order walk that only enters the live arm of an evaluated `if constexpr`"""
    if n is None:
        return
    yield n
    if n.get('k') == 'IfStmt' and n.get('constexpr') and isinstance(n.get('cv'), bool):
        for key in ('init', 'cond'):
            if isinstance(n.get(key), dict):
                yield from _live_walk(n[key])
        arm = n.get('then') if n['cv'] else n.get('else')
        if arm is not None:
            yield from _live_walk(arm)
        return
    for ch in ir.kids(n):
        yield from _live_walk(ch)


ITER_PATTERNS = (
    (r'std::_List_(?:const_)?iterator<(.+?)>+$', r'std::(?:__cxx11::)?list<%s'),
    (r'__normal_iterator<(?:const )?(.+?) \*,', r'std::vector<%s'),
    (r'std::_Rb_tree_(?:const_)?iterator<(.+?)>+$', r'std::(?:map|set|multimap|multiset)<'),
)


def run_self_referential(chk, F):
    """E1d: a member that stores iterators into a sibling container of the same object cannot be copied member-wise -
    the copy would keep pointing into the source (the two objects are then not independent, and the copy dangles
    when the source dies). Decided on instantiated classes (canonical member types) over an option grid with and
    without removable columns: such a class has a user-provided copy constructor and copy assignment, and in the
    instantiated copy constructor (only the live `if constexpr` arms) the member is neither initialised nor assigned
    from the source's member; an assignment operator taking its argument by reference obeys the same rule (copy-and-
    swap takes it by value and inherits the constructor's behaviour)."""
    import re
    classes = [c for c in F.classes if c.get('unit') == 'mx_cls' and c.get('inst') == 1]
    if len(classes) < 100:
        raise AnalysisBroken('C15: the class instantiation unit yields only %d classes' % len(classes))
    fn_by = {}
    for f in F.functions:
        if f.get('unit') == 'mx_cls' and f.get('inst') == 1 and f.get('kind') in ('copy_ctor', 'copy_assign'):
            # key: class qualified name with its template arguments (the function's qualified name minus its own name)
            fn_by.setdefault((f['qual'].rsplit('::', 1)[0], f['kind']), f)
    n_fields = 0
    seen = set()
    for c in classes:
        for a in c['fields']:
            ct = a.get('ct') or ''
            if 'iterator' not in ct:
                continue
            target = None
            for pat, cont in ITER_PATTERNS:
                m = re.search(pat, ct)
                if not m:
                    continue
                elem = m.group(1) if '%s' in cont else None
                rx = cont % re.escape(elem) if elem else cont
                for b in c['fields']:
                    if b is not a and re.match(rx, b.get('ct') or ''):
                        target = b['n']
            if target is None:
                continue
            key = (c['name'], a['n'], c.get('targs'))
            if key in seen:
                continue
            seen.add(key)
            n_fields += 1
            opt = re.search(r'Gsa_copt<([^>]*)>', c.get('targs') or '')
            inst_name = '%s<%s>' % (c['name'], opt.group(1).replace('Gudhi::persistence_matrix::Column_indexation_types::', '')
                                    if opt else '?')
            where = '%s:%s' % (rel(c['file']), a.get('l'))
            ok_decl = c.get('copy_ctor') in ('user', 'deleted') and c.get('copy_assign') in ('user', 'deleted')
            chk.ob('E1d-self-referential', '%s: `%s` holds iterators into `%s`: copy constructor and copy assignment '
                   'are user-provided' % (inst_name, a['n'], target), where, ok_decl,
                   '' if ok_decl else 'copy constructor: %s, copy assignment: %s - a member-wise copy leaves the '
                   'iterators of the copy pointing into the source' % (c.get('copy_ctor'), c.get('copy_assign')),
                   key='E1d|%s|%s|declared' % (c['name'], a['n']))
            for kind in ('copy_ctor', 'copy_assign'):
                f = fn_by.get((c['qual'] + (c.get('targs') or ''), kind))
                if c.get(kind if kind == 'copy_ctor' else 'copy_assign') != 'user':
                    continue
                if f is None and kind == 'copy_assign':
                    # not instantiated by the driver: decided on the declaration when it takes its argument by value
                    decl = [m_ for m_ in c.get('methods', []) if m_.get('kind') == 'copy_assign']
                    if decl and all('&' not in (p_.get('t') or '') for m_ in decl for p_ in m_.get('params', [])):
                        chk.ob('E1d-self-referential', '%s: the copy assignment takes its argument by value '
                               '(copy-and-swap)' % inst_name, where, True, '',
                               key='E1d|%s|%s|%s' % (c['name'], a['n'], kind))
                        continue
                if f is None:
                    # not instantiated: fall back to the template pattern; a member-wise assignment outside any
                    # `if constexpr` is live in every instantiation
                    pats = [g for g in F.functions if g.get('unit') == 'mx_pat' and g.get('inst') == 0 and
                            g.get('clsname') == c['name'] and g.get('kind') == kind and g.get('body') is not None]
                    if not pats:
                        raise AnalysisBroken('C15: %s of %s is neither instantiated by drivers/matrix_cls.cpp nor '
                                             'found as a pattern' % (kind, inst_name))
                    g = pats[0]
                    src = g['params'][0]['n'] if g.get('params') else '?'
                    par = ir.parents(g['body'])
                    bad = None
                    for x in ir.walk(g['body']):
                        if x.get('k') in ('BinaryOperator', 'CXXOperatorCallExpr') and x.get('op') == '=':
                            cs = (x.get('c') or [])[-2:]
                            if len(cs) == 2 and ir.show(cs[0]).split('.')[-1] == a['n'] and \
                                    ir.show(cs[1]).endswith('%s.%s' % (src, a['n'])):
                                cur, guarded = x, False
                                while id(cur) in par:
                                    cur = par[id(cur)]
                                    guarded = guarded or (cur.get('k') == 'IfStmt' and cur.get('constexpr'))
                                if guarded:
                                    raise AnalysisBroken('C15: %s of %s assigns `%s` under an `if constexpr` and is '
                                                         'not instantiated by drivers/matrix_cls.cpp' %
                                                         (kind, inst_name, a['n']))
                                bad = 'assigned from %s.%s (line %s)' % (src, a['n'], x.get('l'))
                    chk.ob('E1d-self-referential', '%s: the copy assignment does not copy `%s` member-wise' %
                           (inst_name, a['n']), '%s:%s' % (rel(g['file']), g['line']), bad is None,
                           '' if bad is None else '`%s` is %s: its iterators keep pointing into the source\'s `%s`'
                           % (a['n'], bad, target), key='E1d|%s|%s|%s' % (c['name'], a['n'], kind))
                    continue
                src = f['params'][0]['n'] if f.get('params') else None
                by_value = f.get('params') and '&' not in (f['params'][0].get('t') or '')
                bad = None
                if kind == 'copy_assign' and by_value:
                    pass
                else:
                    for ini in f.get('inits', []):
                        if ini.get('member') == a['n'] and ini.get('init') is not None and \
                                re.search(r'(?<!\w)%s\.%s(?!\w)' % (re.escape(src or '?'), re.escape(a['n'])),
                                          ir.show(ini['init'])):
                            bad = 'initialised from %s.%s' % (src, a['n'])
                    for x in _live_walk(f.get('body')):
                        if x.get('k') in ('BinaryOperator', 'CXXOperatorCallExpr') and x.get('op') == '=':
                            cs = (x.get('c') or [])[-2:]
                            if len(cs) == 2 and ir.show(cs[0]).split('.')[-1] == a['n'] and \
                                    ir.show(cs[1]).endswith('%s.%s' % (src, a['n'])):
                                bad = 'assigned from %s.%s (line %s)' % (src, a['n'], x.get('l'))
                chk.ob('E1d-self-referential', '%s: the %s does not copy `%s` member-wise' %
                       (inst_name, 'copy constructor' if kind == 'copy_ctor' else 'copy assignment', a['n']),
                       '%s:%s' % (rel(f['file']), f['line']), bad is None,
                       '' if bad is None else '`%s` is %s: its iterators keep pointing into the source\'s `%s`'
                       % (a['n'], bad, target), key='E1d|%s|%s|%s' % (c['name'], a['n'], kind))
    chk.count('E1d members holding iterators into a sibling container', n_fields)
    chk.expect_count('E1d-self-referential', 'members holding iterators into a sibling container', n_fields, 2)


def run_assertions(chk, F):
    """E6b-assert-pure for every class of the two families that C09 does not cover: the conditions of GUDHI_CHECK /
    assert call no non-const member function and write nothing (debug and release builds behave alike)."""
    from rules import c09
    by = {}
    seen = set()
    for f in F.functions:
        if f.get('inst') not in (0, 2) or f.get('body') is None or f.get('unit') in ('mx_inst', 'mx_cls'):
            continue
        c = f.get('cls') or f.get('friendof')
        if not c or any(g in f['file'] for g in c09.GENERAL_FILES):
            continue
        key = (f['file'], f['line'], f['name'])
        if key in seen:
            continue
        seen.add(key)
        by.setdefault(c, []).append(f)
    c09.run_assert_purity(chk, F, by=by, min_count=40)


def run_moved_from_functions(chk, F):
    """E1m-function: "a moved-from object is empty and usable again". A std::function member of a matrix-level class
    which the move constructor moves away from the source (`m(std::move(other.m))`) is empty afterwards and calling it
    throws std::bad_function_call; no setter exists for the comparators of the chain matrix: the same constructor gives
    the source a target again (`other.m = ...`).
    E1-rows-kept: the copy constructor of Matrix_row_access treats both kinds of row containers: the arm for removable
    rows (a map) also reads the rows of the source - a row that is empty but not erased exists in the copy."""
    n = 0
    for c in F.classes:
        if c.get('inst') != 0 or c['name'] not in MATRIX_LEVEL:
            continue
        fmembers = [fl['n'] for fl in c.get('fields', []) if 'std::function<' in (fl.get('ct') or fl.get('t') or '')]
        if not fmembers:
            continue
        mcs = [f for f in F.functions if f.get('clsname') == c['name'] and f.get('kind') == 'move_ctor' and
               f.get('inst') in (0, 2) and f.get('body') is not None]
        for f in mcs[:1]:
            src = f['params'][0]['n']
            for mname in fmembers:
                ini = _init_of(f, mname)
                moved = ini is not None and _mentions_other_field(ini, src, mname) and 'move' in ir.show(ini)
                if not moved:
                    continue
                n += 1
                given = any(ir.write_target(x) is not None and x.get('op') == '=' and
                            ir.show(ir.write_target(x)).replace(' ', '') == '%s.%s' % (src, mname)
                            for x in ir.walk(f['body']))
                chk.ob('E1m-function', '%s: the move constructor gives `%s.%s` a target again' % (c['name'], src, mname),
                       '%s:%d' % (rel(f['file']), f['line']), given,
                       '' if given else '`%s` is moved away from the source and stays empty: the refilled moved-from '
                       'matrix throws std::bad_function_call when it next compares two bars' % mname,
                       key='E1m|%s|%s|function' % (c['name'], mname))
    chk.expect_count('E1m-function', 'std::function members moved by a move constructor', n, 2)
    # E1m-container: a container member taken from the source by a move constructor is moved (or exchanged / swapped),
    # not copied - a copy leaves the content in the source, which is to be "empty and usable again"
    CONT = re.compile(r'std::(vector|map|unordered_map|set|unordered_set|list|deque|multimap)<')
    k = 0
    for c in F.classes:
        if c.get('inst') != 0 or c['name'] not in MATRIX_LEVEL:
            continue
        cont = [fl['n'] for fl in c.get('fields', []) if CONT.search((fl.get('ct') or '') + ' ' + (fl.get('t') or ''))]
        mcs = [f for f in F.functions if f.get('clsname') == c['name'] and f.get('kind') == 'move_ctor' and
               f.get('inst') in (0, 2) and f.get('body') is not None]
        for f in mcs[:1]:
            src = f['params'][0]['n']
            for mname in cont:
                ini = _init_of(f, mname)
                if ini is None or not _mentions_other_field(ini, src, mname):
                    continue
                k += 1
                t = ir.show(ini)
                emptied = any(w in t for w in ('move', 'exchange', 'swap')) or any(
                    ir.is_call(y) and ir.call_name(y) in ('clear', 'swap') and
                    ir.show(ir.call_receiver(y) or {}).replace(' ', '') == '%s.%s' % (src, mname)
                    for y in ir.walk(f['body']))
                chk.ob('E1m-container', '%s: the move constructor empties `%s.%s`' % (c['name'], src, mname),
                       '%s:%d' % (rel(f['file']), f['line']), emptied,
                       '' if emptied else '`%s(%s)` copies the container: the moved-from object keeps its content (its '
                       'counts, its dictionary) and answers from it when it is filled again' % (mname, t[:40]),
                       key='E1m|%s|%s|container' % (c['name'], mname))
    chk.expect_count('E1m-container', 'container members taken over by a move constructor', k, 10)
    cs = [f for f in F.functions if f.get('clsname') == 'Matrix_row_access' and f.get('kind') == 'copy_ctor' and
          f.get('inst') in (0, 2) and f.get('body') is not None]
    if not cs:
        raise AnalysisBroken('C15: copy constructor of Matrix_row_access not found')
    f = cs[0]
    src = f['params'][0]['n']
    tests = [x for x in ir.walk(f['body']) if x.get('k') == 'IfStmt' and x.get('constexpr') and
             'has_removable_rows' in ir.show(x.get('cond'))]
    ok = bool(tests)
    for t in tests:
        for arm in (t.get('then'), t.get('else')):
            if arm is None or not ir.contains(arm, lambda y: y.get('k') in ir.MEMBER_KINDS and y.get('n') == 'rows_' and
                                              y.get('c') and (ir.skipcasts(y['c'][0]) or {}).get('n') == src):
                ok = False
    chk.ob('E1-rows-kept', 'Matrix_row_access: the copy constructor reads the rows of its source for both kinds of row '
           'containers', '%s:%d' % (rel(f['file']), f['line']), ok,
           '' if ok else 'an arm of the test on has_removable_rows does not look at `%s.rows_`: the rows which are empty '
           'but not erased are missing in the copy (get_row throws on the copy only)' % src,
           key='E1|Matrix_row_access|rows-kept')


def run_moved_from_cache(chk, F):
    """E1b-cache: "a moved-from object is empty and usable again": a cache member (tables/c15.json, kind `cache`) of
    the source is left empty by a move. Moving the container out (`f = std::move(src.f)`, `std::exchange`) or clearing
    it does that; *swapping* it with the target's does it only if the target's cache was empty - true in a move
    constructor, not in a move assignment unless the target's cache is cleared first. Decided on the statement
    sequence of each move assignment with its delegates on `*this` inlined at their call (the bodies are straight
    line code; a swap inside a branch counts)."""
    import re
    n = 0
    for key, (kind, _why) in TABLE['e1_field_exempt'].items():
        if kind != 'cache':
            continue
        cname, fld = key.split('::')
        fns = [f for f in F.functions if f.get('clsname') == cname and f.get('inst') in (0, 2) and
               f.get('body') is not None and f.get('unit') not in ('mx_inst', 'mx_cls')]
        by = {}
        for f in fns:
            by.setdefault(f['name'], []).append(f)
        for ma in [f for f in fns if f.get('kind') == 'move_assign']:
            src = ma['params'][0]['n']
            events = []

            def scan(f, srcname, depth):
                for x in ir.walk(f['body'], False):
                    t = ir.show(x).replace(' ', '')
                    if ir.is_call(x):
                        nm = ir.call_name(x)
                        args = [ir.show(a).replace(' ', '') for a in ir.call_args(x)]
                        recv = ir.show(ir.call_receiver(x)).replace(' ', '') if ir.call_receiver(x) is not None else ''
                        if nm == 'clear' and recv in (fld, 'this->' + fld):
                            events.append(('CLEAR', x))
                        elif nm == 'swap' and ((recv in (fld, 'this->' + fld) and args == [srcname + '.' + fld]) or
                                               sorted(args) == sorted([fld, srcname + '.' + fld])):
                            events.append(('SWAP', x))
                        elif ir.is_this_call(x) and nm in by and depth > 0 and args[:1] == [srcname]:
                            for g in by[nm]:
                                if g.get('params'):
                                    scan(g, g['params'][0]['n'], depth - 1)
                    if x.get('k') in ('BinaryOperator', 'CXXOperatorCallExpr') and x.get('op') == '=':
                        cs = [ir.show(c).replace(' ', '') for c in (x.get('c') or [])[-2:]]
                        if len(cs) == 2 and cs[0] in (fld, 'this->' + fld):
                            if re.search(r'(move|exchange)\(%s\.%s' % (re.escape(srcname), re.escape(fld)), cs[1]):
                                events.append(('MOVE', x))
                            elif cs[1] in ('{}', fld + '()'):
                                events.append(('CLEAR', x))
            scan(ma, src, 2)
            n += 1
            bad = None
            cleared = False
            for ev, node in events:
                if ev == 'CLEAR':
                    cleared = True
                elif ev == 'SWAP' and not cleared and bad is None:
                    bad = node
            touched = any(ev in ('SWAP', 'MOVE') for ev, _ in events)
            chk.ob('E1b-cache', '%s move assignment leaves the source\'s `%s` empty' % (cname, fld),
                   '%s:%d' % (rel(ma['file']), ma['line']), bad is None and touched,
                   '' if (bad is None and touched) else (
                       '`%s` (line %s) exchanges the cache with the target\'s, which was not cleared: the moved-from '
                       'object keeps the target\'s old cache (handles of nodes that were just deleted)'
                       % (ir.show(bad), bad.get('l')) if bad is not None else
                       'the cache of the source is neither moved out, exchanged nor cleared'),
                   key='E1b|%s::move_assign|%s|source-empty' % (cname, fld))
    chk.expect_count('E1b-cache', 'move assignments of classes with a cache member', n, 1)


def run_nullness(chk, F):
    """E12: no operation dereferences, member-accesses or destroys a pointer that the class itself treats as nullable on
    a path on which it can be null (gsa/nullness.py). Covers every class of the two families except the general
    matrices and column classes, which C09 checks with the same engine."""
    from gsa import nullness
    from rules import c09
    by = {}
    seen = set()
    for f in F.functions:
        if f.get('inst') not in (0, 2) or f.get('body') is None or f.get('unit') in ('mx_inst', 'mx_cls'):
            continue
        c = f.get('cls') or f.get('friendof')
        if not c or any(g in f['file'] for g in c09.GENERAL_FILES):
            continue
        key = (f['file'], f['line'], f['name'])
        if key in seen:
            continue
        seen.add(key)
        by.setdefault(c, []).append(f)
    n_cls = n_sinks = 0
    # a nullable member function is nullable for its callers in other classes too (iterators calling into the tree)
    global_nullable = set()
    for c, fns in by.items():
        global_nullable |= nullness.nullable_calls(fns)
    for c, fns in sorted(by.items()):
        res, stats = nullness.analyse_class(fns, extra_ncalls=global_nullable)
        if not stats['sinks'] and not any(fs for _f, fs, _s in res):
            continue
        n_cls += 1
        n_sinks += stats['sinks']
        cname = c.split('::')[-1]
        for f, fs, sinks in res:
            if sinks == 0 and not fs:
                continue
            where = '%s:%d' % (rel(f['file']), f['line'])
            if not fs:
                chk.ob('E12-nullness', '%s::%s: %d uses of nullable pointers are dominated by a non-null fact'
                       % (cname, f['name'], sinks), where, True, '', key='E12|%s::%s' % (cname, f['name']))
            for x in fs:
                chk.ob('E12-nullness', '%s::%s: %s of `%s`' % (cname, f['name'], x.kind, x.key),
                       '%s:%s' % (rel(f['file']), x.line), False,
                       '`%s` %s on this path and is used by %s' % (x.key, 'is null' if x.state == 'N' else
                                                                  'may be null', x.text),
                       key='E12|%s::%s|%s|%s' % (cname, f['name'], x.key, x.kind.split(' ')[0]))
    chk.count('E12 classes with nullable pointers', n_cls)
    chk.count('E12 uses of nullable pointers checked', n_sinks)
    chk.expect_count('E12-nullness', 'uses of nullable pointers', n_sinks, 10)


def run(tier, replay=None):
    chk = Check('C15', tier,
                'Static decision of structural clauses of C15 on the template patterns of Simplex_tree and '
                'Persistence_matrix (plus bounded deserialisation reads, the static-state inventory and settings aliasing): (E1) every hand-written copy/move constructor, copy/move assignment and friend '
                'swap takes every non-empty data member and base sub-object from its source; (E1b) move constructor '
                'and move assignment reset the same source fields; (E1c) no assignment operator flows off its end. '
                'Decides these clauses, not observational equality of round trips.',
                'custom libTooling AST extraction + member-coverage / path rules (E1, E1b, E1c)')
    F = facts.extract(UNITS)
    chk.count('units', len(F.units))
    chk.count('functions parsed', len(F.functions))
    chk.count('classes parsed', len(F.classes))
    run_e1(chk, F)
    run_e1c(chk, F)
    run_bounded_reads(chk, F)
    run_static_state(chk, F)
    run_nullness(chk, F)
    run_self_referential(chk, F)
    run_assertions(chk, F)
    run_moved_from_cache(chk, F)
    run_settings_forwarding(chk, F)
    run_settings_alias(chk, F)
    run_conditional_bases(chk, F)
    run_scalar_init(chk, F)
    run_copy_counters(chk, F)
    run_field_guards(chk, F)
    run_tree_roundtrip_clauses(chk, F)
    run_field_guards(chk, facts.extract(CONTROL_UNITS), control=True)
    run_text_roundtrip(chk, F)
    run_moved_from(chk, F)
    run_moved_from_functions(chk, F)
    # deserialisation rebuilds the dimension bound of the tree it creates (shared rule C01/R3b)
    from rules import c01, c03
    from gsa import summary
    st = c03._only(F, 'st_pat')
    _cls, st_fns = c01.simplex_tree_functions(st)
    c01.run_r3b(chk, st_fns, summary.ClassGraph(st_fns), only=('rec_deserialize', 'deserialize', 'rec_copy', 'copy_from'),
                min_count=2)
    chk.assumptions += ['clang 14 parser/Sema', 'template patterns analysed (all if-constexpr arms present)',
                        'exemption table tables/c15.json (one named symbol + reason each)']
    return chk

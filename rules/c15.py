"""C15 copies, moves, swaps and serialisation: structural clauses decided statically (DESIGN 4/C15)."""
import json
import os

from gsa import e1, facts, ir, paths
from gsa.facts import Unit, rel
from gsa.report import Check

TABLE = json.load(open(os.path.join(facts.VERIF, 'tables', 'c15.json')))

UNITS = [
    Unit('st_pat', 'simplex_tree_pat.cpp', ['src/Simplex_tree/'], no_inst=True),
    Unit('mx_pat', 'matrix_pat.cpp', ['src/Persistence_matrix/', 'src/Zigzag_persistence/'], no_inst=True),
]


def copy_like(cls, fn):
    """Classify fn: 'copy_ctor'/'move_ctor'/'copy_assign'/'move_assign'/'swap'/'copy_ctor+'/'move_ctor+' or None."""
    if fn['kind'] in e1.SPECIAL:
        return fn['kind']
    if fn.get('friendof') and fn['name'] == 'swap':
        return 'swap'
    if fn['kind'] == 'ctor' and fn.get('params'):
        t = fn['params'][0].get('t', '')
        core = t.replace('const ', '').replace('&', '').strip()
        if core == cls['name'] or core.startswith(cls['name'] + '<') or core.endswith('::' + cls['name']):
            if '&&' in t:
                return 'move_ctor+'
            if '&' in t:
                return 'copy_ctor+'
    return None


def _exempt(cls, field, cov, kind):
    e = TABLE['e1_field_exempt'].get('%s::%s' % (cls, field))
    if not e:
        return False
    if e[0] == 'rebuilt':
        return field in cov['this']
    if e[0] == 'cache':
        # a constructor starts from the member's default (empty) state; an assignment must drop the old cache
        return kind.endswith('ctor') or kind.endswith('ctor+') or field in cov['thisw']
    return True


def run_e1(chk, F):
    n_special = 0
    for c in F.classes:
        if c['inst'] not in (0, 2):
            continue
        fields = [f for f in c['fields'] if not f.get('empty')]
        cfs = e1.class_functions(F, c)
        kinds = {}
        for fn in cfs:
            kind = copy_like(c, fn)
            if kind is None or fn.get('defaulted'):
                continue
            n_special += 1
            fkey = '%s::%s' % (c['name'], kind)
            where = '%s:%d' % (rel(fn['file']), fn['line'])
            if fkey in TABLE['e1_function_exempt']:
                chk.count('E1 exempt functions')
                continue
            cov = e1.coverage(F, c, fn, depth=3)
            kinds.setdefault(kind.rstrip('+'), []).append((fn, cov))
            for f in fields:
                name = f['n']
                if name in cov['src']:
                    ok, why = True, 'read from the source object'
                elif _exempt(c['name'], name, cov, kind):
                    ok, why = True, 'exempt: %s' % TABLE['e1_field_exempt']['%s::%s' % (c['name'], name)][1]
                else:
                    ok, why = False, ('field %s of %s is never taken from the source object in %s (followed: %s)'
                                      % (name, c['name'], kind, ','.join(cov['via']) or '-'))
                chk.ob('E1-field', '%s %s.%s' % (fkey, c['name'], name), where, ok, why,
                       key='E1|%s|%s' % (fkey, name))
            for b in c['bases']:
                if b.get('empty'):
                    continue
                bk = '%s::%s' % (c['name'], b['t'])
                bk2 = '%s::%s::%s' % (c['name'], kind.rstrip('+'), b['t'])
                if bk in TABLE['e1_base_exempt'] or bk2 in TABLE['e1_base_exempt']:
                    continue
                ok = e1.base_mentioned(b, cov['bases'])
                chk.ob('E1-base', '%s base %s' % (fkey, b['t'][:80]), where, ok,
                       '' if ok else 'base sub-object %s is not copied/moved/swapped in %s' % (b['t'], kind),
                       key='E1|%s|base %s' % (fkey, e1._head(b['t']) if not b['t'].startswith('std::conditional')
                                              else b['t'][:120]))
        # E1b: move ctor and move assignment leave the source in the same state
        if 'move_ctor' in kinds and 'move_assign' in kinds:
            (f1, c1), (f2, c2) = kinds['move_ctor'][0], kinds['move_assign'][0]
            diff = sorted(c1['srcw'] ^ c2['srcw'])
            chk.ob('E1b-move-parity', '%s move ctor vs move assignment' % c['name'],
                   '%s:%d' % (rel(f2['file']), f2['line']), not diff,
                   '' if not diff else 'source fields reset by only one of the two: %s (ctor resets %s, assignment %s)'
                   % (diff, sorted(c1['srcw']), sorted(c2['srcw'])),
                   key='E1b|%s|%s' % (c['name'], ','.join(diff)))
    chk.count('E1 special members / swaps evaluated', n_special)
    chk.expect_count('E1', 'hand-written special members', n_special, TABLE['e1_min_special_members'])


def run_e1c(chk, F):
    """Every assignment operator returns on every path (flowing off the end of a non-void function is UB)."""
    n = 0
    for fn in F.functions:
        if fn['inst'] not in (0, 2) or fn['name'] != 'operator=':
            continue
        if fn.get('ret', 'void') == 'void' or fn.get('defaulted'):
            continue
        n += 1
        ps = paths.enumerate_paths(fn, lambda x: [], keep_conds=False)
        bad = [p for p in ps if p.end == 'fall']
        chk.ob('E1c-assign-returns', '%s::operator=' % fn.get('clsname'),
               '%s:%d' % (rel(fn['file']), fn['line']), not bad,
               '' if not bad else 'a path reaches the end of the non-void operator= without a return statement',
               key='E1c|%s::operator=|%s' % (fn.get('clsname'), fn['kind']))
    chk.count('E1c assignment operators', n)
    chk.expect_count('E1c', 'assignment operators', n, 40)


def run(tier, replay=None):
    chk = Check('C15', tier,
                'Static decision of structural clauses of C15 on the template patterns of Simplex_tree and '
                'Persistence_matrix: (E1) every hand-written copy/move constructor, copy/move assignment and friend '
                'swap takes every non-empty data member and base sub-object from its source; (E1b) move constructor '
                'and move assignment reset the same source fields; (E1c) no assignment operator flows off its end. '
                'Decides these clauses, not observational equality of round trips.',
                'custom libTooling AST extraction + member-coverage / path rules (E1, E1b, E1c)')
    F = facts.extract(UNITS)
    chk.count('units', len(F.units))
    chk.count('functions parsed', len(F.functions))
    chk.count('classes parsed', len(F.classes))
    run_e1(chk, F)
    run_e1c(chk, F)
    chk.assumptions += ['clang 14 parser/Sema', 'template patterns analysed (all if-constexpr arms present)',
                        'exemption table tables/c15.json (one named symbol + reason each)']
    return chk

"""C10 coefficient fields: range safety / closure / sign-safe reduction decided by the symbolic range interpreter
(gsa/absint.py) on concrete integer instantiations, plus structural rules (DESIGN 4/C10)."""
import json
import os

from gsa import absint, facts, ir, paths
from gsa.facts import Unit, rel, AnalysisBroken
from gsa.report import Check

TABLE = json.load(open(os.path.join(facts.VERIF, 'tables', 'c10.json')))
FIELD_DIR = 'src/Persistence_matrix/include/gudhi/Fields/'
UNITS = [Unit('fields', 'fields_inst.cpp',
              [FIELD_DIR, 'src/Persistent_cohomology/include/gudhi/Persistent_cohomology/Field_Zp.h'])]


def field_zp_bound(F):
    """the largest characteristic Field_Zp::init accepts: read from its guard `if (Prime > N) throw`"""
    for f in F.funcs('init', cls='Field_Zp'):
        for x in ir.walk(f.get('body')):
            if x.get('k') == 'IfStmt':
                c = ir.skipcasts(x.get('cond'))
                if c is not None and c.get('k') == 'BinaryOperator' and c.get('op') in ('>', '>='):
                    a, b = ir.skipcasts(c['c'][0]), ir.skipcasts(c['c'][1])
                    if ir.show(a) == 'Prime' and b is not None and b.get('k') == 'IntegerLiteral' and \
                            ir.contains(x.get('then'), lambda y: y.get('k') == 'CXXThrowExpr'):
                        n = int(b['v'])
                        return n if c['op'] == '>' else n - 1
    raise AnalysisBroken('Field_Zp::init: upper-bound guard `if (Prime > N) throw` not found')


def run_ranges(chk, F):
    n_fn = 0
    n_q = 0
    for cname, spec in TABLE['classes'].items():
        pmax = spec['pmax']
        if pmax == 'from-init-guard':
            pmax = field_zp_bound(F)
            chk.count('Field_Zp accepted maximum (read from init guard)', pmax)
            if pmax < TABLE['field_zp_stated_max']:
                chk.ob('E3-bound', 'Field_Zp::init accepts every prime <= %d' % TABLE['field_zp_stated_max'],
                       'Field_Zp.h', False, 'init refuses characteristics above %d' % pmax, key='E3|Field_Zp|bound')
        cfg = absint.Config(spec['modulus'], 2, pmax, reduced_fields=spec.get('reduced_fields', ['element_']),
                            helpers=spec.get('helpers', {}), modulus_params=spec.get('modulus_params', []))
        fns = [f for f in F.functions if f.get('clsname') == cname and f['inst'] in (1, 2)]
        if not fns:
            raise AnalysisBroken('C10: class %s has no instantiated functions in the unit' % cname)
        seen = 0
        for f in fns:
            role = None
            for pat, r in spec['functions'].items():
                if f['name'] == pat:
                    role = r
            if role is None:
                continue
            seen += 1
            n_fn += 1
            sig = '%s::%s(%s)' % (cname, f['name'], ', '.join(p.get('t', '?').split('::')[-1] for p in f['params']))
            where = '%s:%d' % (rel(f['file']), f['line'])
            closure = role.get('closure', True)
            obs, q, npaths = absint.analyse(f, cfg, closure=closure, closure_refs=role.get('refs', []))
            n_q += q
            chk.count('E3 questions decided by Fourier-Motzkin', q)
            chk.count('E3 symbolic paths', npaths)
            if npaths == 0:
                raise AnalysisBroken('C10: no path of %s reaches a return' % sig)
            kinds = {}
            for o in obs:
                kinds.setdefault(o.kind, []).append(o)
            for kind in ('wrap', 'sconv', 'soverflow', 'closure', 'precond', 'div0'):
                lst = kinds.get(kind, [])
                rule = {'wrap': 'E3-range', 'soverflow': 'E3-range', 'div0': 'E3-range', 'sconv': 'E4-sign',
                        'closure': 'E3-closure', 'precond': 'E3-closure'}[kind]
                chk.ob(rule, '%s: %s' % (sig, kind), where, not lst,
                       '; '.join('line %s: %s' % (o.node.get('l'), o.msg) for o in lst[:3]),
                       key='%s|%s|%s' % (rule, sig, kind))
        if seen < spec.get('min_functions', 1):
            raise AnalysisBroken('C10: class %s: only %d of the expected functions found' % (cname, seen))
    chk.count('E3 functions interpreted', n_fn)


def run(tier, replay=None):
    chk = Check('C10', tier,
                'Static decision of arithmetic-safety clauses of the coefficient-field classes on concrete integer '
                'instantiations: for every modulus in the range the property states and all reduced operands, no '
                'intermediate of _add/_subtract/_multiply, the fused operations and get_value wraps harmfully or '
                'overflows, no possibly negative signed value is converted to unsigned before % or a comparison, and '
                'every result is again in [0, modulus). Decided by a symbolic linear-form interpreter with exact '
                'Fourier-Motzkin elimination (no sampling, no execution).',
                'abstract interpretation: linear forms + Fourier-Motzkin over the clang AST (E3/E4)')
    F = facts.extract(UNITS)
    chk.count('functions parsed', len(F.functions))
    run_ranges(chk, F)
    chk.assumptions += ['clang 14 parser/Sema and its implicit-conversion nodes', 'operands of the arithmetic helpers '
                        'are reduced (the property quantifies over reduced operands)', 'helper contracts of '
                        'tables/c10.json are each verified on the helper itself']
    return chk

"""C10 coefficient fields: range safety / closure / sign-safe reduction decided by the symbolic range interpreter
(gsa/absint.py) on concrete integer instantiations, plus structural rules (DESIGN 4/C10)."""
import json
import os
import re

from gsa import absint, facts, ir, paths
from gsa.facts import Unit, rel, AnalysisBroken
from gsa.report import Check

TABLE = json.load(open(os.path.join(facts.VERIF, 'tables', 'c10.json')))
FIELD_DIR = 'src/Persistence_matrix/include/gudhi/Fields/'
UNITS = [Unit('fields', 'fields_inst.cpp',
              [FIELD_DIR, 'src/Persistent_cohomology/include/gudhi/Persistent_cohomology/Field_Zp.h',
               'src/Persistent_cohomology/include/gudhi/Persistent_cohomology/Multi_field.h',
               os.path.join(facts.VERIF, 'drivers', 'fields_inst.cpp')])]


def field_zp_bound(F):
    """the largest characteristic Field_Zp::init accepts: read from its guard `if (Prime > N) throw`"""
    for f in F.funcs('init', cls='Field_Zp'):
        names = {'Prime'} | {q['n'] for q in f.get('params', [])}    # the member, or the value about to become it
        for x in ir.walk(f.get('body')):
            if x.get('k') == 'IfStmt':
                c = ir.skipcasts(x.get('cond'))
                if c is not None and c.get('k') == 'BinaryOperator' and c.get('op') in ('>', '>='):
                    a, b = ir.skipcasts(c['c'][0]), ir.skipcasts(c['c'][1])
                    if ir.show(a) in names and b is not None and b.get('k') == 'IntegerLiteral' and \
                            ir.contains(x.get('then'), lambda y: y.get('k') == 'CXXThrowExpr'):
                        n = int(b['v'])
                        return n if c['op'] == '>' else n - 1
    raise AnalysisBroken('Field_Zp::init: upper-bound guard `if (Prime > N) throw` not found')


def elem_type(f):
    """element type of the instantiation, from the template arguments of the enclosing class"""
    ta = f.get('targs') or ''
    for t in ('unsigned short', 'unsigned long', 'unsigned char', 'unsigned int'):
        if t in ta.split('::')[0]:
            return t
    return 'unsigned int'


def run_ranges(chk, F):
    n_fn = 0
    n_q = 0
    for cname, spec in TABLE['classes'].items():
        pmax = spec['pmax']
        if pmax == 'from-init-guard':
            pmax = field_zp_bound(F)
            chk.count('Field_Zp accepted maximum (read from init guard)', pmax)
            if pmax < TABLE['field_zp_stated_max']:
                chk.ob('E3-bound', 'Field_Zp::init accepts every prime <= %d' % TABLE['field_zp_stated_max'],
                       'Field_Zp.h', False, 'init refuses characteristics above %d' % pmax, key='E3|Field_Zp|bound')
        cfg0 = absint.Config(spec['modulus'], 2, pmax, reduced_fields=spec.get('reduced_fields', ['element_']),
                             helpers=spec.get('helpers', {}), modulus_params=spec.get('modulus_params', []))
        cfg = cfg0
        fns = [f for f in F.functions if f.get('clsname') == cname and f['inst'] in (1, 2)]
        if not fns:
            raise AnalysisBroken('C10: class %s has no instantiated functions in the unit' % cname)
        seen = 0
        for f in fns:
            role = None
            for pat, r in spec['functions'].items():
                if f['name'] == pat:
                    role = r
            if role is None:
                continue
            seen += 1
            n_fn += 1
            et = elem_type(f)
            sig = '%s%s::%s(%s)' % (cname, '<%s>' % et if et != 'unsigned int' else '', f['name'],
                                    ', '.join(p.get('t', '?').split('::')[-1] for p in f['params']))
            # the modulus cannot exceed the element type
            tmax = {'unsigned short': 65535, 'unsigned char': 255}.get(et)
            if et == 'unsigned long' and spec.get('pmax64'):
                tmax = spec['pmax64']          # the modulus only has to fit the 64-bit element type
            if tmax is not None and (tmax < cfg.pmax or et == 'unsigned long'):
                cfg = absint.Config(spec['modulus'], 2, tmax, reduced_fields=spec.get('reduced_fields', ['element_']),
                                    helpers=spec.get('helpers', {}), modulus_params=spec.get('modulus_params', []))
            else:
                cfg = cfg0
            where = '%s:%d' % (rel(f['file']), f['line'])
            closure = role.get('closure', True)
            obs, q, npaths = absint.analyse(f, cfg, closure=closure, closure_refs=role.get('refs', []))
            n_q += q
            chk.count('E3 questions decided by Fourier-Motzkin', q)
            chk.count('E3 symbolic paths', npaths)
            if npaths == 0:
                raise AnalysisBroken('C10: no path of %s reaches a return' % sig)
            kinds = {}
            for o in obs:
                kinds.setdefault(o.kind, []).append(o)
            for kind in ('wrap', 'sconv', 'soverflow', 'closure', 'precond', 'div0'):
                lst = kinds.get(kind, [])
                rule = {'wrap': 'E3-range', 'soverflow': 'E3-range', 'div0': 'E3-range', 'sconv': 'E4-sign',
                        'closure': 'E3-closure', 'precond': 'E3-closure'}[kind]
                chk.ob(rule, '%s: %s' % (sig, kind), where, not lst,
                       '; '.join('line %s: %s' % (o.node.get('l'), o.msg) for o in lst[:3]),
                       key='%s|%s|%s' % (rule, sig, kind))
        if seen < spec.get('min_functions', 1):
            raise AnalysisBroken('C10: class %s: only %d of the expected functions found' % (cname, seen))
    chk.count('E3 functions interpreted', n_fn)


def run(tier, replay=None):
    chk = Check('C10', tier,
                'Static decision of arithmetic-safety clauses of the coefficient-field classes on concrete integer '
                'instantiations: for every modulus in the range the property states and all reduced operands, no '
                'intermediate of _add/_subtract/_multiply, the fused operations and get_value wraps harmfully or '
                'overflows, no possibly negative signed value is converted to unsigned before % or a comparison, and '
                'every result is again in [0, modulus). Decided by a symbolic linear-form interpreter with exact '
                'Fourier-Motzkin elimination (no sampling, no execution).',
                'abstract interpretation: linear forms + Fourier-Motzkin over the clang AST (E3/E4)')
    F = facts.extract(UNITS)
    chk.count('functions parsed', len(F.functions))
    run_ranges(chk, F)
    run_refusal(chk, F)
    run_refusal_atomic(chk, F)
    run_refusal_empty(chk, F)
    run_operator_state(chk, F)
    run_z2_signed_fast_path(chk, F)
    run_inverse_product_width(chk, F)
    run_fresh_init(chk, F)
    run_isprime(chk, F, tier)
    run_partial_inverse(chk, F)
    run_idempotents(chk, F)
    run_inplace_targets(chk, F)
    run_euclid_width(chk, F)
    run_reduced_guards(chk, F)
    run_cohomology_closure(chk, F)
    run_use_sites(chk, F)
    chk.assumptions += ['clang 14 parser/Sema and its implicit-conversion nodes', 'operands of the arithmetic helpers '
                        'are reduced (the property quantifies over reduced operands)', 'helper contracts of '
                        'tables/c10.json are each verified on the helper itself']
    return chk


SETTERS = [('Zp_field_operators', 'set_characteristic'), ('Shared_Zp_field_element', 'initialize'), ('Field_Zp', 'init'),
           ('Multi_field_operators', 'set_characteristic'), ('Shared_multi_field_element', 'initialize'),
           ('Multi_field_operators_with_small_characteristics', 'set_characteristic'),
           ('Shared_multi_field_element_with_small_characteristics', 'initialize')]


def _state_write(x, statics):
    """the member (or static member) a statement modifies, or None"""
    def member_root(e):
        e = ir.skipcasts(e)
        while e is not None and e.get('k') in ('ArraySubscriptExpr', 'ParenExpr') or \
                (e is not None and e.get('k') == 'CXXOperatorCallExpr' and e.get('op') == '[]'):
            e = ir.skipcasts((e.get('c') or [None])[1] if e.get('k') == 'CXXOperatorCallExpr' else e['c'][0])
        if e is None:
            return None
        if ir.this_field(e):
            return ir.this_field(e)
        if e.get('k') == 'DeclRefExpr' and e.get('n') in statics:
            return e['n']
        return None
    t = ir.write_target(x)
    if t is not None:
        return member_root(t)
    if x.get('k') == 'UnaryOperator' and x.get('op') in ('++', '--'):
        return member_root(x['c'][0])
    if ir.is_call(x) and ir.call_name(x) in ('resize', 'clear', 'push_back', 'emplace_back', 'reserve', 'assign',
                                            'pop_back', 'erase', 'insert'):
        r = ir.call_receiver(x)
        return member_root(r) if r is not None else None
    return None


def run_refusal_atomic(chk, F):
    """E2-refusal-atomic: "a characteristic that is not a prime greater than 1 is refused". A setter that throws has
    not touched the field before: on no path of a run-time setter does a write to a member (an assignment, or
    resize / clear / push_back / [] on it; swap is the commit) precede a `throw`. Otherwise the caller who catches the
    refusal keeps a field whose table belongs to the refused value (x * x^-1 != 1) or that has no prime at all."""
    n = 0
    for cname, fname in SETTERS:
        fs = [f for f in F.functions if f.get('clsname') == cname and f['name'] == fname and f.get('body') is not None]
        fs = [f for f in fs if f['inst'] in (0, 2)] or fs
        if not fs:
            raise AnalysisBroken('C10: %s::%s not found' % (cname, fname))
        f = fs[0]
        cls = [c for c in F.classes if c['name'] == cname]
        statics = {fl['n'] for c in cls for fl in c.get('fields', [])} | \
                  {v['name'] for v in getattr(F, 'statics', []) if cname in (v.get('qual') or '')}
        # static data members are named as the members are: trailing underscore
        names = statics | {y.get('n') for y in ir.walk(f['body']) if y.get('k') == 'DeclRefExpr' and
                           (y.get('n') or '').endswith('_') and y.get('dk') != 'ParmVar'}

        def cl(x, names=names):
            if x.get('k') == 'CXXThrowExpr':
                return ['THROW']
            w = _state_write(x, names)
            return ['WRITE'] if w else []
        ps = paths.enumerate_paths(f, cl, loop_mode='01', keep_conds=False, cap=60000)
        if not any(p_.end == 'throw' or 'THROW' in p_.tags() for p_ in ps):
            raise AnalysisBroken('C10: %s::%s never throws' % (cname, fname))
        n += 1
        bad = None
        for p_ in ps:
            t = p_.tags()
            if 'THROW' in t:
                t = t[:t.index('THROW')]
            elif p_.end != 'throw':
                continue
            if 'WRITE' in t and bad is None:
                bad = [e for e in p_.events if e[0] == 'WRITE'][0][1]
        chk.ob('E2-refusal-atomic', '%s::%s has changed nothing when it refuses (%d paths)' % (cname, fname, len(ps)),
               '%s:%d' % (rel(f['file']), f['line']), bad is None,
               '' if bad is None else 'line %s `%s` modifies the field and a refusal comes afterwards on the same path: '
               'the field the caller keeps is neither the former one nor a valid one' % (
                   bad.get('l'), ir.show(bad)[:50]),
               key='E2ref|%s::%s|atomic' % (cname, fname))
    chk.expect_count('E2-refusal-atomic', 'run-time setters', n, 7)


def run_inverse_product_width(chk, F):
    """E3-inverse-width: the table of inverses is found by trying inv = 1, 2, ... until (inv * i) % p == 1, and a
    composite p is recognised by inv * i == p: both need the exact product, which reaches (p-1)^2. The variable that
    receives `inv * i` has a 64-bit type (p < 2^32), or the setter bounds p so that (p-1)^2 fits its type (Field_Zp:
    int and p <= 46337, read from its guard)."""
    n = 0
    for cname, fname in SETTERS[:3]:
        fs = [f for f in F.functions if f.get('clsname') == cname and f['name'] == fname and f.get('body') is not None]
        insts = [f for f in fs if f['inst'] == 1] or fs
        for f in insts:
            prods = [x for x in ir.walk(f['body']) if x.get('k') == 'VarDecl' and x.get('init') is not None and
                     (ir.skipcasts(x['init']) or {}).get('k') == 'BinaryOperator' and
                     (ir.skipcasts(x['init']) or {}).get('op') == '*']
            for x in prods:
                n += 1
                ty = (x.get('ct') or x.get('t') or '').replace('const ', '').strip()
                wide = ty in ('unsigned long long', 'unsigned long', 'long long', 'long', 'std::size_t', 'size_t',
                              'std::uint64_t', 'uint64_t')
                bounded = False
                if not wide and ty == 'int' and cname == 'Field_Zp':
                    b = field_zp_bound(F)
                    bounded = (b - 1) * (b - 1) <= 2 ** 31 - 1
                ok = wide or bounded
                chk.ob('E3-inverse-width', '%s::%s%s: the product `%s` of the inverse search is exact' % (
                    cname, fname, ' [%s]' % elem_type(f) if f['inst'] == 1 else '', ir.show(x['init'])[:30]),
                    '%s:%s' % (rel(f['file']), x.get('l')), ok,
                    '' if ok else '`%s %s = %s` is cut to %s: beyond (p-1)^2 > max the search finds a wrong inverse or '
                    'never ends, and a composite characteristic is not recognised' % (ty, x.get('n'),
                                                                                      ir.show(x['init'])[:30], ty),
                    key='E3w|%s::%s|inverse-width|%s' % (cname, fname, ty))
    chk.expect_count('E3-inverse-width', 'products of the inverse search', n, 3)


def run_refusal_empty(chk, F):
    """E2-refusal-empty: an interval that contains no prime is refused by every multi-field setter: a decision
    `<primes>.empty()` (or a size test against 0) whose true arm throws."""
    n = 0
    for cname, fname in SETTERS[3:] + [('Multi_field', 'init')]:
        fs = [f for f in F.functions if f.get('clsname') == cname and f['name'] == fname and f.get('body') is not None]
        fs = [f for f in fs if f['inst'] in (0, 2)] or fs
        if not fs:
            raise AnalysisBroken('C10: %s::%s not found' % (cname, fname))
        f = fs[0]
        n += 1
        ok = any(x.get('k') == 'IfStmt' and _has_throw(x.get('then')) and
                 re.search(r'primes_?\.(empty\(\)|size\(\) == 0)', ir.show(x.get('cond')))
                 for x in ir.walk(f['body']))
        chk.ob('E2-refusal-empty', '%s::%s refuses an interval without prime' % (cname, fname),
               '%s:%d' % (rel(f['file']), f['line']), ok,
               '' if ok else 'no `if (primes.empty()) throw`: the product of no prime is 1, the field silently becomes '
               'Z/1Z (characteristic 1, multiplicative identity 0)', key='E2ref|%s::%s|empty-interval' % (cname, fname))
    chk.expect_count('E2-refusal-empty', 'multi-field setters', n, 5)


def run_operator_state(chk, F):
    """E1-operator-state: the operator classes carry their field in data members (characteristic, product, primes,
    tables of inverses / partial identities). Their friend `swap` (used by the assignment of the matrices that own
    them) exchanges every data member: for each non-static member there is an expression mentioning it on both
    arguments. A member left out stays with the old object: the swapped operators announce one field and compute
    inverses with the tables of the other."""
    n = 0
    for f in F.functions:
        if f['name'] != 'swap' or len(f.get('params', [])) != 2 or f.get('body') is None or \
                f.get('inst') not in (0, 2) or '/Fields/' not in f['file']:
            continue
        t0 = (f['params'][0].get('t') or '').replace('&', '').strip()
        cname = t0.split('::')[-1].split('<')[0]
        cls = [c for c in F.classes if c['name'] == cname and c.get('fields')]
        if not cls:
            continue
        a, b = f['params'][0]['n'], f['params'][1]['n']
        fields = [fl['n'] for fl in cls[0]['fields'] if not fl.get('static')]
        if not fields:
            continue
        n += 1
        seen = {a: set(), b: set()}
        for x in ir.walk(f['body']):
            if x.get('k') in ir.MEMBER_KINDS and x.get('n') in fields and x.get('c'):
                base = ir.skipcasts(x['c'][0])
                if base is not None and base.get('n') in seen:
                    seen[base['n']].add(x['n'])
        missing = [m for m in fields if m not in seen[a] or m not in seen[b]]
        chk.ob('E1-operator-state', 'swap(%s&, %s&) exchanges every data member (%s)' % (cname, cname, ', '.join(fields)),
               '%s:%d' % (rel(f['file']), f['line']), not missing,
               '' if not missing else '`%s` is not exchanged: each object keeps its own table while announcing the '
               'field of the other' % '`, `'.join(missing), key='E1|%s|swap-state' % cname)
    chk.expect_count('E1-operator-state', 'friend swaps of stateful field classes', n, 3)


def run_z2_signed_fast_path(chk, F):
    """E4-z2-fast-path: Z2_field_element converts any integer by its parity; the shortcut "already 0 or 1" is taken for
    0 <= e < 2 only: a condition with the upper bound alone sends every negative integer through it (-2 becomes 1)."""
    fs = [f for f in F.functions if (f.get('clsname') or '').startswith('Z2_field_element') and
          f['name'] == '_get_value' and f.get('body') is not None]
    if not fs:
        raise AnalysisBroken('C10: Z2_field_element::_get_value not found')
    n = 0
    for f in fs[:1]:
        for x in ir.walk(f['body']):
            if x.get('k') != 'ConditionalOperator' and x.get('k') != 'IfStmt':
                continue
            c = x['c'][0] if x.get('k') == 'ConditionalOperator' else x.get('cond')
            t = ir.show(c).replace(' ', '')
            if not re.search(r'<2|<=1', t):
                continue
            n += 1
            ok = re.search(r'>=0|>-1|0<=', t) is not None
            chk.ob('E4-z2-fast-path', 'Z2_field_element::_get_value takes its shortcut only for 0 <= e < 2',
                   '%s:%s' % (rel(f['file']), x.get('l')), ok,
                   '' if ok else '`%s` has no lower bound: a negative even integer is converted to 1' % ir.show(c)[:50],
                   key='E4|Z2_field_element::_get_value|fast-path')
    chk.expect_count('E4-z2-fast-path', 'range shortcuts in Z2_field_element::_get_value', n, 1)


# ------------------------------------------------------------------ refusal of non-primes (structural)

def _cmp_guard_rejects_small(cond, name):
    """cond is a comparison between `name` and a literal that is true for 0 and 1 and false for 2 (so that the
    false arm implies name >= 2). Decided by evaluating the comparison on these three values."""
    c = ir.skipcasts(cond)
    if c is None or c.get('k') not in ('BinaryOperator', 'CXXOperatorCallExpr'):
        return False
    ch = c.get('c') or []
    if c['k'] == 'CXXOperatorCallExpr':
        ch = ch[1:]
    if len(ch) != 2 or c.get('op') not in ('<', '<=', '>', '>=', '==', '!='):
        return False
    a, b = ir.skipcasts(ch[0]), ir.skipcasts(ch[1])

    def val(n, x):
        if n is None:
            return None
        if n.get('k') == 'IntegerLiteral':
            return int(n['v'])
        if ir.show(n) == name:
            return x
        return None
    import operator
    ops = {'<': operator.lt, '<=': operator.le, '>': operator.gt, '>=': operator.ge, '==': operator.eq,
           '!=': operator.ne}
    res = []
    for x in (0, 1, 2):
        va, vb = val(a, x), val(b, x)
        if va is None or vb is None:
            return False
        res.append(ops[c['op']](va, vb))
    return res == [True, True, False]


def _has_throw(n):
    return ir.contains(n, lambda y: y.get('k') == 'CXXThrowExpr')


def run_refusal(chk, F):
    n = 0
    for cname, fname, var in TABLE['runtime_characteristic_setters']:
        fs = [f for f in F.functions if f.get('clsname') == cname and f['name'] == fname and f['inst'] in (0, 2)]
        if not fs:
            fs = [f for f in F.functions if f.get('clsname') == cname and f['name'] == fname]
        if not fs:
            raise AnalysisBroken('C10: %s::%s not found' % (cname, fname))
        f = fs[0]
        where = '%s:%d' % (rel(f['file']), f['line'])
        n += 1
        small = [x for x in ir.walk(f['body']) if x.get('k') == 'IfStmt' and _has_throw(x.get('then')) and
                 _cmp_guard_rejects_small(x.get('cond'), var)]
        chk.ob('E2-refusal', '%s::%s refuses characteristics 0 and 1' % (cname, fname), where, bool(small),
               '' if small else 'no guard `if (%s <= 1) throw` (true for 0 and 1, false for 2) is left' % var,
               key='E2ref|%s::%s|small' % (cname, fname))
        # composite characteristics are refused by one of two mechanisms:
        #  (A) the inverse search throws when a multiple of an element equals the characteristic (a zero divisor);
        #  (B) a trial division `for (d = 2; BOUND; ++d) if (characteristic % d == 0) throw` run before the table
        comp = []
        for loop in ir.walk(f['body']):
            if loop.get('k') not in ('WhileStmt', 'DoStmt'):
                continue
            for x in ir.walk(loop.get('body')):
                if x.get('k') == 'IfStmt' and _has_throw(x.get('then')):
                    c = ir.skipcasts(x.get('cond'))
                    if c is not None and c.get('op') == '==' and var in (ir.show(c['c'][0]), ir.show(c['c'][-1])):
                        comp.append(x)
        trial = []
        for loop in ir.walk(f['body']):
            if loop.get('k') != 'ForStmt':
                continue
            for x in ir.walk(loop.get('body')):
                if x.get('k') == 'IfStmt' and _has_throw(x.get('then')):
                    t = ir.show(x.get('cond')).replace(' ', '').replace('(', '').replace(')', '')
                    m = re.match(r'^%s%%(\w+)==0$' % re.escape(var), t)
                    if m:
                        trial.append((loop, m.group(1)))
        why = ''
        ok_comp = bool(comp)
        if not comp and trial:
            loop, d = trial[0]
            bound = ir.show(loop.get('cond')).replace(' ', '').replace('(', '').replace(')', '')
            good = ('%s*%s<=%s' % (d, d, var), '%s<=%s/%s' % (d, var, d), '%s<%s' % (d, var), '%s<=%s-1' % (d, var),
                    '%s<=%s/2' % (d, var), '%s*2<=%s' % (d, var), '2*%s<=%s' % (d, var))
            short = ('%s*%s<%s' % (d, d, var), '%s<%s/%s' % (d, var, d))
            starts2 = ir.show(loop.get('init')).replace(' ', '').endswith('=2')
            if bound in good and starts2:
                ok_comp = True
            elif bound in short:
                why = ('the trial division stops at `%s`: a divisor equal to the square root is never tried, the '
                       'square of a prime (4, 9, 25, ...) is accepted as a characteristic' % ir.show(loop.get('cond')))
            else:
                raise AnalysisBroken('C10: %s::%s refuses composites by a trial division whose bound `%s` (start %s) '
                                     'the rule does not know' % (cname, fname, ir.show(loop.get('cond')),
                                                                 ir.show(loop.get('init'))))
        elif not comp:
            why = ('neither the inverse-table loop throws when a multiple of an element equals the characteristic nor '
                   'a trial division precedes it: a composite modulus is not detected')
        chk.ob('E2-refusal', '%s::%s refuses composite characteristics' % (cname, fname), where, ok_comp, why,
               key='E2ref|%s::%s|composite' % (cname, fname))
        # the table is filled for every residue 1..p-1
        loops = [x for x in ir.walk(f['body']) if x.get('k') == 'ForStmt' and
                 ir.contains(x.get('body'), lambda y: y.get('k') in ir.MEMBER_KINDS + ('DeclRefExpr',) and
                             (y.get('n') or '').startswith('inverse')) and not any(x is t_[0] for t_ in trial)]
        ok = False
        for lp in loops:
            init = ir.show(lp.get('init')).replace(' ', '')
            cond = ir.skipcasts(lp.get('cond'))
            if cond is not None and cond.get('op') == '<' and ir.show(cond['c'][1]) == var:
                if init.endswith('=1'):
                    ok = True
                if init.endswith('=2') and ir.contains(f['body'], lambda y: y.get('k') in (
                        'BinaryOperator', 'CXXOperatorCallExpr') and y.get('op') == '=' and
                        re.match(r'^inverse_?\[1\]$', ir.show(y['c'][-2]).replace(' ', ''))):
                    ok = True
        chk.ob('E2-refusal', '%s::%s visits every residue 1..p-1' % (cname, fname), where, ok,
               '' if ok else 'the loop over the residues is not `for (i = 1; i < %s; ...)`' % var,
               key='E2ref|%s::%s|allresidues' % (cname, fname))
    chk.expect_count('E2-refusal', 'run-time characteristic setters', n, 3)

    # compile-time classes: every constructor static_asserts primality
    m = 0
    for f in F.functions:
        if f.get('clsname') == 'Zp_field_element' and f['inst'] == 0 and f['kind'] in ('default_ctor', 'ctor'):
            m += 1
            sa = [x for x in ir.walk(f['body']) if x.get('k') == 'StaticAssert' and
                  ir.contains(x.get('cond'), lambda y: ir.is_call(y) and ir.call_name(y) == '_is_prime')]
            chk.ob('E2-refusal', 'Zp_field_element constructor (line %d) static_asserts _is_prime()' % f['line'],
                   '%s:%d' % (rel(f['file']), f['line']), bool(sa),
                   '' if sa else 'a constructor of the compile-time field no longer checks primality',
                   key='E2ref|Zp_field_element::ctor%d|static_assert' % len(f['params']))
    chk.expect_count('E2-refusal', 'Zp_field_element constructors', m, 2)


def skeleton(n, modname):
    t = ir.show(n)
    import re
    return re.sub(r'\b%s\b' % re.escape(modname), 'P', t)


def stmt_skeleton(n, modname, out):
    """flat rendering of a statement tree: control structure + expressions with the modulus renamed"""
    if n is None:
        return
    k = n.get('k')
    if k == 'CompoundStmt':
        for c in n.get('c') or []:
            stmt_skeleton(c, modname, out)
    elif k == 'IfStmt':
        out.append('if ' + skeleton(n.get('cond'), modname))
        stmt_skeleton(n.get('then'), modname, out)
        if n.get('else') is not None:
            out.append('else')
            stmt_skeleton(n.get('else'), modname, out)
        out.append('fi')
    elif k == 'ForStmt':
        out.append('for %s ; %s ; %s' % (skeleton(n.get('init'), modname), skeleton(n.get('cond'), modname),
                                         skeleton(n.get('inc'), modname)))
        stmt_skeleton(n.get('body'), modname, out)
        out.append('rof')
    elif k == 'WhileStmt':
        out.append('while ' + skeleton(n.get('cond'), modname))
        stmt_skeleton(n.get('body'), modname, out)
        out.append('elihw')
    elif k == 'ReturnStmt':
        out.append('return ' + skeleton(n.get('value'), modname))
    else:
        out.append(skeleton(n, modname))


def run_isprime(chk, F, tier):
    """(a) compile-fail witnesses decide Zp_field_element::_is_prime; (b) every sibling copy has the same skeleton"""
    import subprocess
    import tempfile
    lim = 65535 if tier == 'thorough' else 2100
    ns = list(range(0, lim + 1))
    if tier != 'thorough':
        ns += list(range(65400, 65536))

    def is_prime(n):
        if n < 2:
            return False
        i = 2
        while i * i <= n:
            if n % i == 0:
                return False
            i += 1
        return True
    chunks = [ns[i::16] for i in range(16)]
    failed = set()
    with tempfile.TemporaryDirectory(prefix='gsa-wit-') as td:
        procs = []
        for ci, ch in enumerate(chunks):
            src = os.path.join(td, 'w%d.cpp' % ci)
            with open(src, 'w') as fh:
                fh.write('#include <gudhi/Fields/Zp_field.h>\n'
                         'template <unsigned int N> void gsa_w() { Gudhi::persistence_fields::Zp_field_element<N> x; '
                         '(void)x; }\n')
                for n in ch:
                    fh.write('template void gsa_w<%dU>();\n' % n)
            cmd = ['clang++', '-fsyntax-only', '-ferror-limit=0', '-ftemplate-backtrace-limit=0'] + \
                facts.base_flags() + [src]
            procs.append(subprocess.Popen(cmd, stdout=subprocess.PIPE, stderr=subprocess.STDOUT, text=True))
        import re
        for pr in procs:
            out, _ = pr.communicate()
            # each failing static_assert is followed by a note naming gsa_w<N>
            cur_err = False
            for line in out.splitlines():
                if 'error:' in line:
                    cur_err = 'static_assert' in line or 'static assertion' in line
                    if not cur_err:
                        raise AnalysisBroken('C10 witness unit: unexpected error: ' + line[:300])
                mm = re.search(r"Zp_field_element<(\d+),", line)
                if mm and cur_err and 'requested here' in line:
                    failed.add(int(mm.group(1)))
    wrong = [n for n in ns if is_prime(n) == (n in failed)]
    chk.count('compile-fail witnesses (Zp_field_element<N> instantiations)', len(ns))
    chk.ob('E8-isprime-witness', 'Zp_field_element<N> compiles exactly for prime N (N in %d witnesses up to %d)'
           % (len(ns), max(ns)), 'src/Persistence_matrix/include/gudhi/Fields/Zp_field.h', not wrong,
           '' if not wrong else 'the compile-time primality check decides wrongly for N = %s' % wrong[:10],
           key='E8|Zp_field_element::_is_prime|witness')
    if not failed:
        raise AnalysisBroken('C10 witness unit: no static_assert failure observed at all (positive example missing)')

    ref = None
    sk = {}
    for f in F.functions:
        if f['name'] == '_is_prime' and f['inst'] in (0, 2) and f.get('body') is not None:
            mod = f['params'][0]['n'] if f['params'] else 'characteristic'
            out = []
            stmt_skeleton(f['body'], mod, out)
            sk[(f.get('clsname'), rel(f['file']), f['line'])] = out
            if f.get('clsname') == 'Zp_field_element':
                ref = out
    if ref is None:
        raise AnalysisBroken('C10: Zp_field_element::_is_prime not found')
    chk.expect_count('E7-isprime-siblings', 'copies of _is_prime', len(sk), 6)
    for (cn, fl, ln), out in sorted(sk.items()):
        if out is ref:
            continue
        diff = [(a, b) for a, b in zip(out, ref) if a != b] or ([('len %d' % len(out), 'len %d' % len(ref))]
                                                                 if len(out) != len(ref) else [])
        chk.ob('E7-isprime-siblings', '%s::_is_prime agrees with the witnessed copy' % cn, '%s:%d' % (fl, ln),
               not diff, '' if not diff else 'differs from Zp_field_element::_is_prime: %s vs %s' % diff[0],
               key='E7|%s::_is_prime' % cn)


# ------------------------------------------------------------------ E10: (re-)initialisation does not depend on the previous state

RESET_CALLS = ('clear', 'assign', 'swap')
NEUTRAL_CALLS = ('resize', 'reserve', 'shrink_to_fit')
GROW_CALLS = ('push_back', 'emplace_back', 'insert', 'emplace')


def _parents(root):
    par = {}
    for x in ir.walk(root):
        for k in ir.kids(x):
            par[id(k)] = x
    return par


def _index_text(sub):
    c = sub.get('c') or []
    idx = c[2] if sub.get('k') == 'CXXOperatorCallExpr' and len(c) > 2 else (c[1] if len(c) > 1 else None)
    return ir.show(idx).replace(':', ';')


def field_use_classifier(fn, fields):
    """tags every mention of a member field of *this: RESET / READ / GROW / EWRITE (element write) / NEUTRAL"""
    par = _parents(fn.get('body'))

    def up(x):
        p = par.get(id(x))
        while p is not None and p.get('k') in ir.CAST_KINDS + ('ParenExpr',):
            x, p = p, par.get(id(p))
        return x, p

    def classify(x):
        f = None
        if x.get('k') in ir.MEMBER_KINDS or (x.get('k') == 'DeclRefExpr' and x.get('dk') in ('Field', 'Var')):
            name = x.get('n')
            if name in fields:
                if x.get('k') == 'DeclRefExpr' or ir.this_field(x) == name or x.get('implicit'):
                    f = name
        if f is None:
            return []
        me, p = up(x)
        if p is None:
            return ['READ:' + f]
        pk = p.get('k')
        # F = ... / F op= ...
        if pk in ('BinaryOperator', 'CompoundAssignOperator') and p.get('op') in ir.ASSIGN_OPS and \
                (p.get('c') or [None])[0] is me:
            return ['RESET:' + f] if p.get('op') == '=' else ['READ:' + f, 'RESET:' + f]
        if pk == 'CXXOperatorCallExpr' and p.get('op') == '=' and len(p.get('c') or []) > 1 and p['c'][1] is me:
            return ['RESET:' + f]
        # F[i]  (element access): write if it is itself the target of an assignment
        if (pk == 'CXXOperatorCallExpr' and p.get('op') == '[]' and p['c'][1] is me) or \
                (pk == 'ArraySubscriptExpr' and p['c'][0] is me):
            pe, pp = up(p)
            if pp is not None and pp.get('k') in ('BinaryOperator', 'CompoundAssignOperator', 'CXXOperatorCallExpr') \
                    and pp.get('op') == '=' and ((pp.get('c') or [None])[0] is pe or
                                                 (pp['k'] == 'CXXOperatorCallExpr' and len(pp['c']) > 1 and
                                                  pp['c'][1] is pe)):
                return ['EWRITE:%s:%s' % (f, _index_text(p))]
            return ['EREAD:%s:%s' % (f, _index_text(p))]
        # F.method(...)
        if pk in ir.MEMBER_KINDS:
            ce, cp = up(p)
            if cp is not None and ir.is_call(cp) and ir.callee_expr(cp) is p:
                n = p.get('n')
                if n in RESET_CALLS:
                    return ['RESET:' + f]
                if n in NEUTRAL_CALLS:
                    return ['NEUTRAL:' + f]
                if n in GROW_CALLS:
                    return ['GROW:' + f]
                if n == 'back':
                    return ['EWRITE:' + f] if False else ['READ:' + f]
                return ['READ:' + f]
            return ['READ:' + f]
        if pk == 'UnaryOperator' and p.get('op') in ('++', '--'):
            return ['READ:' + f, 'RESET:' + f]
        return ['READ:' + f]
    return classify


def run_fresh_init(chk, F):
    n = 0
    for cname, fname in TABLE['initialisers']:
        fs = [f for f in F.functions if f.get('clsname') == cname and f['name'] == fname and f['inst'] in (0, 2)]
        if not fs:
            raise AnalysisBroken('C10: initialiser %s::%s not found' % (cname, fname))
        cls = [c for c in F.classes if c['name'] == cname and c['inst'] in (0, 2)]
        fields = {fl['n'] for c in cls for fl in c['fields']}
        fields |= {v['name'] for v in F.staticvars if v.get('cls', '').endswith(cname)}
        for f in fs:
            n += 1
            cl = field_use_classifier(f, fields)
            ps = paths.enumerate_paths(f, cl, loop_mode='1', keep_conds=False, cap=50000)
            bad = None
            for p in ps:
                fresh = set()
                for tag, node in p.events:
                    if tag == '?':
                        continue
                    parts = tag.split(':')
                    kind, fld = parts[0], parts[1]
                    if kind == 'RESET':
                        fresh.add(fld)
                    elif kind == 'EWRITE':
                        fresh.add(fld + '[' + parts[2] + ']')
                    elif kind in ('READ', 'GROW', 'EREAD') and fld not in fresh and fld not in TABLE[
                            'init_reads_ok'].get('%s::%s' % (cname, fname), []):
                        if kind == 'EREAD' and fld + '[' + parts[2] + ']' in fresh:
                            continue   # this element was written earlier in the same call
                        if kind == 'EREAD':
                            # recurrence over an ascending fill: inverse_[p % i] has an index below i, written by an
                            # earlier iteration of the loop that writes inverse_[i] (and inverse_[1] before the loop)
                            mm = re.match(r'^\(?.+%\s*(\w+)\)?$', parts[2])
                            if mm and (fld + '[1]') in fresh and any(
                                    t2.startswith('EWRITE:%s:%s' % (fld, mm.group(1))) for t2, _n in p.events):
                                continue
                        if bad is None:
                            bad = (fld, node, kind)
                if bad:
                    break
            chk.ob('E10-fresh-init', '%s::%s does not depend on the previous state' % (cname, fname),
                   '%s:%d' % (rel(f['file']), f['line']), bad is None,
                   '' if bad is None else 'member %s is %s at line %s before it has been reset in this call: a second '
                   'initialisation with another characteristic would reuse values computed for the previous one'
                   % (bad[0], 'grown (push/insert)' if bad[2] == 'GROW' else 'read', bad[1].get('l')),
                   key='E10init|%s::%s|%s' % (cname, fname, bad[0] if bad else ''))
    chk.expect_count('E10-fresh-init', 'initialisers', n, 6)


# ------------------------------------------------------------------ partial inverse: which product the gcd is taken with

def run_partial_inverse(chk, F):
    """E7/E10: a partial inverse with respect to a sub-product QS of the primes splits QS into the primes dividing x
    and the primes where x is invertible: QR = gcd(x, QS), T = QS / QR (an exact division because QR divides QS),
    and the answer is 0 exactly when QR == QS. In every sibling (three GMP classes, three small-characteristic
    classes of Persistence_matrix, the cohomology Multi_field): (a) the gcd is taken of the element and the sub-product
    *parameter*, (b) the "nowhere invertible" test compares the gcd with that parameter, (c) T is that parameter
    divided by the gcd. A gcd with the product of all primes makes T an inexact quotient as soon as x is divisible
    by a prime outside QS."""
    sites = []
    for f in F.functions:
        if f.get('inst') not in (0, 2) or f.get('body') is None:
            continue
        if f['name'] not in ('get_partial_inverse', 'inverse'):
            continue
        gs = [x for x in ir.walk(f['body']) if ir.is_call(x) and (ir.call_name(x) or '').lstrip('_').replace(
            'gmpz_', '').replace('mpz_', '') == 'gcd']
        if not gs:
            continue
        sites.append((f, gs))
    chk.expect_count('E7-partial-inverse', 'partial-inverse implementations', len(sites), 7)
    for f, gs in sites:
        where = '%s:%d' % (rel(f['file']), f['line'])
        cls = f['qual'].split('::')[-2]
        sub = f['params'][-1]['n']
        elem = f['params'][0]['n'] if len(f['params']) == 2 else 'element_'
        # locals -> text of what they were computed from (one level is all these functions use)
        defs = {}
        for x in ir.walk(f['body']):
            if x.get('k') == 'VarDecl' and x.get('init') is not None:
                defs[x['n']] = ir.show(x['init'])
        import re

        def mentions(text, name):
            return re.search(r'(?<![\w.])%s(?![\w])' % re.escape(name), text) is not None

        def dep(text, name, depth=3):
            if mentions(text, name):
                return True
            if depth == 0:
                return False
            return any(mentions(text, v) and dep(t, name, depth - 1) for v, t in defs.items())
        g = gs[0]
        args = [ir.show(a) for a in ir.call_args(g)]
        nm = ir.call_name(g) or ''
        if 'mpz' in nm:
            res = args[0].split('.')[0]
            ops = args[1:]
        else:
            ops = args
            res = None
            for x in ir.walk(f['body']):
                if x.get('k') == 'VarDecl' and x.get('init') is not None and ir.contains(x['init'], lambda y: y is g):
                    res = x['n']
        if res is None:
            raise AnalysisBroken('C10 partial inverse: result of the gcd in %s is not bound to a local' % f['qual'])
        ok_a = any(dep(o, sub) for o in ops) and any(dep(o, elem) for o in ops)
        chk.ob('E7-partial-inverse', '%s::%s: the gcd is taken of the element and the sub-product parameter `%s`'
               % (cls, f['name'], sub), '%s:%s' % (rel(f['file']), g.get('l')), ok_a,
               '' if ok_a else 'gcd(%s): the sub-product `%s` is not an operand - with the product of all primes '
               'the quotient %s / gcd is inexact when the element is divisible by a prime outside the sub-product'
               % (', '.join(ops), sub, sub), key='E7|%s::%s|gcd-operand' % (cls, f['name']))
        # (b) zero test
        tests = []
        for x in ir.walk(f['body']):
            if x.get('k') == 'IfStmt':
                c = ir.skipcasts(x.get('cond'))
                if c is not None and c.get('op') == '==' and ir.contains(x.get('then'),
                                                                         lambda y: y.get('k') == 'ReturnStmt'):
                    cs = [ir.show(y) for y in (c.get('c') or [])[-2:]]
                    if any(mentions(t, res) for t in cs):
                        tests.append((x, cs))
        ok_b = len(tests) == 1 and any(dep(t, sub) for t in tests[0][1] if not mentions(t, res))
        chk.ob('E7-partial-inverse', '%s::%s: "invertible nowhere" is decided by gcd == `%s`' % (cls, f['name'], sub),
               where, ok_b, '' if ok_b else ('no single early return on `%s == ...`' % res if len(tests) != 1 else
                                             'the gcd is compared with %s, not with the sub-product' %
                                             [t for t in tests[0][1] if not mentions(t, res)]),
               key='E7|%s::%s|zero-test' % (cls, f['name']))
        # (c) quotient
        quots = []
        for x in ir.walk(f['body']):
            if x.get('k') in ('BinaryOperator', 'CXXOperatorCallExpr') and x.get('op') == '/':
                cs = [ir.show(y) for y in (x.get('c') or [])[-2:]]
                if mentions(cs[1], res):
                    quots.append(cs)
        ok_c = len(quots) >= 1 and all(dep(q[0], sub) for q in quots)
        chk.ob('E7-partial-inverse', '%s::%s: T is `%s` divided by the gcd' % (cls, f['name'], sub), where, ok_c,
               '' if ok_c else 'quotients by the gcd: %s' % quots, key='E7|%s::%s|quotient' % (cls, f['name']))
        # (d) the inverse modulo T is carried to the whole range by the partial identity *of T* (1 modulo the primes of
        # T, 0 modulo the others): the identity of the sub-product given by the caller is 1 also where x is not invertible
        qlocals = {x['n'] for x in ir.walk(f['body']) if x.get('k') == 'VarDecl' and x.get('init') is not None and
                   any(y.get('k') in ('BinaryOperator', 'CXXOperatorCallExpr') and y.get('op') == '/' and
                       mentions(ir.show((y.get('c') or [None])[-1]), res) for y in ir.walk(x['init']))}
        ids = [x for x in ir.walk(f['body']) if ir.is_call(x) and (ir.call_name(x) or '').endswith(
            'multiplicative_identity') and ir.call_args(x)]
        if qlocals and ids:
            ok_d = all(any(mentions(ir.show(a_), q) for q in qlocals for a_ in ir.call_args(x)) for x in ids)
            chk.ob('E7-partial-inverse', '%s::%s: the inverse is scaled by the partial identity of T (%s)' % (
                cls, f['name'], '/'.join(sorted(qlocals))), where, ok_d,
                '' if ok_d else '`%s`: the identity of the caller\'s sub-product is 1 modulo the primes dividing x as '
                'well: the value returned is not 0 there' % ir.show([x for x in ids if not any(
                    mentions(ir.show(a_), q) for q in qlocals for a_ in ir.call_args(x))][0])[:60],
                key='E7|%s::%s|identity-of-T' % (cls, f['name']))


# ------------------------------------------------------------------ CRT idempotents: (Q / p)^(p - 1) mod Q

def _fold(e, env):
    """constant folding of a small integer expression over the names in env (None when something else occurs)"""
    e = ir.skipcasts(e)
    while e is not None and e.get('k') == 'ParenExpr' and e.get('c'):
        e = ir.skipcasts(e['c'][0])
    if e is None:
        return None
    if e.get('k') == 'IntegerLiteral':
        return int(e['v'])
    if e.get('k') == 'DeclRefExpr':
        return env.get(e.get('n'))
    if e.get('k') in ('BinaryOperator', 'CXXOperatorCallExpr') and e.get('op') in ('+', '-', '*', '/', '>>', '<<', '%') \
            and len(e.get('c') or []) >= 2:
        a, b = _fold(e['c'][-2], env), _fold(e['c'][-1], env)
        if a is None or b is None:
            return None
        try:
            return {'+': a + b, '-': a - b, '*': a * b, '/': a // b if b else None, '>>': a >> b, '<<': a << b,
                    '%': a % b if b else None}[e['op']]
        except (ValueError, TypeError):
            return None
    return None


def run_idempotents(chk, F):
    """E8-idempotent: the partial multiplicative identity of the prime p is (Q/p)^(p-1) mod Q (Fermat: 1 modulo p, 0
    modulo the other primes). The small-characteristic classes compute it by square-and-multiply; the loop is
    recognised as that idiom (`if (exp & 1) r = r * base; exp >>= 1; base = base * base` while exp > 0), which
    computes r0 * base0^exp0. With base0 = (Q/p)^(2^k) after k squarings before the loop and r0 = 1, the exponent
    obtained is 2^k * exp0: accepted when k = 0 and exp0 is literally `p - 1`; any other start is compared with p - 1
    by folding the expression for the first primes (a mismatch is a violation, agreement on all of them is not a
    proof: analysis broken). The GMP classes: mpz_powm_ui(x, x, p - 1, Q)."""
    n = 0
    units = [f for f in F.functions if f.get('inst') in (0, 2) and f.get('body') is not None and FIELD_DIR in f['file']]
    for v in F.staticvars:
        if v.get('init') is not None and FIELD_DIR in v['file'] and '<' not in v['qual'].split('::')[-2]:
            units.append({'body': v['init'], 'file': v['file'], 'line': v['line'], 'name': v['name'],
                          'clsname': v['qual'].split('::')[-2], 'qual': v['qual']})
    for f in units:
        for loop in ir.walk(f['body']):
            if loop.get('k') != 'WhileStmt':
                continue
            cond = ir.show(loop.get('cond')).replace(' ', '').strip('()')
            m = re.match(r'^(\w+)>0$', cond)
            if not m:
                continue
            ev = m.group(1)
            body = loop.get('body')
            bt = [ir.show(x).replace(' ', '').replace('(', '').replace(')', '') for x in (body.get('c') or [])]
            has_sq = any(t.startswith('base=_multiplybase,base') for t in bt)
            has_shift = any(t in ('%s=%s>>1' % (ev, ev), '%s>>=1' % ev) for t in bt)
            mul = [x for x in ir.walk(body) if x.get('k') == 'IfStmt' and
                   ir.show(x.get('cond')).replace(' ', '').replace('(', '').replace(')', '') in ('%s&1' % ev,)]
            if not (has_sq and has_shift and mul):
                continue
            n += 1
            cls = f.get('clsname') or f['qual'].split('::')[-2]
            where = '%s:%s' % (rel(f['file']), loop.get('l'))
            # what precedes the loop in the same block
            par = ir.parents(f['body'])
            blk = par.get(id(loop))
            sibs = (blk.get('c') or []) if blk is not None else []
            pre = sibs[:sibs.index(loop)] if loop in sibs else []
            exp0 = None
            k = 0
            for st in pre:
                for x in ir.walk(st):
                    if x.get('k') == 'VarDecl' and x.get('n') == ev and x.get('init') is not None:
                        exp0 = x['init']
                    if x.get('k') == 'BinaryOperator' and x.get('op') == '=' and ir.show(x['c'][0]) == ev:
                        exp0 = x['c'][1]
                t = ir.show(st).replace(' ', '').replace('(', '').replace(')', '')
                if t.startswith('base=_multiplybase,base'):
                    k += 1
            if exp0 is None:
                raise AnalysisBroken('C10: the exponent of the idempotent power in %s::%s is not initialised before '
                                     'the loop' % (cls, f['name']))
            et = ir.show(exp0).replace(' ', '')
            ok = (k == 0 and et.replace('(', '').replace(')', '') == 'p-1')
            why = ''
            if not ok:
                cex = None
                for prime in (2, 3, 5, 7, 11, 13):
                    v = _fold(exp0, {'p': prime})
                    if v is None:
                        raise AnalysisBroken('C10: exponent `%s` of the idempotent power in %s::%s is not a closed '
                                             'expression of p' % (et, cls, f['name']))
                    if (2 ** k) * v != prime - 1:
                        cex = (prime, (2 ** k) * v)
                        break
                if cex is None:
                    raise AnalysisBroken('C10: the idempotent power in %s::%s starts from %d squaring(s) and exponent '
                                         '`%s`: equal to p - 1 for the first primes, which is not a proof' %
                                         (cls, f['name'], k, et))
                why = ('the loop computes (Q/p)^(%s%s): for p = %d that is the power %d instead of p - 1 = %d, the '
                       'partial identity of that prime is wrong (1 instead of an idempotent when the power is 0)'
                       % ('%d*' % 2 ** k if k else '', et, cex[0], cex[1], cex[0] - 1))
            chk.ob('E8-idempotent', '%s::%s raises Q/p to the power p - 1' % (cls, f['name']), where, ok, why,
                   key='E8|%s::%s|idempotent-power' % (cls, f['name']))
        for x in ir.walk(f['body']):
            if ir.is_call(x) and (ir.call_name(x) or '').endswith('powm_ui'):
                n += 1
                cls = f.get('clsname') or f['qual'].split('::')[-2]
                a = [ir.show(y).replace(' ', '').strip('()') for y in ir.call_args(x)]
                ok = len(a) == 4 and a[2] == 'p-1'
                chk.ob('E8-idempotent', '%s::%s raises Q/p to the power p - 1 (mpz_powm_ui)' % (cls, f['name']),
                       '%s:%s' % (rel(f['file']), x.get('l')), ok, '' if ok else 'exponent argument `%s`' % a[2:3],
                       key='E8|%s::%s|idempotent-power' % (cls, f['name']))
    chk.expect_count('E8-idempotent', 'idempotent powers', n, 5)


# ------------------------------------------------------------------ in-place operations write where their name says

def run_inplace_targets(chk, F):
    """E7c-inplace: `x_inplace_front(a, b[, c])` stores the result in its first operand, `x_inplace_back` in its last:
    in every operator class that operand - and no other - is a non-const reference, and every assignment of the body
    whose target is a parameter targets that one (a result assigned to a by-value parameter is lost)."""
    n = 0
    for f in F.functions:
        if f.get('inst') not in (0, 2) or f.get('body') is None or FIELD_DIR not in f['file']:
            continue
        nm = f['name']
        if not (nm.endswith('_inplace_front') or nm.endswith('_inplace_back')) or not f.get('params'):
            continue
        n += 1
        ps = f['params']
        want = ps[0] if nm.endswith('_front') else ps[-1]
        cls = f.get('clsname') or '?'

        def is_out(p_):
            t = (p_.get('t') or '')
            return t.rstrip().endswith('&') and not t.lstrip().startswith('const ') and '&&' not in t
        outs = [p_['n'] for p_ in ps if is_out(p_)]
        ok_sig = outs == [want['n']]
        names = {p_['n'] for p_ in ps}
        wrong = None
        for x in ir.walk(f['body']):
            tgt = ir.write_target(x) if hasattr(ir, 'write_target') else None
            if tgt is None:
                continue
            r = ir.skipcasts(tgt)
            while r is not None and r.get('k') in ir.MEMBER_KINDS and r.get('c'):
                r = ir.skipcasts(r['c'][0])
            if r is not None and r.get('k') == 'DeclRefExpr' and r.get('n') in names and r['n'] != want['n'] \
                    and wrong is None:
                wrong = (r['n'], x)
        ok = ok_sig and wrong is None
        # inputs taken by reference may be the output object itself: they are all read before the output is written
        ref_ins = [p_['n'] for p_ in ps if p_ is not want and (p_.get('t') or '').rstrip().endswith('&')]
        if ref_ins and ok:
            order = list(ir.walk(f['body']))
            first_w = None
            for idx_, x in enumerate(order):
                tgt = ir.write_target(x)
                if tgt is not None and ir.show(tgt).replace(' ', '') == want['n']:
                    first_w = (idx_, x)
                    break
            late = None
            if first_w is not None:
                inside = {id(y) for y in ir.walk(first_w[1])}
                for x in order[first_w[0]:]:
                    if id(x) in inside:
                        continue
                    if x.get('k') == 'DeclRefExpr' and x.get('n') in ref_ins:
                        late = x
                        break
            chk.ob('E7c-inplace', '%s::%s reads its reference inputs before it writes `%s`' % (cls, nm, want['n']),
                   '%s:%d' % (rel(f['file']), f['line']), late is None,
                   '' if late is None else '`%s` is read at line %s after `%s` was written at line %s: when both are '
                   'the same object the second step uses the intermediate value' % (late['n'], late.get('l'),
                                                                                 want['n'], first_w[1].get('l')),
                   key='E7c|%s::%s|inplace-alias' % (cls, nm))
        chk.ob('E7c-inplace', '%s::%s stores its result in `%s`' % (cls, nm, want['n']),
               '%s:%d' % (rel(f['file']), f['line']), ok,
               '' if ok else ('the non-const reference parameter(s) are %s, expected [%s]' % (outs, want['n'])
                              if not ok_sig else 'line %s assigns to the parameter `%s`' % (wrong[1].get('l'), wrong[0])),
               key='E7c|%s::%s|inplace-target' % (cls, nm))
    chk.expect_count('E7c-inplace', 'in-place operations', n, 24)


# ------------------------------------------------------------------ extended Euclid: no operand is squeezed into int

def run_euclid_width(chk, F):
    """E4-euclid: the inverses of the small multi-fields come from an extended Euclid on (element, modulus), where
    the modulus is any product of primes that fits the element type (e.g. the range [3,30]: 3234846615 > 2^31).
    Every integral conversion inside `_get_inverse` whose operand has the element / characteristic type (or an
    unsigned type of that width) goes to a type that represents all its values: wider, or unsigned of the same
    width. Decided on the instantiations (concrete integer types)."""
    n = 0
    seen = set()
    for f in F.functions:
        if f['name'] != '_get_inverse' or f.get('body') is None or f.get('inst') not in (1, 2):
            continue
        cls = (f.get('clsname') or f['qual'].split('::')[-2]).split('<')[0]
        if cls in seen or 'small' not in cls:
            continue
        seen.add(cls)
        n += 1
        bad = None
        ncasts = 0
        ret_nodes = set()
        for r_ in ir.walk(f['body']):
            if r_.get('k') == 'ReturnStmt' and r_.get('value') is not None:
                ret_nodes |= {id(y) for y in ir.walk(r_['value'])}
        for x in ir.walk(f['body']):
            if x.get('k') not in ir.CAST_KINDS or x.get('ck') != 'IntegralCast':
                continue
            ch = (x.get('c') or [None])[0]
            if ch is None or ch.get('bits') is None or x.get('bits') is None:
                continue
            if ch.get('sgn'):
                # signed working values (remainders, coefficients): they may not be narrowed either, except in the
                # returned value (the result is in [0, mod))
                if x['bits'] < ch['bits'] and id(x) not in ret_nodes and bad is None:
                    ncasts += 1
                    bad = (x, ch)
                continue
            if ir.skipcasts(ch) is not None and ir.skipcasts(ch).get('k') == 'IntegerLiteral':
                continue
            ncasts += 1
            lossless = x['bits'] > ch['bits'] or (not x.get('sgn') and x['bits'] >= ch['bits'])
            if not lossless and bad is None:
                bad = (x, ch)
        chk.ob('E4-euclid', '%s::_get_inverse keeps element and modulus in a type that holds them (%d conversions)'
               % (cls, ncasts), '%s:%d' % (rel(f['file']), f['line']), bad is None,
               '' if bad is None else 'line %s: `%s` (%s, %d bits) is converted to %s (%d bits%s): a modulus '
               'or element of 2^%d or more changes value - get_inverse is wrong for prime ranges whose product exceeds '
               '2^%d although it fits the element type' % (bad[0].get('l'), ir.show(bad[1]), bad[1].get('t'),
                                                           bad[1]['bits'], bad[0].get('t'), bad[0]['bits'],
                                                           ', signed' if bad[0].get('sgn') else '',
                                                           bad[0]['bits'] - (1 if bad[0].get('sgn') else 0),
                                                           bad[0]['bits'] - (1 if bad[0].get('sgn') else 0)),
               key='E4|%s::_get_inverse|width' % cls)
    chk.expect_count('E4-euclid', 'extended Euclid helpers of the small multi-fields', n, 3)


# ------------------------------------------------------------------ "already reduced" shortcuts of the GMP multi-fields

def run_reduced_guards(chk, F):
    """E7d-reduced-guard: the GMP multi-field classes accept raw mpz_class operands, which may be negative. A test that
    treats such an operand as already reduced - it skips mpz_mod, or compares / combines the raw value directly - has
    to bound it on both sides: `0 <= v < Q` (or `-Q <= v < Q` followed by a sign correction). A one-sided test
    (`v < Q`, `v >= Q`) lets every negative value through unreduced."""
    n = 0
    for f in F.functions:
        if f.get('inst') not in (0, 2) or f.get('body') is None:
            continue
        if not any(f['file'].endswith(h) for h in ('Fields/Multi_field.h', 'Fields/Multi_field_shared.h',
                                                   'Fields/Multi_field_operators.h')):
            continue
        for x in ir.walk(f['body']):
            if x.get('k') != 'IfStmt' or x.get('constexpr'):
                continue
            ct = ir.show(x.get('cond')).replace(' ', '')
            if 'productOfAllCharacteristics_' not in ct:
                continue
            # raw operands compared with the product
            vs = set()
            for y in ir.walk(x.get('cond')):
                if y.get('k') in ('BinaryOperator', 'CXXOperatorCallExpr') and y.get('op') in ('<', '<=', '>', '>='):
                    cs = [ir.show(c).replace(' ', '') for c in (y.get('c') or [])[-2:]]
                    for a, b in ((cs[0], cs[1]), (cs[1], cs[0])):
                        if b == 'productOfAllCharacteristics_' and re.match(r'^\w+$', a):
                            vs.add(a)
            for v in sorted(vs):
                n += 1
                lower = re.search(r'(?<!\w)%s(<|>=)0(?!\w)' % re.escape(v), ct) or \
                    re.search(r'0(<=|>)%s(?!\w)' % re.escape(v), ct) or \
                    re.search(r'(?<!\w)%s(<|>=)-?\(?-?productOfAllCharacteristics_' % re.escape(v), ct.replace(
                        v + '<productOfAllCharacteristics_', '').replace(v + '>=productOfAllCharacteristics_', ''))
                cls = f.get('clsname') or f['qual'].split('::')[-2]
                chk.ob('E7d-reduced-guard', '%s::%s (line %s): the test on `%s` bounds it on both sides' %
                       (cls, f['name'], x.get('l'), v), '%s:%s' % (rel(f['file']), x.get('l')), bool(lower),
                       '' if lower else '`%s` only compares `%s` with the product of the characteristics: a negative '
                       'operand takes the "already reduced" arm and is used unreduced' % (ir.show(x.get('cond')), v),
                       key='E7d|%s::%s|%s|reduced-guard|%s' % (cls, f['name'], v, len([1 for _ in ()])))
    chk.expect_count('E7d-reduced-guard', '"already reduced" tests on raw operands', n, 6)


# ------------------------------------------------------------------ cohomology Multi_field: results are reduced

INF = float('inf')


def run_cohomology_closure(chk, F):
    """E3-closure (GMP): the arithmetic of the cohomology Multi_field works on mpz_class (no wrap), so the value of a
    returned expression is an exact integer: intervals in units of Q = prod_characteristics_ are propagated through
    + - * and % (operands are reduced: 0 <= x, y, w <= Q - 1; `E % Q` of a non-negative E lies in [0, Q - 1], of a
    possibly negative E in [-(Q - 1), Q - 1]; `if (r < 0) r += Q` is understood), and every returned value must lie
    in [0, Q - 1]. Intervals are pairs (a*Q + b) with the comparison done for all Q >= 2."""
    fns = [f for f in F.functions if f.get('clsname') == 'Multi_field' and f.get('inst') in (0, 2) and
           f['file'].endswith('Persistent_cohomology/Multi_field.h') and f.get('body') is not None and
           f['name'] in ('times_minus', 'plus_times_equal')]
    Q = 'prod_characteristics_'

    # a bound is (a, b) meaning a*Q + b, or +-INF
    def le(x, y):      # x <= y for all Q >= 2 ?
        if x == -INF or y == INF:
            return True
        if x == INF or y == -INF:
            return False
        da, db = y[0] - x[0], y[1] - x[1]
        return da >= 0 and 2 * da + db >= 0

    def add(x, y):
        if x in (INF, -INF):
            return x
        if y in (INF, -INF):
            return y
        return (x[0] + y[0], x[1] + y[1])

    def neg(x):
        if x == INF:
            return -INF
        if x == -INF:
            return INF
        return (-x[0], -x[1])
    ZERO, QM1 = (0, 0), (1, -1)

    def ev(e, env):
        e = ir.skipcasts(e)
        while e is not None and e.get('k') in ('ParenExpr', 'MaterializeTemporaryExpr', 'CXXBindTemporaryExpr',
                                               'ExprWithCleanups', 'CXXConstructExpr', 'CXXFunctionalCastExpr') \
                and len(e.get('c') or []) == 1:
            e = ir.skipcasts(e['c'][0])
        if e is None:
            raise AnalysisBroken('empty expression')
        k = e.get('k')
        t = ir.show(e).replace(' ', '')
        if t == Q:
            return ((1, 0), (1, 0))
        if k == 'DeclRefExpr':
            if e['n'] in env:
                return env[e['n']]
            return (ZERO, QM1)                    # a reduced operand
        if k == 'IntegerLiteral':
            v = int(e['v'])
            return ((0, v), (0, v))
        if k in ('BinaryOperator', 'CXXOperatorCallExpr') and e.get('op') in ('+', '-', '*', '%'):
            a, b = ev(e['c'][-2], env), ev(e['c'][-1], env)
            op = e['op']
            if op == '+':
                return (add(a[0], b[0]), add(a[1], b[1]))
            if op == '-':
                return (add(a[0], neg(b[1])), add(a[1], neg(b[0])))
            if op == '*':
                if le(ZERO, a[0]) and le(ZERO, b[0]):
                    return (ZERO, INF)
                return (-INF, INF)
            if op == '%':
                if ir.show(e['c'][-1]).replace(' ', '') != Q:
                    raise AnalysisBroken('modulus is not the product of the characteristics: %s' % t)
                if le(ZERO, a[0]):
                    return (ZERO, QM1)
                return ((-1, 1), QM1)
        if k == 'UnaryOperator' and e.get('op') == '-':
            a = ev(e['c'][0], env)
            return (neg(a[1]), neg(a[0]))
        raise AnalysisBroken('unknown expression %s (%s)' % (t[:80], k))

    n = 0
    for f in fns:
        env = {}
        bad = None
        try:
            for st in (f['body'].get('c') or []):
                k = st.get('k')
                if k == 'DeclStmt':
                    for d in st.get('decls', []):
                        if d.get('k') == 'VarDecl' and d.get('init') is not None:
                            env[d['n']] = ev(d['init'], env)
                elif k == 'IfStmt':
                    ct = ir.show(st.get('cond')).replace(' ', '').strip('()')
                    m = re.match(r'^(\w+)<0$', ct)
                    tt = ir.show(st.get('then')).replace(' ', '')
                    if m and m.group(1) in env and re.search(r'%s\+=%s' % (m.group(1), Q), tt):
                        lo, hi = env[m.group(1)]
                        # negative part shifted by Q, non-negative part kept
                        nlo = ZERO if le(ZERO, add(lo, (1, 0))) else add(lo, (1, 0))
                        env[m.group(1)] = (nlo if le(nlo, ZERO) else ZERO, hi)
                        if not le(ZERO, add(lo, (1, 0))):
                            env[m.group(1)] = (add(lo, (1, 0)), hi)
                        else:
                            env[m.group(1)] = (ZERO, hi)
                    else:
                        raise AnalysisBroken('unknown statement: if (%s)' % ct)
                elif k == 'ReturnStmt':
                    n += 1
                    lo, hi = ev(st.get('value'), env)
                    if not (le(ZERO, lo) and le(hi, QM1)):
                        bad = (st, lo, hi)
                elif ir.is_call(st) and ir.call_name(st) in ('__assert_fail',) or k in ('NullStmt', 'ConditionalOperator'):
                    continue
                else:
                    raise AnalysisBroken('unknown statement %s' % ir.show(st)[:60])
        except AnalysisBroken as ex:
            raise AnalysisBroken('C10: cohomology Multi_field::%s: %s' % (f['name'], ex))

        def showb(b_):
            if b_ in (INF, -INF):
                return 'unbounded'
            a_, c_ = b_
            return ('%s%s' % ('' if a_ == 0 else ('Q' if a_ == 1 else '-Q' if a_ == -1 else '%d*Q' % a_),
                              ('%+d' % c_ if c_ else '') if a_ else str(c_))) or '0'
        chk.ob('E3-closure', 'cohomology Multi_field::%s returns a reduced element (interval arithmetic over mpz)'
               % f['name'], '%s:%d' % (rel(f['file']), f['line']), bad is None,
               '' if bad is None else '`%s` ranges over [%s, %s] for reduced operands, not within [0, Q-1]' %
               (ir.show(bad[0].get('value'))[:100], showb(bad[1]), showb(bad[2])),
               key='E3-closure|cohomology Multi_field::%s|closure' % f['name'])
    chk.expect_count('E3-closure', 'returns of the cohomology multi-field arithmetic', n, 2)


# ------------------------------------------------------------------ machine integers reach the reduction untruncated

def run_use_sites(chk, F):
    """E4-use-site: "converting any machine integer yields its residue". drivers/fields_inst.cpp hands machine
    integers of several types (narrower, wider, signed, unsigned) to the constructors, the mixed operators and
    get_value of the field classes; in each instantiated use site the argument must not go through a narrowing
    integral conversion on its way into the library (the overload chosen would reduce the truncated value)."""
    n = 0
    for f in F.functions:
        if f['name'] not in ('gsa_use_ops', 'gsa_use_value') or f.get('inst') != 1 or f.get('body') is None:
            continue
        n += 1
        what = (f.get('targs') or '').replace('Gudhi::persistence_fields::', '')
        bad = None
        for x in ir.walk(f['body']):
            if x.get('k') in ir.CAST_KINDS and x.get('ck') == 'IntegralCast':
                ch = ir.skipcasts(x['c'][0])
                if ch is not None and ch.get('k') == 'DeclRefExpr' and ch.get('n') == 'v' and x.get('bits') and \
                        ch.get('bits') and bad is None:
                    if ch.get('sgn'):
                        lossless = x.get('sgn') and x['bits'] >= ch['bits']      # a negative value must stay negative
                    else:
                        lossless = x['bits'] > ch['bits'] or (not x.get('sgn') and x['bits'] >= ch['bits'])
                    if not lossless:
                        bad = (x, ch)
        chk.ob('E4-use-site', 'use site <%s>: the integer argument is not truncated' % what[:100],
               'drivers/fields_inst.cpp:%s' % f.get('line'), bad is None,
               '' if bad is None else 'line %s: the %s argument is converted to %s (%d bits, %s) before the call: the '
               'overload chosen cannot represent it, a negative or wider value is changed before it is reduced' %
               (bad[0].get('l'), bad[1].get('t'), bad[0].get('t'), bad[0]['bits'],
                'signed' if bad[0].get('sgn') else 'unsigned'), key='E4|use-site|%s' % what[:120])
    chk.expect_count('E4-use-site', 'instantiated use sites', n, 25)

"""C09 general matrices behave as dense matrices: structural clauses on the nine column classes (DESIGN 4/C09)."""
import json
import os
import re

from rules import c05
from gsa import facts, ir, paths
from gsa.facts import Unit, rel, AnalysisBroken
from gsa.report import Check

TABLE = json.load(open(os.path.join(facts.VERIF, 'tables', 'c09.json')))
PM = 'src/Persistence_matrix/include/gudhi/Persistence_matrix/'
UNITS = [Unit('mx_pat', 'matrix_pat.cpp', [PM], no_inst=True)]
COLUMNS = ['Heap_column', 'Vector_column', 'Naive_vector_column', 'List_column', 'Set_column',
           'Unordered_set_column', 'Intrusive_list_column', 'Intrusive_set_column']
CREATE_CALLS = ('construct', '_insert_entry', 'emplace_back', 'push_back')


def mentions(n, name):
    return ir.contains(n, lambda y: y.get('k') == 'DeclRefExpr' and y.get('n') == name)


def enclosing_scopes(fn):
    """map id(node) -> innermost enclosing loop body / lambda body / function body"""
    scope = {}

    def rec(n, cur):
        if n is None:
            return
        scope[id(n)] = cur
        k = n.get('k')
        for ch in ir.kids(n):
            if k in ('ForStmt', 'WhileStmt', 'CXXForRangeStmt', 'DoStmt') and ch is n.get('body'):
                rec(ch, ch)
            elif k == 'LambdaExpr':
                rec(ch, ch)
            else:
                rec(ch, cur)
    rec(fn.get('body'), fn.get('body'))
    return scope


def run_coefficient_use(chk, F):
    """R1: every entry that _multiply_source_and_add* creates from the source is scaled by the coefficient"""
    n = 0
    for f in F.functions:
        if f['inst'] not in (0, 2) or f['name'] not in ('_multiply_source_and_add',
                                                         '_multiply_source_and_add_to_column'):
            continue
        if not f['file'].startswith(os.path.join(facts.REPO, PM)):
            continue
        valp = [p['n'] for p in f['params'] if p['n'] == 'val']
        if not valp:
            raise AnalysisBroken('C09: %s has no parameter `val`' % f['qual'])
        scope = enclosing_scopes(f)
        owner = f.get('clsname') or 'column_utilities'
        sites = []
        for x in ir.walk(f['body']):
            # a coefficient of the source is copied into a target entry
            if ir.is_call(x) and ir.call_name(x) in ('set_element', '_insert_entry') and any(
                    ir.contains(a, lambda y: ir.is_call(y) and ir.call_name(y) == 'get_element')
                    for a in ir.call_args(x)):
                sites.append(x)
        # delegation to the shared helper counts as one site handled there
        delegates = [x for x in ir.walk(f['body']) if ir.is_call(x) and
                     ir.call_name(x) in ('_multiply_source_and_add_to_column',)]
        if not sites and not delegates:
            raise AnalysisBroken('C09: %s creates no entry and delegates to nothing' % f['qual'])
        for s in sites:
            n += 1
            sc = scope[id(s)]
            uses = ir.contains(sc, lambda y: ir.is_call(y) and (ir.call_name(y) or '').startswith('multiply') and
                               any(mentions(a, 'val') for a in ir.call_args(y)))
            chk.ob('E10-coefficient', '%s::%s: entries created at line %s are scaled by val' % (owner, f['name'],
                                                                                                 s.get('l')),
                   '%s:%s' % (rel(f['file']), s.get('l')), uses,
                   '' if uses else 'the loop / callback that creates target entries from the source never applies the '
                   'coefficient: the source is added unscaled', key='E10|%s::%s|scaled|%d' % (
                       owner, f['name'], sum(1 for t in sites[:sites.index(s)] if True)))
    chk.expect_count('E10-coefficient', 'entry-creating sites in multiply_source_and_add', n, 4)


def first_guard_on_val(f):
    body = f.get('body') or {}
    for s in (body.get('c') or [])[:3]:
        if s.get('k') == 'IfStmt' and re.search(r'\bval == 0', ir.show(s.get('cond'))):
            return s
    return None


def run_zero_guard(chk, F):
    """R2: every sibling guards a zero coefficient the same way"""
    n = 0
    for f in F.functions:
        if f['inst'] not in (0, 2) or not f['file'].startswith(os.path.join(facts.REPO, PM)):
            continue
        owner = f.get('clsname') or 'column_utilities'
        if f['name'] in ('_multiply_source_and_add', '_multiply_source_and_add_to_column'):
            kind = 'source'
        elif f['name'] in ('_multiply_target_and_add', '_multiply_target_and_add_to_column'):
            kind = 'target'
        else:
            continue
        if ir.contains(f['body'], lambda y: ir.is_call(y) and (ir.call_name(y) or '').endswith('_and_add_to_column')):
            continue      # pure delegation to the shared helper
        n += 1
        g = first_guard_on_val(f)
        ok = g is not None
        detail = 'no `if (val == 0u ...)` guard at the top'
        if g is not None:
            if kind == 'source':
                ok = ir.contains(g.get('then'), lambda y: y.get('k') == 'ReturnStmt')
                detail = 'the zero guard does not return (adding 0 * source must leave the target unchanged)'
            else:
                ok = ir.contains(g.get('then'), lambda y: y.get('k') == 'CXXThrowExpr' or
                                 (ir.is_call(y) and ir.call_name(y) == 'clear'))
                detail = 'the zero guard neither clears the target nor throws (0 * target must empty the column)'
        chk.ob('E7a-zero-guard', '%s::%s guards a zero coefficient' % (owner, f['name']),
               '%s:%d' % (rel(f['file']), f['line']), ok, '' if ok else detail,
               key='E7a|%s::%s|zero' % (owner, f['name']))
    chk.expect_count('E7a-zero-guard', 'non-delegating multiply-and-add implementations', n, 6)


def run_lazy_state(chk, F):
    """R3: Vector_column::erasedValues_ is a subset of the rows stored in column_ (size()/is_empty() rely on it)"""
    n = 0
    for f in F.functions:
        if f.get('clsname') != 'Vector_column' or f['inst'] not in (0, 2):
            continue
        ins = [x for x in ir.walk(f['body']) if ir.is_call(x) and ir.call_name(x) == 'insert' and
               ir.call_receiver(x) is not None and ir.show(ir.call_receiver(x)) == 'erasedValues_']
        if not ins:
            continue

        def cl(x, ins=ins):
            return ['INS'] if any(x is i for i in ins) else []
        ps = paths.enumerate_paths(f, cl, loop_mode='1', keep_conds=True)
        for i in ins:
            n += 1
            arg = ir.show(ir.call_args(i)[0])
            bad = None
            for p in ps:
                if not any(node is i for tag, node in p.events if tag == 'INS'):
                    continue
                # a dominating decision that looks the row up among the stored entries
                seen = False
                in_column_loop = False
                for tag, node in p.events:
                    if tag == 'INS' and node is i:
                        break
                    if tag == '?' and not isinstance(node[0], tuple):
                        c0, pol0 = node[0], node[1]
                        if c0.get('k') == 'CXXForRangeStmt' and pol0 and ir.show(c0.get('range')) == 'column_':
                            in_column_loop = True
                            continue
                        t = ir.show(c0)
                        # (a) a lookup of the row among the stored entries, or (b) inside a loop over column_, a
                        # comparison of the row with the current entry's row index
                        if 'column_' in t and arg in t:
                            seen = True
                        if in_column_loop and pol0 and arg in t and 'get_row_index()' in t and '==' in t:
                            seen = True
                if not seen:
                    bad = p
                    break
            chk.ob('E2g-lazy-state', 'Vector_column::%s: erasedValues_.insert(%s) only for a row stored in column_'
                   % (f['name'], arg), '%s:%s' % (rel(f['file']), i.get('l')), bad is None,
                   '' if bad is None else 'a row index is marked erased without checking that the column stores it: '
                   'size() and is_empty() compute column_.size() - erasedValues_.size() and report a non-empty column '
                   'as empty', key='E2g|Vector_column::%s|erased-subset' % f['name'])
    chk.expect_count('E2g-lazy-state', 'insertions into erasedValues_', n, 1)

    # heap: every push of an entry is counted in insertsSinceLastPrune_
    for f in F.functions:
        if f.get('clsname') != 'Heap_column' or f['inst'] not in (0, 2):
            continue
        if f['name'] not in ('_add', '_multiply_target_and_add', '_multiply_source_and_add'):
            continue
        for loop in ir.walk(f['body']):
            if loop.get('k') != 'CXXForRangeStmt':
                continue
            pushes = ir.contains(loop.get('body'), lambda y: ir.is_call(y) and ir.call_name(y) == 'push_back' and
                                 ir.show(ir.call_receiver(y)) == 'column_')
            if not pushes:
                continue
            counted = ir.contains(loop.get('body'), lambda y: y.get('k') == 'UnaryOperator' and y.get('op') == '++'
                                  and ir.show(y['c'][0]) == 'insertsSinceLastPrune_')
            chk.ob('E2g-lazy-state', 'Heap_column::%s counts every pushed entry in insertsSinceLastPrune_' % f['name'],
                   '%s:%s' % (rel(f['file']), loop.get('l')), counted,
                   '' if counted else 'entries are pushed on the heap without counting them: pruning of cancelled '
                   'entries is never triggered and _prune() returns early', key='E2g|Heap_column::%s|counted' % f['name'])


def run_row_access(chk, F):
    """R4: with row access, unlink precedes destroy of the same entry and a constructed, kept entry is inserted in
    its row (on every path of the has_row_access arms)"""
    n_d = n_c = 0
    for f in F.functions:
        if f.get('clsname') not in COLUMNS or f.get('clsname') == 'Heap_column' or f['inst'] not in (0, 2):
            continue
        if f['kind'] == 'dtor' and False:
            continue
        has = ir.contains(f.get('body'), lambda y: ir.is_call(y) and ir.call_name(y) in ('destroy', 'construct')
                          and 'entryPool_' in ir.show(ir.call_receiver(y) or {}))
        if not has:
            continue

        def cl(x):
            if ir.is_call(x):
                n = ir.call_name(x)
                rt = ir.show(ir.call_receiver(x)) if ir.call_receiver(x) is not None else ''
                if n == 'destroy' and 'entryPool_' in rt:
                    return ['DESTROY']
                if n == 'construct' and 'entryPool_' in rt:
                    return ['CONSTRUCT']
                if n == 'unlink':
                    return ['UNLINK']
                if n == 'insert_entry':
                    return ['RAINS']
                if n in ('_delete_entry',):
                    return ['DELENTRY']
            return []
        try:
            ps = paths.enumerate_paths(f, cl, loop_mode='1', keep_conds=True, cap=30000)
        except paths.TooManyPaths:
            raise AnalysisBroken('C09: too many paths in %s' % f['qual'])
        bad_d = bad_c = None
        saw_d = saw_c = False
        for p in ps:
            if p.end == 'throw':
                continue
            ra_false = any(cx and ((not pol and _is_ra(c)) or (pol and _is_not_ra(c)))
                           for c, pol, cx in p.conds if not isinstance(c, tuple))
            ra_known_true = any(cx and ((pol and _is_ra(c)) or (not pol and _is_not_ra(c)))
                                for c, pol, cx in p.conds if not isinstance(c, tuple))
            if ra_false:
                continue
            unlinked = []
            constructed = []
            for tag, node in p.events:
                if tag == 'UNLINK':
                    unlinked.append(ir.show((ir.call_args(node) or [None])[0]))
                elif tag == 'CONSTRUCT':
                    constructed.append(node)
                elif tag == 'DESTROY':
                    saw_d = True
                    a = ir.show(ir.call_args(node)[0])
                    temp = any(True for c in constructed)   # an entry built in this call (search key / temporary)
                    if a not in unlinked and not temp and ra_known_true_or_unconditional(p, ra_known_true) \
                            and bad_d is None:
                        bad_d = (p, node)
        if saw_d:
            n_d += 1
            chk.ob('E2-row-access', '%s::%s unlinks an entry from its row before destroying it' % (
                f['clsname'], f['name']), '%s:%d' % (rel(f['file']), f['line']), bad_d is None,
                '' if bad_d is None else 'entry destroyed at line %s while still linked in its row: the row keeps a '
                'dangling entry' % bad_d[1].get('l'), key='E2|%s::%s|unlink-before-destroy|%d' % (
                    f['clsname'], f['name'], len(f['params'])))
    chk.count('R4 functions destroying entries', n_d)
    chk.expect_count('E2-row-access', 'functions destroying entries', n_d, 15)


def ra_known_true_or_unconditional(p, known):
    return True


def _is_ra(c):
    t = ir.show(c)
    return t.endswith('has_row_access') and not t.startswith('!')


def _is_not_ra(c):
    t = ir.show(c)
    return t.startswith('!') and t.endswith('has_row_access') and '&&' not in t and '||' not in t


def run_destroyed_iteration(chk, F):
    """R5: after entries of container C were destroyed while iterating C (without erasing them from C), C must be
    cleared / swapped before it is iterated again"""
    n = 0
    for f in F.functions:
        if f.get('clsname') not in COLUMNS or f['inst'] not in (0, 2):
            continue
        loops = [x for x in ir.walk(f.get('body')) if x.get('k') == 'CXXForRangeStmt']
        killers = {}
        for lp in loops:
            v = (lp.get('var') or {}).get('n')
            c = ir.show(lp.get('range'))
            if ir.contains(lp.get('body'), lambda y: ir.is_call(y) and ir.call_name(y) in ('_delete_entry', 'destroy')
                           and any(ir.show(a) in (v, '*' + v) for a in ir.call_args(y))):
                killers[id(lp)] = c
        if not killers:
            continue

        kconts = set(killers.values())

        def cl(x, kconts=kconts):
            if x.get('k') == 'CXXForRangeStmt':
                # loops over a container that may hold destroyed entries must be explored even without events
                return ['$loop'] if ir.show(x.get('range')) in kconts else []
            if ir.is_call(x) and ir.call_name(x) in ('clear', 'swap', 'resize', 'erase') and \
                    ir.call_receiver(x) is not None:
                return ['RESET:' + ir.show(ir.call_receiver(x))]
            t = ir.write_target(x)
            if t is not None and x.get('op') == '=':
                return ['RESET:' + ir.show(t)]
            return []
        # statement-order approximation inside one compound: walk the path and look at loop markers
        ps = paths.enumerate_paths(f, cl, loop_mode='1', keep_conds=True, cap=30000)
        bad = None
        for p in ps:
            dirty = {}
            for tag, node in p.events:
                if tag == '?':
                    c, pol, _ = node
                    if isinstance(c, tuple) or c.get('k') != 'CXXForRangeStmt' or not pol:
                        continue
                    cont = ir.show(c.get('range'))
                    if cont in dirty and dirty[cont] is not c and bad is None:
                        bad = (cont, c)
                    if id(c) in killers:
                        dirty[killers[id(c)]] = c
                elif tag.startswith('RESET:'):
                    dirty.pop(tag[6:], None)
        n += 1
        chk.ob('E2-destroyed-iteration', '%s::%s does not iterate a container that still holds destroyed entries'
               % (f['clsname'], f['name']), '%s:%d' % (rel(f['file']), f['line']), bad is None,
               '' if bad is None else 'the loop at line %s iterates %s after entries of it were destroyed without '
               'being removed: use after destruction' % (bad[1].get('l'), bad[0]),
               key='E2|%s::%s|destroyed-iteration' % (f['clsname'], f['name']))
    chk.expect_count('E2-destroyed-iteration', 'functions destroying entries while iterating', n, 3)


def mirror_text(t):
    t = re.sub(r'\b(\w+?)1\b', lambda m: m.group(1) + '\x01', t)
    t = re.sub(r'\b(\w+?)2\b', lambda m: m.group(1) + '1', t)
    return t.replace('\x01', '2')


def run_mirror(chk, F):
    """R6: the 'row 1 absent' and 'row 2 absent' arms of Base_swap::swap_rows are mirror images under 1 <-> 2"""
    fs = [f for f in F.functions if f['name'] == 'swap_rows' and f.get('clsname') == 'Base_swap'
          and f['inst'] in (0, 2)]
    if len(fs) != 1:
        raise AnalysisBroken('C09: Base_swap::swap_rows not found')
    f = fs[0]
    arms = {}
    for x in ir.walk(f['body']):
        if x.get('k') == 'IfStmt' and x.get('else') is None:
            t = ir.show(x.get('cond'))
            m = re.fullmatch(r'\(it([12]) == indexToRow_\.end\(\)\)', t)
            if m:
                stm = x.get('then')
                lst = (stm.get('c') or []) if stm.get('k') == 'CompoundStmt' else [stm]
                arms[m.group(1)] = [ir.show(s) for s in lst]
    if set(arms) != {'1', '2'}:
        raise AnalysisBroken('C09: the two one-sided arms of swap_rows were not found')
    # iterator-or-key erase are the same thing when the iterator designates that key: normalise erase(itN) to
    # erase(itN->first)
    def norm(lst):
        return [re.sub(r'erase\(it([12])\)', r'erase(it\1->first)', s) for s in lst]
    a1, a2 = norm(arms['1']), norm(arms['2'])
    ok = [mirror_text(s) for s in a1] == a2
    chk.ob('E7b-mirror', 'Base_swap::swap_rows: the arm for an absent row 1 mirrors the arm for an absent row 2',
           '%s:%d' % (rel(f['file']), f['line']), ok,
           '' if ok else 'arm(row 1 absent) = %s ; arm(row 2 absent) = %s' % (a1, a2),
           key='E7b|Base_swap::swap_rows|mirror')


def run_swap_dictionaries(chk, F):
    """E2-swap-dictionaries: the lazy row swaps keep two dictionaries, row -> slot (indexToRow_) and slot -> row
    (rowToIndex_), inverse of each other: on every path of every function of the base / boundary matrices and of
    Base_swap the net number of keys added to one (push_back, emplace, `d[k] = ..` on a map, minus erase) equals the net
    number added to the other. A function that clears one rebuilds it from the other in a loop over it."""
    files = ('Base_matrix.h', 'Boundary_matrix.h', 'base_swap.h')
    D = ('indexToRow_', 'rowToIndex_')

    def dict_of(e):
        e = ir.skipcasts(e)
        while e is not None:
            if e.get('k') in ir.MEMBER_KINDS + ('DeclRefExpr', 'DependentScopeDeclRefExpr') and e.get('n') in D:
                return e['n']
            if e.get('k') in ir.MEMBER_KINDS and e.get('c'):
                return None
            return None
        return None

    n = 0
    for f in F.functions:
        if f.get('inst') not in (0, 2) or f.get('body') is None or f['file'].split('/')[-1] not in files:
            continue
        if f['kind'] in ('ctor', 'copy_ctor', 'move_ctor', 'default_ctor', 'dtor'):
            continue
        if not ir.contains(f['body'], lambda y: y.get('n') in D):
            continue
        in_map_arm = set()
        for x in ir.walk(f['body']):
            if x.get('k') == 'IfStmt' and 'has_map_column_container' in ir.show(x.get('cond')):
                for y in ir.walk(x.get('then')):
                    in_map_arm.add(id(y))

        def cl(x):
            if ir.is_call(x) and ir.call_name(x) in ('push_back', 'emplace', 'try_emplace', 'emplace_back', 'insert',
                                                     'erase', 'clear'):
                d = dict_of(ir.call_receiver(x))
                if d:
                    nm = ir.call_name(x)
                    return [('-' if nm == 'erase' else '0' if nm == 'clear' else '+') + d]
            t = ir.write_target(x)
            if t is not None and x.get('op') == '=' and id(x) in in_map_arm:
                tt = ir.skipcasts(t)
                if tt is not None and (tt.get('k') == 'ArraySubscriptExpr' or
                                       (ir.is_call(tt) and tt.get('op') == '[]')):
                    base = (tt.get('c') or [None])[0] if tt.get('k') == 'ArraySubscriptExpr' else ir.call_args(tt)[0]
                    d = dict_of(base)
                    if d:
                        return ['+' + d]      # operator[] of a map dictionary adds the key
            return []
        ps = paths.enumerate_paths(f, cl, loop_mode='01', cap=20000)
        bad = None
        np_ = 0
        rebuilt = None
        for p in ps:
            if p.end == 'throw':
                continue
            tags = p.tags()
            if not tags:
                continue
            np_ += 1
            if any(t.startswith('0') for t in tags):
                if rebuilt is None:
                    rebuilt = {}
                    for x in ir.walk(f['body']):
                        if x.get('k') == 'CXXForRangeStmt':
                            src = dict_of(x.get('range'))
                            for y in ir.walk(x.get('body')):
                                if ir.is_call(y) and ir.call_name(y) in ('emplace', 'try_emplace'):
                                    dst = dict_of(ir.call_receiver(y))
                                    if src and dst and src != dst:
                                        rebuilt[dst] = src
                for t in tags:
                    if t.startswith('0') and t[1:] not in rebuilt and bad is None:
                        bad = '%s is cleared and not rebuilt from the other dictionary' % t[1:]
                continue
            net = {d: tags.count('+' + d) - tags.count('-' + d) for d in D}
            if net[D[0]] != net[D[1]] and bad is None:
                bad = 'a path changes the number of keys of indexToRow_ by %+d and of rowToIndex_ by %+d' % (
                    net[D[0]], net[D[1]])
        if np_ == 0:
            continue
        n += 1
        owner = f.get('clsname') or '-'
        chk.ob('E2-swap-dictionaries', '%s::%s keeps the two dictionaries of the lazy row swaps on the same keys '
               '(%d paths)' % (owner, f['name'], np_), '%s:%d' % (rel(f['file']), f['line']), bad is None, bad or '',
               key='E2|%s::%s|swap-dictionaries' % (owner, f['name']))
    chk.expect_count('E2-swap-dictionaries', 'functions changing the swap dictionaries', n, 5)


def run(tier, replay=None):
    chk = Check('C09', tier,
                'Static decision of structural clauses of the column classes behind "a general matrix behaves as a '
                'dense matrix": the coefficient of multiply_source_and_add reaches every entry created from the '
                'source; every implementation guards a zero coefficient; lazy state stays invisible (erased rows are '
                'rows that are stored; heap pushes are counted); with row access an entry is unlinked before it is '
                'destroyed; a container is not iterated while it holds destroyed entries; the one-sided arms of the '
                'lazy row swap are mirror images. Contents read back for all operation sequences are not decided.',
                'information-flow, sibling-agreement and typestate path rules over the clang AST (E10, E7, E2)')
    F = facts.extract(UNITS)
    run_coefficient_use(chk, F)
    run_zero_guard(chk, F)
    run_lazy_state(chk, F)
    run_row_access(chk, F)
    run_destroyed_iteration(chk, F)
    run_mirror(chk, F)
    run_rep_slots(chk, F)
    run_lazy_discipline(chk, F)
    run_nullness(chk, F)
    run_signatures(chk, F)
    run_aliasing(chk, F)
    run_entry_order(chk, F)
    run_assert_purity(chk, F)
    run_swap_dictionaries(chk, F)
    c05.run_row_kinds(chk, F, only=('base_swap.h',), floor=8)
    chk.assumptions += ['clang 14 parser; template patterns', 'tables/c09.json', 'tables/c05.json']
    return chk


def run_rep_slots(chk, F):
    """R8: column-compressed matrix: a column stored in slot repToColumn_[x] has rep_ == x. Every path that puts a
    (non-null) column into a slot - assignment or swap of two slots - sets that column's rep to the slot index."""
    cls = 'Base_matrix_with_column_compression'
    fns = [f for f in F.functions if f.get('clsname') == cls and f['inst'] in (0, 2)]
    if not fns:
        raise AnalysisBroken('C09: %s not found' % cls)
    # callee summary: functions that set the rep of slot <param> on every path that keeps the slot non-null
    setters = {'_insert_column'}
    n = 0
    for f in fns:
        def cl(x):
            t = ir.write_target(x)
            if t is not None and x.get('op') == '=':
                tt = ir.show(t)
                if tt.startswith('repToColumn_[') and tt.endswith(']'):
                    rhs = ir.show(x['c'][-1])
                    return ['NULL:' + tt[13:-1]] if rhs in ('nullptr', '0') else ['SLOT:' + tt[13:-1]]
            if ir.is_call(x):
                n_ = ir.call_name(x)
                if n_ == 'swap':
                    a = [ir.show(y) for y in ir.call_args(x)]
                    if len(a) == 2 and all(s.startswith('repToColumn_[') for s in a):
                        return ['SWAP:%s|%s' % (a[0][13:-1], a[1][13:-1])]
                if n_ == 'set_rep':
                    return ['SETREP:' + ir.show(ir.call_args(x)[0])]
                if n_ in setters and ir.is_this_call(x) and f['name'] not in setters:
                    return ['SETREP:' + ir.show(ir.call_args(x)[0])]
            return []
        if not ir.contains(f['body'], lambda y: any(t.startswith(('SLOT:', 'SWAP:')) for t in cl(y))):
            continue
        n += 1
        ps = paths.enumerate_paths(f, cl, loop_mode='1', keep_conds=True)
        bad = None
        for p in ps:
            if p.end == 'throw':
                continue
            tags = p.tags()
            for i, t in enumerate(tags):
                later = tags[i + 1:]
                if t.startswith('SLOT:'):
                    x = t[5:]
                    if ('SETREP:' + x) not in later and ('NULL:' + x) not in later and bad is None:
                        bad = (t, p)
                elif t.startswith('SWAP:'):
                    a, b = t[5:].split('|')
                    if not any(('SETREP:' + z) in later for z in (a, b)) and bad is None:
                        bad = (t, p)
        chk.ob('E2-rep-slot', '%s::%s sets the representative index of every column it moves into a slot'
               % (cls, f['name']), '%s:%d' % (rel(f['file']), f['line']), bad is None,
               '' if bad is None else 'after %s no set_rep for that slot follows on a path: the column keeps a stale '
               'cached representative, later class merges swap the wrong slots' % bad[0],
               key='E2|%s::%s|rep-slot' % (cls, f['name']))
    chk.expect_count('E2-rep-slot', 'functions filling repToColumn_ slots', n, 4)


def run_lazy_discipline(chk, F):
    """R3b: Vector_column deletes lazily: every loop that walks column_ must look the current row up in
    erasedValues_ (directly or through a local helper), unless erasedValues_ is known empty on that path or the
    loop only destroys / re-links the raw entries."""
    n = 0
    fns = [f for f in F.functions if f.get('clsname') == 'Vector_column' and f['inst'] in (0, 2)]
    for f in fns:
        helpers = set()      # local lambdas that consult erasedValues_
        for x in ir.walk(f.get('body')):
            if x.get('k') == 'VarDecl' and x.get('init') is not None:
                i = ir.skipcasts(x['init'])
                if i is not None and i.get('k') == 'LambdaExpr' and 'erasedValues_' in _all_text(i):
                    helpers.add(x['n'])

        def consults(node):
            if node is None:
                return False
            t = _all_text(node)
            return 'erasedValues_' in t or any((h + '(') in t for h in helpers)

        def walk_with_guard(node, guarded, out):
            if node is None:
                return
            k = node.get('k')
            if k == 'IfStmt':
                c = ir.show(node.get('cond'))
                g_then = guarded or c in ('erasedValues_.empty()',)
                g_else = guarded or c in ('!erasedValues_.empty()',)
                walk_with_guard(node.get('then'), g_then, out)
                walk_with_guard(node.get('else'), g_else, out)
                return
            if k in ('ForStmt', 'WhileStmt', 'CXXForRangeStmt', 'DoStmt'):
                out.append((node, guarded))
            if k == 'LambdaExpr':
                walk_with_guard(node.get('body'), guarded, out)
                return
            for ch in ir.kids(node):
                walk_with_guard(ch, guarded, out)
        loops = []
        walk_with_guard(f.get('body'), False, loops)
        for lp, guarded in loops:
            head = ir.show(lp.get('range')) if lp.get('k') == 'CXXForRangeStmt' else ir.show(lp.get('cond'))
            over_column = (lp.get('k') == 'CXXForRangeStmt' and head == 'column_') or \
                ('column_.end()' in head and 'column.column_' not in head) or 'column_.rend()' in head
            if not over_column:
                continue
            body_t = _all_text(lp.get('body'))
            raw_only = f['name'] in TABLE.get('vector_raw_loops', {})
            n += 1
            ok = guarded or raw_only or consults(lp.get('body')) or consults(lp.get('cond'))
            chk.ob('E2g-lazy-discipline', 'Vector_column::%s: loop over column_ at line %s honours the lazily erased rows'
                   % (f['name'], lp.get('l')), '%s:%s' % (rel(f['file']), lp.get('l')), ok,
                   '' if ok else 'the loop walks the stored entries without consulting erasedValues_: entries zeroed '
                   'with clear(row) are treated as present', key='E2g|Vector_column::%s|lazy-loop|%d' % (
                       f['name'], sum(1 for l2, _ in loops[:loops.index((lp, guarded))] if True)))
    chk.expect_count('E2g-lazy-discipline', 'loops over column_ in Vector_column', n, 8)


def _all_text(n):
    return ' ; '.join(ir.show(x) for x in ir.walk(n) if x.get('k') not in ('CompoundStmt',))


# ------------------------------------------------------------------ R9 nullable pointers (E12)

GENERAL_FILES = ('Base_matrix.h', 'Base_matrix_with_column_compression.h', 'base_swap.h', 'matrix_row_access.h',
                 '/columns/')


def general_matrix_classes(F):
    by = {}
    seen = set()
    for f in F.functions:
        if f.get('inst') not in (0, 2) or f.get('body') is None:
            continue
        c = f.get('cls') or f.get('friendof')
        if not c or not any(g in f['file'] for g in GENERAL_FILES):
            continue
        key = (f['file'], f['line'], f['name'])
        if key in seen:
            continue
        seen.add(key)
        by.setdefault(c, []).append(f)
    return by


def run_nullness(chk, F):
    """R9: pointers the class itself treats as nullable (results of member functions with a `return nullptr` path,
    elements of containers that receive `= nullptr`) are never dereferenced, member-accessed or handed to the pool's
    destroy on a path on which they can be null (gsa/nullness.py: forward dataflow with branch refinement)."""
    from gsa import nullness
    by = general_matrix_classes(F)
    n_cls = n_sinks = 0
    for c, fns in sorted(by.items()):
        res, stats = nullness.analyse_class(fns)
        if not stats['nullable_calls'] and not stats['nullable_fields']:
            continue
        n_cls += 1
        n_sinks += stats['sinks']
        cname = c.split('::')[-1]
        for f, fs, sinks in res:
            where = '%s:%d' % (rel(f['file']), f['line'])
            # a member that cannot be instantiated has no behaviour: Base_matrix_with_column_compression::operator=
            # calls reserve() on a boost::intrusive::set (no such member), so any use fails to compile. The exemption
            # lapses with that call.
            dead = cname == 'Base_matrix_with_column_compression' and f['name'] == 'operator=' and ir.contains(
                f['body'], lambda y: ir.is_call(y) and ir.call_name(y) == 'reserve' and
                'columnToRep_' in ir.show(y))
            if sinks == 0 and not fs:
                continue
            if dead:
                chk.count('R9 members skipped because they cannot be instantiated', 1)
                continue
            if not fs:
                chk.ob('E12-nullness', '%s::%s: %d uses of nullable pointers are dominated by a non-null fact'
                       % (cname, f['name'], sinks), where, True, '', key='E12|%s::%s' % (cname, f['name']))
            for x in fs:
                chk.ob('E12-nullness', '%s::%s: %s of `%s`' % (cname, f['name'], x.kind, x.key),
                       '%s:%s' % (rel(f['file']), x.line), False,
                       '`%s` %s on this path (%s) and is used by %s' % (
                           x.key, 'is null' if x.state == 'N' else 'may be null', 'the class stores nullptr in '
                           'this container' if '[' in x.key else 'the function it comes from has a `return nullptr` '
                           'path', x.text), key='E12|%s::%s|%s|%s' % (cname, f['name'], x.key, x.kind.split(' ')[0]))
    chk.count('R9 classes with nullable pointers', n_cls)
    chk.count('R9 uses of nullable pointers checked', n_sinks)
    chk.expect_count('E12-nullness', 'classes with nullable pointers', n_cls, 2)
    chk.expect_count('E12-nullness', 'uses of nullable pointers', n_sinks, 40)


# ------------------------------------------------------------------ R10 sibling signatures (E7c)

def run_signatures(chk, F):
    """R10: the column containers are interchangeable: every public operation that all of them offer takes the same
    parameter types (the class's own name normalised). A sibling that declares another parameter type converts its
    argument differently (Field_element is bool over Z_2: `column *= 2` became `column *= true`)."""
    import re
    by = {}
    classes = set()
    for f in F.functions:
        cn = f.get('clsname') or ''
        if f.get('inst') not in (0, 2) or cn not in COLUMNS or '/columns/' not in f['file']:
            continue
        if f['name'].startswith('_') or f['name'].startswith('~') or f.get('kind') in (
                'ctor', 'copy_ctor', 'move_ctor', 'default_ctor', 'dtor'):
            continue
        classes.add(cn)
        sig = tuple(re.sub(r'\b%s\b(<[^<>]*>)?' % re.escape(cn), 'SELF', (p_.get('t') or ''))
                    for p_ in f['params'])
        by.setdefault(f['name'], {}).setdefault(cn, set()).add(sig)
    if len(classes) < 8:
        raise AnalysisBroken('C09: only %d column classes found' % len(classes))
    n = 0
    for name, d in sorted(by.items()):
        if len(d) < len(classes):
            continue
        n += 1
        sets = {}
        for cn, sigs in d.items():
            sets.setdefault(frozenset(sigs), []).append(cn)
        ok = len(sets) == 1
        detail = ''
        key = 'E7c|%s' % name
        if not ok:
            major = max(sets.items(), key=lambda kv: len(kv[1]))
            minority = [(cn, sorted(sg)) for sg, cns in sets.items() if sg != major[0] for cn in cns]
            detail = '%s declare(s) %s where the other %d classes declare %s' % (
                ', '.join('%s %s' % (cn, ['(%s)' % ', '.join(x) for x in sg]) for cn, sg in minority),
                name, len(major[1]), ['(%s)' % ', '.join(x) for x in sorted(major[0])])
            key = 'E7c|%s|%s' % (name, '+'.join(sorted(cn for cn, _ in minority)))
        chk.ob('E7c-signatures', 'all %d column classes declare %s with the same parameter types'
               % (len(classes), name), 'src/Persistence_matrix/include/gudhi/Persistence_matrix/columns', ok, detail,
               key=key)
    chk.expect_count('E7c-signatures', 'operations shared by all column classes', n, 15)


# ------------------------------------------------------------------ R11 aliasing of source and target (E2g)

ALIAS_OPS = ('operator+=', 'multiply_target_and_add', 'multiply_source_and_add')


def run_aliasing(chk, F):
    """R11: a column cannot be read while it is modified. In the two base matrices, an addition whose source and
    target are both looked up in the same matrix may receive the same object for both (equal indices; in the
    compressed matrix: two indices of one class). Every such call is (a) in a branch guarded by a decision that
    looks at both the source and the target, or (b) reaches column operations that all test `&column == this`."""
    cols = [f for f in F.functions if f.get('inst') in (0, 2) and (f.get('clsname') or '') in COLUMNS and
            f['name'] in ALIAS_OPS and f.get('body') is not None]

    def self_test(f):
        return ir.contains(f['body'], lambda y: y.get('k') in ('BinaryOperator', 'CXXOperatorCallExpr') and
                           y.get('op') in ('==', '!=') and 'this' in ir.show(y) and '&' in ir.show(y))
    columns_safe = bool(cols) and all(self_test(f) for f in cols)
    n = 0
    for cname in ('Base_matrix', 'Base_matrix_with_column_compression'):
        fns = [f for f in F.functions if f.get('clsname') == cname and f.get('inst') in (0, 2) and
               f.get('body') is not None and f['name'] in ('add_to', 'multiply_target_and_add_to',
                                                            'multiply_source_and_add_to')]
        if len(fns) < 3:
            raise AnalysisBroken('C09: addition functions of %s not found' % cname)
        for f in fns:
            params = [p_['n'] for p_ in f['params']]
            src = [p_ for p_ in params if 'source' in p_.lower()]
            tgt = [p_ for p_ in params if 'target' in p_.lower()]
            if len(src) != 1 or len(tgt) != 1:
                raise AnalysisBroken('C09: source/target parameters of %s::%s not identified' % (cname, f['name']))
            src, tgt = src[0], tgt[0]
            # locals derived from the target index
            derived = {tgt}
            for x in ir.walk(f['body']):
                if x.get('k') == 'VarDecl' and x.get('init') is not None and any(
                        d in [y.get('n') for y in ir.walk(x['init']) if y.get('k') == 'DeclRefExpr'] for d in derived):
                    derived.add(x['n'])
            par = ir.parents(f['body'])
            sites = []
            for x in ir.walk(f['body']):
                if not (ir.is_call(x) or x.get('k') == 'CompoundAssignOperator'):
                    continue
                nm = 'operator+=' if x.get('k') == 'CompoundAssignOperator' and x.get('op') == '+=' else \
                    (ir.call_name(x) if ir.is_call(x) else None)
                if nm not in ALIAS_OPS and not (x.get('k') == 'CXXOperatorCallExpr' and x.get('op') == '+='):
                    continue
                names = [y.get('n') for y in ir.walk(x) if y.get('k') == 'DeclRefExpr']
                # the source operand is itself a lookup by index in this matrix
                lookup = [y for y in ir.walk(x) if ir.is_call(y) and ir.call_name(y) in ('get_column', '_get_column')
                          and any(z.get('n') == src for z in ir.walk(y) if z.get('k') == 'DeclRefExpr')]
                if not lookup or not any(d in names for d in derived):
                    continue
                sites.append(x)
            if not sites:
                raise AnalysisBroken('C09: no column operation with a looked-up source in %s::%s' % (cname, f['name']))
            for x in sites:
                n += 1
                guarded = False
                cur = x
                while id(cur) in par:
                    up = par[id(cur)]
                    if up.get('k') == 'IfStmt' and not up.get('constexpr') and cur is not up.get('cond'):
                        t = [y.get('n') for y in ir.walk(up.get('cond')) if y.get('k') == 'DeclRefExpr']
                        if src in t and any(d in t for d in derived):
                            guarded = True
                    cur = up
                ok = guarded or columns_safe
                chk.ob('E2g-alias', '%s::%s: the column operation at line %s cannot receive one column as source '
                       'and target' % (cname, f['name'], x.get('l')), '%s:%s' % (rel(f['file']), x.get('l')), ok,
                       '' if ok else 'source `%s` and target `%s` are both looked up in this matrix and may designate '
                       'the same column; no decision compares them and the column operations do not test '
                       '`&column == this`: the column is iterated while it is modified' % (src, tgt),
                       key='E2g|%s::%s|alias' % (cname, f['name']))
    chk.expect_count('E2g-alias', 'column operations with a looked-up source', n, 6)


# ------------------------------------------------------------------ R12 order of entries (E9)

ORDER_ALGOS = {'sort': 2, 'stable_sort': 2, 'max_element': 2, 'min_element': 2, 'is_sorted': 2,
               'binary_search': 3, 'lower_bound': 3, 'upper_bound': 3, 'equal_range': 3, 'inplace_merge': 3}


def run_entry_order(chk, F):
    """R12: the vector-like and hashed columns store *pointers* to entries. A column is kept (or searched) in the
    order of the row indices, so every ordering algorithm applied to such a container passes a comparator, and the
    comparator compares the entries, not the pointers: it is the strict order on the row index (evaluated on the
    three relations of the two row indices). Without a comparator the order is the order of the addresses."""
    from gsa import cmprules
    n = 0
    for cn in COLUMNS:
        fns = [f for f in F.functions if f.get('clsname') == cn and f.get('inst') in (0, 2) and
               f.get('body') is not None and '/columns/' in f['file']]
        if not fns:
            continue
        # evidence that column_ holds pointers: its elements are handed to the pool's destroy as they are
        holds_ptrs = any(ir.is_call(x) and ir.call_name(x) == 'destroy' and ir.call_args(x) and
                         not ir.show(ir.call_args(x)[0]).startswith('&')
                         for f in fns for x in ir.walk(f['body']))
        if not holds_ptrs:
            continue
        for f in fns:
            for x in ir.walk(f['body']):
                if not ir.is_call(x) or ir.call_name(x) not in ORDER_ALGOS:
                    continue
                args = ir.call_args(x)
                rng = ir.show(args[0]) if args else ''
                need = ORDER_ALGOS[ir.call_name(x)]
                recv = ir.call_receiver(x)
                if recv is not None and ir.call_name(x) == 'sort' and 'std' not in ir.show(ir.callee_expr(x))[:4]:
                    # member sort of a list: container.sort(comp)
                    rng = ir.show(recv) + '.begin()'
                    need = 0
                elif 'begin' not in rng:
                    continue
                n += 1
                comp = ir.skipcasts(args[need]) if len(args) > need else None
                while comp is not None and comp.get('k') in ('MaterializeTemporaryExpr', 'CXXBindTemporaryExpr',
                                                             'ExprWithCleanups') and comp.get('c'):
                    comp = ir.skipcasts(comp['c'][0])
                where = '%s:%s' % (rel(f['file']), x.get('l'))
                key = 'E9|%s::%s|%s|%s' % (cn, f['name'], ir.call_name(x), rng.split('.')[0])
                if comp is None:
                    chk.ob('E9-entry-order', '%s::%s: std::%s over %s compares entries' % (cn, f['name'],
                                                                                           ir.call_name(x), rng),
                           where, False, 'no comparator is passed: the elements are Entry pointers, so the range is '
                           'ordered by address, not by row index', key=key)
                    continue
                if comp.get('k') != 'LambdaExpr':
                    # a named functor: it must be a comparator type of the class (EntryPointerComp)
                    t = ir.show(comp)
                    ok = 'Comp' in t
                    chk.ob('E9-entry-order', '%s::%s: std::%s over %s uses the entry comparator' %
                           (cn, f['name'], ir.call_name(x), rng), where, ok, '' if ok else 'comparator %s' % t, key=key)
                    continue
                ps = [p_['n'] for p_ in comp.get('params', [])]
                if len(ps) != 2:
                    raise AnalysisBroken('C09: comparator lambda with %d parameters in %s' % (len(ps), f['qual']))
                pseudo = {'qual': '%s::%s comparator (line %s)' % (cn, f['name'], comp.get('l')), 'file': f['file'],
                          'line': comp.get('l') or f['line'], 'body': comp['body'], 'params': comp.get('params', [])}
                cas = cmprules.Cascade(pseudo, None, None)
                keys = cas.keys()
                good_keys = [k_ for k_ in keys if k_ in ('*@', '@->get_row_index()', '(*@).get_row_index()')]
                ok = len(keys) == 1 and len(good_keys) == 1
                detail = ''
                if ok:
                    res = {}
                    for r in ('lt', 'eq', 'gt'):
                        res[r] = cas.run({keys[0]: r})
                    ok = res == {'lt': True, 'eq': False, 'gt': False}
                    detail = '' if ok else 'on (row1 < row2, row1 == row2, row1 > row2) it returns %s' % \
                        [res['lt'], res['eq'], res['gt']]
                else:
                    detail = 'keys compared: %s (expected the dereferenced entries / their row indices)' % keys
                chk.ob('E9-entry-order', '%s::%s: std::%s over %s uses the strict order of the row indices'
                       % (cn, f['name'], ir.call_name(x), rng), where, ok, detail, key=key)
    chk.expect_count('E9-entry-order', 'ordering algorithms over entry-pointer containers', n, 8)


# ------------------------------------------------------------------ R13 assertions do not carry behaviour (E6b)

def run_assert_purity(chk, F, by=None, min_count=8):
    """R13: GUDHI_CHECK / assert vanish in release builds (NDEBUG), so their conditions must not do anything the
    function relies on: no call, on *this or on a member, of a member function that is not const (the analysis parses
    the headers with assertions enabled; the two configurations behave alike only if the condition is pure).
    Found: Vector_column::push_back flushed its lazily erased entries only through get_pivot() inside a GUDHI_CHECK."""
    by = general_matrix_classes(F) if by is None else by
    nonconst = {}
    for c in F.classes:
        if c.get('inst') not in (0, 2):
            continue
        for m in c.get('methods', []):
            if m.get('kind') in ('method',) and not m.get('static'):
                nonconst.setdefault((c['name'], m['n']), []).append(not m.get('const'))
    n = 0
    for cq, fns in sorted(by.items()):
        cname = cq.split('::')[-1]
        for f in fns:
            for x in ir.walk(f['body']):
                if x.get('k') != 'ConditionalOperator' or len(x.get('c') or []) != 3:
                    continue
                arms = x['c'][1:]
                if not any(ir.contains(a, lambda y: y.get('k') == 'CXXThrowExpr' or
                                       (ir.is_call(y) and ir.call_name(y) == '__assert_fail')) for a in arms):
                    continue
                n += 1
                bad = None
                for y in ir.walk(x['c'][0]):
                    if ir.is_call(y) and ir.is_this_call(y) and y.get('k') != 'CXXOperatorCallExpr':
                        flags = nonconst.get((cname, ir.call_name(y)))
                        if flags and all(flags) and bad is None and \
                                '%s::%s' % (cname, ir.call_name(y)) not in TABLE.get('assert_side_effects_ok', {}):
                            bad = y
                    if ir.write_target(y) is not None and bad is None:
                        bad = y
                if bad is not None or True:
                    chk.ob('E6b-assert-pure', '%s::%s line %s: the checked condition has no side effect' %
                           (cname, f['name'], x.get('l')), '%s:%s' % (rel(f['file']), x.get('l')), bad is None,
                           '' if bad is None else '`%s` is not a const member function (or writes): with NDEBUG the '
                           'check and its side effect disappear, the release build behaves differently' %
                           ir.show(bad)[:80], key='E6b|%s::%s|assert|%s' % (cname, f['name'], ir.show(x['c'][0])[:50]))
    chk.expect_count('E6b-assert-pure', 'checked conditions', n, min_count)

"""C09 general matrices behave as dense matrices: structural clauses on the nine column classes (DESIGN 4/C09)."""
import json
import os
import re

from rules import c05, findrule
from gsa import facts, ir, paths
from gsa.facts import Unit, rel, AnalysisBroken
from gsa.report import Check

TABLE = json.load(open(os.path.join(facts.VERIF, 'tables', 'c09.json')))
PM = 'src/Persistence_matrix/include/gudhi/Persistence_matrix/'
UNITS = [Unit('mx_pat', 'matrix_pat.cpp', [PM], no_inst=True)]
COLUMNS = ['Heap_column', 'Vector_column', 'Naive_vector_column', 'List_column', 'Set_column',
           'Unordered_set_column', 'Intrusive_list_column', 'Intrusive_set_column']
CREATE_CALLS = ('construct', '_insert_entry', 'emplace_back', 'push_back')


def mentions(n, name):
    return ir.contains(n, lambda y: y.get('k') == 'DeclRefExpr' and y.get('n') == name)


def enclosing_scopes(fn):
    """map id(node) -> innermost enclosing loop body / lambda body / function body"""
    scope = {}

    def rec(n, cur):
        if n is None:
            return
        scope[id(n)] = cur
        k = n.get('k')
        for ch in ir.kids(n):
            if k in ('ForStmt', 'WhileStmt', 'CXXForRangeStmt', 'DoStmt') and ch is n.get('body'):
                rec(ch, ch)
            elif k == 'LambdaExpr':
                rec(ch, ch)
            else:
                rec(ch, cur)
    rec(fn.get('body'), fn.get('body'))
    return scope


def run_coefficient_use(chk, F):
    """R1: every entry that _multiply_source_and_add* creates from the source is scaled by the coefficient"""
    n = 0
    for f in F.functions:
        if f['inst'] not in (0, 2) or f['name'] not in ('_multiply_source_and_add',
                                                         '_multiply_source_and_add_to_column'):
            continue
        if not f['file'].startswith(os.path.join(facts.REPO, PM)):
            continue
        valp = [p['n'] for p in f['params'] if p['n'] == 'val']
        if not valp:
            raise AnalysisBroken('C09: %s has no parameter `val`' % f['qual'])
        scope = enclosing_scopes(f)
        owner = f.get('clsname') or 'column_utilities'
        sites = []
        for x in ir.walk(f['body']):
            # a coefficient of the source is copied into a target entry
            if ir.is_call(x) and ir.call_name(x) in ('set_element', '_insert_entry') and any(
                    ir.contains(a, lambda y: ir.is_call(y) and ir.call_name(y) == 'get_element')
                    for a in ir.call_args(x)):
                sites.append(x)
        # delegation to the shared helper counts as one site handled there
        delegates = [x for x in ir.walk(f['body']) if ir.is_call(x) and
                     ir.call_name(x) in ('_multiply_source_and_add_to_column',)]
        if not sites and not delegates:
            raise AnalysisBroken('C09: %s creates no entry and delegates to nothing' % f['qual'])
        for s in sites:
            n += 1
            sc = scope[id(s)]
            uses = ir.contains(sc, lambda y: ir.is_call(y) and (ir.call_name(y) or '').startswith('multiply') and
                               any(mentions(a, 'val') for a in ir.call_args(y)))
            chk.ob('E10-coefficient', '%s::%s: entries created at line %s are scaled by val' % (owner, f['name'],
                                                                                                 s.get('l')),
                   '%s:%s' % (rel(f['file']), s.get('l')), uses,
                   '' if uses else 'the loop / callback that creates target entries from the source never applies the '
                   'coefficient: the source is added unscaled', key='E10|%s::%s|scaled|%d' % (
                       owner, f['name'], sum(1 for t in sites[:sites.index(s)] if True)))
    chk.expect_count('E10-coefficient', 'entry-creating sites in multiply_source_and_add', n, 4)


def first_guard_on_val(f):
    body = f.get('body') or {}
    for s in (body.get('c') or [])[:3]:
        if s.get('k') == 'IfStmt' and re.search(r'\bval == 0', ir.show(s.get('cond'))):
            return s
    return None


def run_zero_guard(chk, F):
    """R2: every sibling guards a zero coefficient the same way"""
    n = 0
    for f in F.functions:
        if f['inst'] not in (0, 2) or not f['file'].startswith(os.path.join(facts.REPO, PM)):
            continue
        owner = f.get('clsname') or 'column_utilities'
        if f['name'] in ('_multiply_source_and_add', '_multiply_source_and_add_to_column'):
            kind = 'source'
        elif f['name'] in ('_multiply_target_and_add', '_multiply_target_and_add_to_column'):
            kind = 'target'
        else:
            continue
        if ir.contains(f['body'], lambda y: ir.is_call(y) and (ir.call_name(y) or '').endswith('_and_add_to_column')):
            continue      # pure delegation to the shared helper
        n += 1
        g = first_guard_on_val(f)
        ok = g is not None
        detail = 'no `if (val == 0u ...)` guard at the top'
        if g is not None:
            if kind == 'source':
                ok = ir.contains(g.get('then'), lambda y: y.get('k') == 'ReturnStmt')
                detail = 'the zero guard does not return (adding 0 * source must leave the target unchanged)'
            else:
                ok = ir.contains(g.get('then'), lambda y: y.get('k') == 'CXXThrowExpr' or
                                 (ir.is_call(y) and ir.call_name(y) == 'clear'))
                detail = 'the zero guard neither clears the target nor throws (0 * target must empty the column)'
        chk.ob('E7a-zero-guard', '%s::%s guards a zero coefficient' % (owner, f['name']),
               '%s:%d' % (rel(f['file']), f['line']), ok, '' if ok else detail,
               key='E7a|%s::%s|zero' % (owner, f['name']))
    chk.expect_count('E7a-zero-guard', 'non-delegating multiply-and-add implementations', n, 6)


def run_lazy_state(chk, F):
    """R3: Vector_column::erasedValues_ is a subset of the rows stored in column_ (size()/is_empty() rely on it)"""
    n = 0
    for f in F.functions:
        if f.get('clsname') != 'Vector_column' or f['inst'] not in (0, 2):
            continue
        ins = [x for x in ir.walk(f['body']) if ir.is_call(x) and ir.call_name(x) == 'insert' and
               ir.call_receiver(x) is not None and ir.show(ir.call_receiver(x)) == 'erasedValues_']
        if not ins:
            continue

        def cl(x, ins=ins):
            return ['INS'] if any(x is i for i in ins) else []
        ps = paths.enumerate_paths(f, cl, loop_mode='1', keep_conds=True)
        for i in ins:
            n += 1
            arg = ir.show(ir.call_args(i)[0])
            bad = None
            for p in ps:
                if not any(node is i for tag, node in p.events if tag == 'INS'):
                    continue
                # a dominating decision that looks the row up among the stored entries
                seen = False
                in_column_loop = False
                for tag, node in p.events:
                    if tag == 'INS' and node is i:
                        break
                    if tag == '?' and not isinstance(node[0], tuple):
                        c0, pol0 = node[0], node[1]
                        if c0.get('k') == 'CXXForRangeStmt' and pol0 and ir.show(c0.get('range')) == 'column_':
                            in_column_loop = True
                            continue
                        t = ir.show(c0)
                        # (a) a lookup of the row among the stored entries, or (b) inside a loop over column_, a
                        # comparison of the row with the current entry's row index
                        if 'column_' in t and arg in t:
                            seen = True
                        if in_column_loop and pol0 and arg in t and 'get_row_index()' in t and '==' in t:
                            seen = True
                if not seen:
                    bad = p
                    break
            chk.ob('E2g-lazy-state', 'Vector_column::%s: erasedValues_.insert(%s) only for a row stored in column_'
                   % (f['name'], arg), '%s:%s' % (rel(f['file']), i.get('l')), bad is None,
                   '' if bad is None else 'a row index is marked erased without checking that the column stores it: '
                   'size() and is_empty() compute column_.size() - erasedValues_.size() and report a non-empty column '
                   'as empty', key='E2g|Vector_column::%s|erased-subset' % f['name'])
    chk.expect_count('E2g-lazy-state', 'insertions into erasedValues_', n, 1)

    # heap: every push of an entry is counted in insertsSinceLastPrune_
    for f in F.functions:
        if f.get('clsname') != 'Heap_column' or f['inst'] not in (0, 2):
            continue
        if f['name'] not in ('_add', '_multiply_target_and_add', '_multiply_source_and_add'):
            continue
        for loop in ir.walk(f['body']):
            if loop.get('k') != 'CXXForRangeStmt':
                continue
            pushes = ir.contains(loop.get('body'), lambda y: ir.is_call(y) and ir.call_name(y) == 'push_back' and
                                 ir.show(ir.call_receiver(y)) == 'column_')
            if not pushes:
                continue
            counted = ir.contains(loop.get('body'), lambda y: y.get('k') == 'UnaryOperator' and y.get('op') == '++'
                                  and ir.show(y['c'][0]) == 'insertsSinceLastPrune_')
            chk.ob('E2g-lazy-state', 'Heap_column::%s counts every pushed entry in insertsSinceLastPrune_' % f['name'],
                   '%s:%s' % (rel(f['file']), loop.get('l')), counted,
                   '' if counted else 'entries are pushed on the heap without counting them: pruning of cancelled '
                   'entries is never triggered and _prune() returns early', key='E2g|Heap_column::%s|counted' % f['name'])


def run_row_access(chk, F):
    """R4: with row access, unlink precedes destroy of the same entry and a constructed, kept entry is inserted in
    its row (on every path of the has_row_access arms)"""
    n_d = n_c = 0
    for f in F.functions:
        if f.get('clsname') not in COLUMNS or f.get('clsname') == 'Heap_column' or f['inst'] not in (0, 2):
            continue
        if f['kind'] == 'dtor' and False:
            continue
        has = ir.contains(f.get('body'), lambda y: ir.is_call(y) and ir.call_name(y) in ('destroy', 'construct')
                          and 'entryPool_' in ir.show(ir.call_receiver(y) or {}))
        if not has:
            continue

        def cl(x):
            if ir.is_call(x):
                n = ir.call_name(x)
                rt = ir.show(ir.call_receiver(x)) if ir.call_receiver(x) is not None else ''
                if n == 'destroy' and 'entryPool_' in rt:
                    return ['DESTROY']
                if n == 'construct' and 'entryPool_' in rt:
                    return ['CONSTRUCT']
                if n == 'unlink':
                    return ['UNLINK']
                if n == 'insert_entry':
                    return ['RAINS']
                if n in ('_delete_entry',):
                    return ['DELENTRY']
            return []
        try:
            ps = paths.enumerate_paths(f, cl, loop_mode='1', keep_conds=True, cap=30000)
        except paths.TooManyPaths:
            raise AnalysisBroken('C09: too many paths in %s' % f['qual'])
        bad_d = bad_c = None
        saw_d = saw_c = False
        for p in ps:
            if p.end == 'throw':
                continue
            ra_false = any(cx and ((not pol and _is_ra(c)) or (pol and _is_not_ra(c)))
                           for c, pol, cx in p.conds if not isinstance(c, tuple))
            ra_known_true = any(cx and ((pol and _is_ra(c)) or (not pol and _is_not_ra(c)))
                                for c, pol, cx in p.conds if not isinstance(c, tuple))
            if ra_false:
                continue
            unlinked = []
            constructed = []
            for tag, node in p.events:
                if tag == 'UNLINK':
                    unlinked.append(ir.show((ir.call_args(node) or [None])[0]))
                elif tag == 'CONSTRUCT':
                    constructed.append(node)
                elif tag == 'DESTROY':
                    saw_d = True
                    a = ir.show(ir.call_args(node)[0])
                    temp = any(True for c in constructed)   # an entry built in this call (search key / temporary)
                    if a not in unlinked and not temp and ra_known_true_or_unconditional(p, ra_known_true) \
                            and bad_d is None:
                        bad_d = (p, node)
        if saw_d:
            n_d += 1
            chk.ob('E2-row-access', '%s::%s unlinks an entry from its row before destroying it' % (
                f['clsname'], f['name']), '%s:%d' % (rel(f['file']), f['line']), bad_d is None,
                '' if bad_d is None else 'entry destroyed at line %s while still linked in its row: the row keeps a '
                'dangling entry' % bad_d[1].get('l'), key='E2|%s::%s|unlink-before-destroy|%d' % (
                    f['clsname'], f['name'], len(f['params'])))
    chk.count('R4 functions destroying entries', n_d)
    chk.expect_count('E2-row-access', 'functions destroying entries', n_d, 15)


def ra_known_true_or_unconditional(p, known):
    return True


def _is_ra(c):
    t = ir.show(c)
    return t.endswith('has_row_access') and not t.startswith('!')


def _is_not_ra(c):
    t = ir.show(c)
    return t.startswith('!') and t.endswith('has_row_access') and '&&' not in t and '||' not in t


def run_destroyed_iteration(chk, F):
    """R5: after entries of container C were destroyed while iterating C (without erasing them from C), C must be
    cleared / swapped before it is iterated again"""
    n = 0
    for f in F.functions:
        if f.get('clsname') not in COLUMNS or f['inst'] not in (0, 2):
            continue
        loops = [x for x in ir.walk(f.get('body')) if x.get('k') == 'CXXForRangeStmt']
        killers = {}
        for lp in loops:
            v = (lp.get('var') or {}).get('n')
            c = ir.show(lp.get('range'))
            if ir.contains(lp.get('body'), lambda y: ir.is_call(y) and ir.call_name(y) in ('_delete_entry', 'destroy')
                           and any(ir.show(a) in (v, '*' + v) for a in ir.call_args(y))):
                killers[id(lp)] = c
        if not killers:
            continue

        kconts = set(killers.values())

        def cl(x, kconts=kconts):
            if x.get('k') == 'CXXForRangeStmt':
                # loops over a container that may hold destroyed entries must be explored even without events
                return ['$loop'] if ir.show(x.get('range')) in kconts else []
            if ir.is_call(x) and ir.call_name(x) in ('clear', 'swap', 'resize', 'erase') and \
                    ir.call_receiver(x) is not None:
                return ['RESET:' + ir.show(ir.call_receiver(x))]
            t = ir.write_target(x)
            if t is not None and x.get('op') == '=':
                return ['RESET:' + ir.show(t)]
            return []
        # statement-order approximation inside one compound: walk the path and look at loop markers
        ps = paths.enumerate_paths(f, cl, loop_mode='1', keep_conds=True, cap=30000)
        bad = None
        for p in ps:
            dirty = {}
            for tag, node in p.events:
                if tag == '?':
                    c, pol, _ = node
                    if isinstance(c, tuple) or c.get('k') != 'CXXForRangeStmt' or not pol:
                        continue
                    cont = ir.show(c.get('range'))
                    if cont in dirty and dirty[cont] is not c and bad is None:
                        bad = (cont, c)
                    if id(c) in killers:
                        dirty[killers[id(c)]] = c
                elif tag.startswith('RESET:'):
                    dirty.pop(tag[6:], None)
        n += 1
        chk.ob('E2-destroyed-iteration', '%s::%s does not iterate a container that still holds destroyed entries'
               % (f['clsname'], f['name']), '%s:%d' % (rel(f['file']), f['line']), bad is None,
               '' if bad is None else 'the loop at line %s iterates %s after entries of it were destroyed without '
               'being removed: use after destruction' % (bad[1].get('l'), bad[0]),
               key='E2|%s::%s|destroyed-iteration' % (f['clsname'], f['name']))
    chk.expect_count('E2-destroyed-iteration', 'functions destroying entries while iterating', n, 3)


def mirror_text(t):
    t = re.sub(r'\b(\w+?)1\b', lambda m: m.group(1) + '\x01', t)
    t = re.sub(r'\b(\w+?)2\b', lambda m: m.group(1) + '1', t)
    return t.replace('\x01', '2')


def run_mirror(chk, F):
    """R6: the 'row 1 absent' and 'row 2 absent' arms of Base_swap::swap_rows are mirror images under 1 <-> 2"""
    fs = [f for f in F.functions if f['name'] == 'swap_rows' and f.get('clsname') == 'Base_swap'
          and f['inst'] in (0, 2)]
    if len(fs) != 1:
        raise AnalysisBroken('C09: Base_swap::swap_rows not found')
    f = fs[0]
    arms = {}
    for x in ir.walk(f['body']):
        if x.get('k') == 'IfStmt' and x.get('else') is None:
            t = ir.show(x.get('cond'))
            m = re.fullmatch(r'\(it([12]) == indexToRow_\.end\(\)\)', t)
            if m:
                stm = x.get('then')
                lst = (stm.get('c') or []) if stm.get('k') == 'CompoundStmt' else [stm]
                arms[m.group(1)] = [ir.show(s) for s in lst]
    if set(arms) != {'1', '2'}:
        raise AnalysisBroken('C09: the two one-sided arms of swap_rows were not found')
    # iterator-or-key erase are the same thing when the iterator designates that key: normalise erase(itN) to
    # erase(itN->first)
    def norm(lst):
        return [re.sub(r'erase\(it([12])\)', r'erase(it\1->first)', s) for s in lst]
    a1, a2 = norm(arms['1']), norm(arms['2'])
    ok = [mirror_text(s) for s in a1] == a2
    chk.ob('E7b-mirror', 'Base_swap::swap_rows: the arm for an absent row 1 mirrors the arm for an absent row 2',
           '%s:%d' % (rel(f['file']), f['line']), ok,
           '' if ok else 'arm(row 1 absent) = %s ; arm(row 2 absent) = %s' % (a1, a2),
           key='E7b|Base_swap::swap_rows|mirror')


def run_swap_dictionaries(chk, F):
    """E2-swap-dictionaries: the lazy row swaps keep two dictionaries, row -> slot (indexToRow_) and slot -> row
    (rowToIndex_), inverse of each other: on every path of every function of the base / boundary matrices and of
    Base_swap the net number of keys added to one (push_back, emplace, `d[k] = ..` on a map, minus erase) equals the net
    number added to the other. A function that clears one rebuilds it from the other in a loop over it."""
    files = ('Base_matrix.h', 'Boundary_matrix.h', 'base_swap.h')
    D = ('indexToRow_', 'rowToIndex_')

    def dict_of(e):
        e = ir.skipcasts(e)
        while e is not None:
            if e.get('k') in ir.MEMBER_KINDS + ('DeclRefExpr', 'DependentScopeDeclRefExpr') and e.get('n') in D:
                return e['n']
            if e.get('k') in ir.MEMBER_KINDS and e.get('c'):
                return None
            return None
        return None

    n = 0
    for f in F.functions:
        if f.get('inst') not in (0, 2) or f.get('body') is None or f['file'].split('/')[-1] not in files:
            continue
        if f['kind'] in ('ctor', 'copy_ctor', 'move_ctor', 'default_ctor', 'dtor'):
            continue
        if not ir.contains(f['body'], lambda y: y.get('n') in D):
            continue
        in_map_arm = set()
        for x in ir.walk(f['body']):
            if x.get('k') == 'IfStmt' and 'has_map_column_container' in ir.show(x.get('cond')):
                for y in ir.walk(x.get('then')):
                    in_map_arm.add(id(y))

        def cl(x):
            if ir.is_call(x) and ir.call_name(x) in ('push_back', 'emplace', 'try_emplace', 'emplace_back', 'insert',
                                                     'erase', 'clear'):
                d = dict_of(ir.call_receiver(x))
                if d:
                    nm = ir.call_name(x)
                    return [('-' if nm == 'erase' else '0' if nm == 'clear' else '+') + d]
            t = ir.write_target(x)
            if t is not None and x.get('op') == '=' and id(x) in in_map_arm:
                tt = ir.skipcasts(t)
                if tt is not None and (tt.get('k') == 'ArraySubscriptExpr' or
                                       (ir.is_call(tt) and tt.get('op') == '[]')):
                    base = (tt.get('c') or [None])[0] if tt.get('k') == 'ArraySubscriptExpr' else ir.call_args(tt)[0]
                    d = dict_of(base)
                    if d:
                        return ['+' + d]      # operator[] of a map dictionary adds the key
            return []
        ps = paths.enumerate_paths(f, cl, loop_mode='01', cap=20000)
        bad = None
        np_ = 0
        rebuilt = None
        for p in ps:
            if p.end == 'throw':
                continue
            tags = p.tags()
            if not tags:
                continue
            np_ += 1
            if any(t.startswith('0') for t in tags):
                if rebuilt is None:
                    rebuilt = {}
                    for x in ir.walk(f['body']):
                        if x.get('k') == 'CXXForRangeStmt':
                            src = dict_of(x.get('range'))
                            for y in ir.walk(x.get('body')):
                                if ir.is_call(y) and ir.call_name(y) in ('emplace', 'try_emplace'):
                                    dst = dict_of(ir.call_receiver(y))
                                    if src and dst and src != dst:
                                        rebuilt[dst] = src
                for t in tags:
                    if t.startswith('0') and t[1:] not in rebuilt and bad is None:
                        bad = '%s is cleared and not rebuilt from the other dictionary' % t[1:]
                continue
            net = {d: tags.count('+' + d) - tags.count('-' + d) for d in D}
            if net[D[0]] != net[D[1]] and bad is None:
                bad = 'a path changes the number of keys of indexToRow_ by %+d and of rowToIndex_ by %+d' % (
                    net[D[0]], net[D[1]])
        if np_ == 0:
            continue
        n += 1
        owner = f.get('clsname') or '-'
        chk.ob('E2-swap-dictionaries', '%s::%s keeps the two dictionaries of the lazy row swaps on the same keys '
               '(%d paths)' % (owner, f['name'], np_), '%s:%d' % (rel(f['file']), f['line']), bad is None, bad or '',
               key='E2|%s::%s|swap-dictionaries' % (owner, f['name']))
    chk.expect_count('E2-swap-dictionaries', 'functions changing the swap dictionaries', n, 5)


def run_row_exact(chk, F):
    """E2-row-exact: "each row lists exactly the non-zero entries of that row". Vector_column zeroes an entry lazily
    (the row index goes to erasedValues_, the entry stays stored and linked): every path that marks a row erased is in
    an arm compiled without row access, or unlinks / deletes the entry on the same path."""
    n = 0
    for f in F.functions:
        if f.get('clsname') != 'Vector_column' or f['inst'] not in (0, 2) or f.get('body') is None:
            continue
        ins = [x for x in ir.walk(f['body']) if ir.is_call(x) and ir.call_name(x) == 'insert' and
               ir.call_receiver(x) is not None and ir.show(ir.call_receiver(x)) == 'erasedValues_']
        if not ins:
            continue

        def cl(x, ins=ins):
            if any(x is i for i in ins):
                return ['MARK']
            if ir.is_call(x) and ir.call_name(x) in ('unlink', '_delete_entry'):
                return ['UNLINK']
            return []
        ps = paths.enumerate_paths(f, cl, loop_mode='1', keep_conds=True)
        bad = None
        for p in ps:
            tags = p.tags()
            if 'MARK' not in tags or p.end == 'throw':
                continue
            ra_false = any(cx and ((not pol and _is_ra(c)) or (pol and _is_not_ra(c)))
                           for c, pol, cx in p.conds if not isinstance(c, tuple))
            if ra_false or 'UNLINK' in tags:
                continue
            bad = p
            break
        n += 1
        chk.ob('E2-row-exact', 'Vector_column::%s marks a row as lazily erased only where no row lists the entry '
               '(no row access) or after unlinking it' % f['name'], '%s:%d' % (rel(f['file']), f['line']), bad is None,
               '' if bad is None else 'a path compiled with row access adds the row to erasedValues_ and leaves the '
               'entry linked: get_row() keeps listing an entry that zero_entry() removed',
               key='E2|Vector_column::%s|row-exact' % f['name'])
    chk.expect_count('E2-row-exact', 'functions erasing lazily', n, 1)


def run_reorder_index(chk, F):
    """E7-reorder-index: when the lazy swaps are applied each column gets the index of the slot it now occupies
    (Column::reorder(map, columnIndex)). A column object that was swapped into another slot still carries the index
    of its old slot in Row_access::columnIndex_, which it stamps on every entry it creates: every reorder that
    relabels its stored entries with set_column_index(columnIndex) also assigns RA_opt::columnIndex_ (siblings: the
    seven column classes with row access)."""
    n = 0
    for f in F.functions:
        if f.get('clsname') not in COLUMNS or f['name'] != 'reorder' or f['inst'] not in (0, 2) or \
                f.get('body') is None:
            continue
        par = [p['n'] for p in f.get('params', []) if 'Index' in (p.get('t') or '') and 'map' not in p['n'].lower()]
        if not par:
            continue
        idx = par[-1]
        relabels = [x for x in ir.walk(f['body']) if ir.is_call(x) and ir.call_args(x) and (
            (ir.call_name(x) == 'set_column_index' and ir.show(ir.call_args(x)[0]) == idx) or
            (ir.call_name(x) == 'construct' and mentions(ir.call_args(x)[0], idx)))]   # rebuilt under the new index
        if not relabels:
            continue
        n += 1
        own = False
        for x in ir.walk(f['body']):
            t = ir.write_target(x)
            if t is not None and x.get('op') == '=':
                tt = ir.skipcasts(t)
                if tt is not None and tt.get('n') == 'columnIndex_' and ir.show(x['c'][1]) == idx:
                    own = True
        chk.ob('E7-reorder-index', '%s::reorder gives the index of the new slot to its stored entries and to the '
               'entries it will create' % f['clsname'], '%s:%d' % (rel(f['file']), f['line']), own,
               '' if own else 'the stored entries are relabelled with set_column_index(%s) but RA_opt::columnIndex_ '
               'keeps the index of the slot the column object came from: after swap_columns every new entry is '
               'registered in its row under the other column' % idx, key='E7|%s::reorder|own-index' % f['clsname'])
    chk.expect_count('E7-reorder-index', 'reorder implementations relabelling their entries', n, 7)


def run_reregistration(chk, F):
    """E9-reregistration: with rows that are sets of entry copies keyed by column index, Column::reorder(map, k) erases
    the copies of the column (under its current index) and inserts them under k. Base_swap::_orderRows does this one
    column after the other: the keys handed out by one pass must be disjoint from the keys the columns still carry
    (the keys of the previous pass, 0..n-1 at the start), otherwise an inserted copy collides with the stale copy of a
    column not yet re-registered and is dropped. Decided on the arguments `i + c*n` of the passes, evaluated in the
    configuration has_row_access && !has_intrusive_rows."""
    fs = [f for f in F.functions if f.get('clsname') == 'Base_swap' and f['name'] == '_orderRows' and
          f['inst'] in (0, 2) and f.get('body') is not None]
    if len(fs) != 1:
        raise AnalysisBroken('C09: Base_swap::_orderRows not found')
    f = fs[0]

    def analyse(map_cfg):
        env = {}            # local -> (coefficient of n, constant) ; n = a bound above the keys the columns carry
        above = set()       # locals raised above every key of the (map) column container
        passes = []
        counting = []       # counting loops that reorder, met in the map configuration

        def lin(e, loopvar):
            """(coefficient of the loop key, coefficient of n, constant) or None"""
            e = ir.skipcasts(e)
            if e is None:
                return None
            if loopvar is not None and ir.show(e) == loopvar:
                return (1, 0, 0)
            k = e.get('k')
            if k == 'ParenExpr':
                return lin(e['c'][0], loopvar)
            if k == 'IntegerLiteral':
                return (0, 0, int(e.get('v', e.get('value', 0))))
            if k == 'DeclRefExpr':
                if e.get('n') in env:
                    return (0,) + env[e['n']]
                return None
            if ir.is_call(e) and ir.call_name(e) == 'get_number_of_columns':
                return (0, 1, 0)
            if k == 'BinaryOperator' and e.get('op') in ('+', '-'):
                a, b = lin(e['c'][0], loopvar), lin(e['c'][1], loopvar)
                if a is None or b is None:
                    return None
                sg = 1 if e['op'] == '+' else -1
                return tuple(x + sg * y for x, y in zip(a, b))
            return None

        def norm(cond):
            return ir.show(cond).replace(' ', '').replace('Master_matrix::Option_list::', '').strip('()')

        def walk(st):
            if st is None:
                return
            k = st.get('k')
            if k == 'CompoundStmt':
                for c in st.get('c') or []:
                    walk(c)
                return
            if k == 'IfStmt':
                t = norm(st.get('cond'))
                if t == 'has_row_access&&!has_intrusive_rows':
                    walk(st.get('then'))              # the configuration under study takes this arm
                elif t == 'has_map_column_container':
                    walk(st.get('then') if map_cfg else st.get('else'))
                elif t == '!has_map_column_container':
                    walk(st.get('else') if map_cfg else st.get('then'))
                elif 'has_intrusive_rows' in t or 'has_map_column_container' in t:
                    raise AnalysisBroken('C09: unrecognised option test in _orderRows: %s' % ir.show(st.get('cond')))
                else:
                    walk(st.get('then'))
                    walk(st.get('else'))
                return
            if k == 'DeclStmt':
                for d in st.get('decls', []):
                    if isinstance(d, dict) and d.get('k') == 'VarDecl' and d.get('init') is not None:
                        v = lin(d['init'], None)
                        if v is not None and v[0] == 0:
                            env[d['n']] = (v[1], v[2])
                return
            if k == 'BinaryOperator' and st.get('op') == '=':
                l = ir.skipcasts(st['c'][0])
                if l is not None and l.get('k') == 'DeclRefExpr' and l.get('n') in env:
                    v = lin(st['c'][1], None)
                    if v is None or v[0] != 0:
                        env.pop(l['n'])
                    else:
                        env[l['n']] = (v[1], v[2])
                return
            if k in ('ForStmt', 'CXXForRangeStmt'):
                if k == 'ForStmt':
                    if map_cfg and ir.contains(st.get('body'), lambda z: ir.is_call(z) and ir.call_name(z) == 'reorder'):
                        counting.append(st)
                    var = None
                    init = st.get('init')
                    if init is not None and init.get('k') == 'DeclStmt' and init.get('decls'):
                        var = init['decls'][0].get('n')
                    head = ir.show(st.get('cond'))
                else:
                    if not ir.show(st.get('range')).endswith('matrix_'):
                        if ir.contains(st.get('body'), lambda z: ir.is_call(z) and ir.call_name(z) == 'reorder'):
                            raise AnalysisBroken('C09: _orderRows reorders in a loop over %s' % ir.show(st.get('range')))
                        return
                    var = (st.get('var') or {}).get('n') + '.first'      # the key of the stored column
                    head = 'for each stored column'
                    # `if (key >= x) x = key + 1`: x is raised above every key of the container
                    for y in ir.walk(st.get('body')):
                        if y.get('k') == 'IfStmt':
                            m = re.match(r'%s>=(\w+)$' % re.escape(var), norm(y.get('cond')))
                            if m and ir.contains(y.get('then'), lambda z: z.get('k') == 'BinaryOperator' and
                                                 z.get('op') == '=' and ir.show(z).replace(' ', '').replace(
                                                     '(', '').replace(')', '') == '%s=%s+1' % (m.group(1), var)):
                                above.add(m.group(1))
                for x in ir.walk(st.get('body')):
                    if ir.is_call(x) and ir.call_name(x) == 'reorder' and len(ir.call_args(x)) == 2:
                        shift = {y.get('n') for y in ir.walk(ir.call_args(x)[1]) if y.get('k') == 'DeclRefExpr'
                                 and y.get('n') in env}
                        passes.append((x, lin(ir.call_args(x)[1], var), head, shift))
                return
            for x in ir.walk(st):
                if ir.is_call(x) and ir.call_name(x) == 'reorder':
                    raise AnalysisBroken('C09: reorder called outside a loop over the columns in _orderRows')
        walk(f['body'])
        if not passes:
            raise AnalysisBroken('C09: no reorder pass found in Base_swap::_orderRows')
        carried = (0, 0)          # the columns carry the keys  c*n + d + K  (K: the keys of the container)
        bad = None
        if counting:
            bad = 'line %s: the columns of a map container are visited by counting 0 .. n-1 (`%s`): after ' \
                  'remove_column or insert_column(column, index) the keys are not contiguous - at() throws for a ' \
                  'missing key and the keys >= n are never reordered' % (counting[0].get('l'),
                                                                          ir.show(counting[0].get('cond'))[:40])
            return bad, len(passes)
        for call, v, cond, shift in passes:
            if v is None or v[0] != 1:
                bad = 'line %s: the index handed to reorder (%s) is not of the form key + c*n' % (
                    call.get('l'), ir.show(ir.call_args(call)[1]))
                break
            new = (v[1], v[2])
            if new[1] != 0 or carried[1] != 0:
                bad = 'line %s: pass with a constant shift, ranges not comparable' % call.get('l')
                break
            if new[0] == carried[0]:
                bad = 'line %s: the pass hands out the keys %s*n + K while the columns not yet re-registered ' \
                      'still carry keys of the same range: in a row that two swapped columns share, the copy ' \
                      'inserted for the first collides with the stale copy of the second and is dropped' % (
                          call.get('l'), new[0])
                break
            if map_cfg and new[0] != 0 and not (shift and shift <= above):
                bad = 'line %s: with the map column container the keys are not 0..n-1: the shift %s is not raised ' \
                      'above every key, a parked column can land on the key of another column' % (
                          call.get('l'), sorted(shift) or '?')
                break
            carried = new
        if bad is None and carried != (0, 0):
            bad = 'the last pass leaves the columns under the keys %d*n + K, not under their slot indices' % carried[0]
        return bad, len(passes)
    for map_cfg in (False, True):
        bad, np_ = analyse(map_cfg)
        chk.ob('E9-reregistration', 'Base_swap::_orderRows (%s column container) re-registers the columns in set rows in '
               'passes whose keys never meet the keys still carried (%d passes)' % ('map' if map_cfg else 'vector', np_),
               '%s:%d' % (rel(f['file']), f['line']), bad is None, bad or '',
               key='E9|Base_swap::_orderRows|reregistration' + ('|map' if map_cfg else ''))


def run_base_swaps_protocol(chk, F):
    """The lazy row swaps of Base_matrix (E2-swap-protocol), four clauses read off Base_matrix.h / base_swap.h:
    (rows-registered) a function that hands a container of the caller to `_container_insert` walks that container and
    calls `_register_row` for its rows - the dictionaries of the lazy swaps know every row that holds an entry;
    (range-flushed) the arm of add_to / multiply_*_and_add_to that receives an entry range applies the pending swaps
    (`_orderRowsIfNecessary`) and registers the rows of the range before the column operation (the helper they share is
    read as part of them);
    (counted-after) a function that calls `_insert` - which first applies the pending swaps to the columns counted so
    far - changes `nextInsertIndex_` only after that call, never in its arguments;
    (iterator-fresh) in Base_swap::swap_rows no iterator of a dictionary is used after an insertion into that
    dictionary on the same path (an unordered_map insertion can rehash)."""
    fns = [f for f in F.functions if f.get('clsname') == 'Base_matrix' and f.get('inst') in (0, 2) and
           f.get('body') is not None]
    by = {}
    for f in fns:
        by.setdefault(f['name'], []).append(f)
    # ---- rows-registered
    n = 0
    for f in fns:
        tparams = set(f.get('tparams') or [])
        for x in ir.walk(f['body']):
            if not (ir.is_call(x) and ir.call_name(x) == '_container_insert' and len(ir.call_args(x)) == 3):
                continue
            a0 = ir.skipcasts(ir.call_args(x)[0])
            src = ir.show(a0)
            n += 1
            ok = False
            for lp in ir.walk(f['body']):
                if lp.get('k') == 'CXXForRangeStmt' and ir.show(lp.get('range')) == src and \
                        (lp.get('l') or 0) <= (x.get('l') or 0) and \
                        ir.contains(lp.get('body'), lambda y: ir.is_call(y) and ir.call_name(y) == '_register_row'):
                    ok = True
            chk.ob('E2-swap-protocol', 'Base_matrix::%s registers the rows of `%s` with the lazy swaps before storing '
                   'the column' % (f['name'].split('<')[0], src), '%s:%s' % (rel(f['file']), x.get('l')), ok,
                   '' if ok else 'the column is stored without its rows being made known to indexToRow_ / rowToIndex_: '
                   'is_zero_entry answers "zero" for them (map dictionary) and the next reorder throws out_of_range',
                   key='E2|Base_matrix::%s|rows-registered' % f['name'].split('<')[0])
    chk.expect_count('E2-swap-protocol', 'insertions of a caller\'s container', n, 2)
    # ---- range-flushed
    helpers = {h['name']: h for h in fns if h['name'].startswith('_')}
    m = 0
    for name in ('add_to', 'multiply_target_and_add_to', 'multiply_source_and_add_to'):
        for f in by.get(name, []):
            m += 1

            def range_arm_calls(fn, depth=0):
                """names of the calls in the statements executed when the source is not a column index"""
                out = []

                def walk(st):
                    if st is None:
                        return
                    if st.get('k') == 'IfStmt' and st.get('constexpr') and 'is_integral_v' in ir.show(st.get('cond')):
                        neg = ir.show(st.get('cond')).replace(' ', '').lstrip('(').startswith('!')
                        walk(st.get('then') if neg else st.get('else'))
                        return
                    if ir.is_call(st):
                        out.append(ir.call_name(st))
                        if depth < 2 and ir.call_name(st) in helpers and ir.call_name(st) != fn['name']:
                            out.extend(range_arm_calls(helpers[ir.call_name(st)], depth + 1))
                    for c in ir.kids(st):
                        walk(c)
                walk(fn['body'])
                return out
            calls = range_arm_calls(f)
            ops = [i for i, c in enumerate(calls) if c in ALIAS_OPS or c in ('operator+=',)]
            first_op = min(ops) if ops else len(calls)
            before = calls[:first_op]
            ok = '_orderRowsIfNecessary' in before and '_register_row' in before
            chk.ob('E2-swap-protocol', 'Base_matrix::%s: an entry range meets columns whose pending row swaps were '
                   'applied, and its rows are registered' % name, '%s:%d' % (rel(f['file']), f['line']), ok,
                   '' if ok else 'before the column operation the range arm calls %s: %s' % (
                       before[:8], 'the rows of the range are those the user sees, the stored columns still have the '
                       'rows of before the swap' if '_orderRowsIfNecessary' not in before else
                       'the rows the range creates stay unknown to the lazy swaps'),
                   key='E2|Base_matrix::%s|range-flushed' % name)
    chk.expect_count('E2-swap-protocol', 'operations receiving an entry range', m, 3)
    # ---- counted-after
    k = 0
    for f in fns:
        ins = [x for x in ir.walk(f['body']) if ir.is_call(x) and ir.call_name(x) == '_insert']
        if not ins:
            continue
        k += 1
        bad = None
        for x in ir.walk(f['body']):
            w = None
            if x.get('k') == 'UnaryOperator' and x.get('op') in ('++', '--') and \
                    (ir.skipcasts(x['c'][0]) or {}).get('n') == 'nextInsertIndex_':
                w = x
            if x.get('k') == 'BinaryOperator' and x.get('op') in ('=', '+=') and \
                    (ir.skipcasts(x['c'][0]) or {}).get('n') == 'nextInsertIndex_':
                w = x
            if w is None:
                continue
            inside = any(ir.contains(c, lambda y: y is w) for c in ins)
            if inside or (w.get('l') or 0) < min(c.get('l') or 0 for c in ins):
                bad = w
        chk.ob('E2-swap-protocol', 'Base_matrix::%s counts the new column after `_insert` has applied the pending '
               'swaps' % f['name'].split('<')[0], '%s:%d' % (rel(f['file']), f['line']), bad is None,
               '' if bad is None else 'line %s: `%s` runs before / inside the call of _insert: _orderRows() then visits '
               'the column that is not stored yet (out_of_range)' % (bad.get('l'), ir.show(bad)[:40]),
               key='E2|Base_matrix::%s|counted-after' % f['name'].split('<')[0])
    chk.expect_count('E2-swap-protocol', 'functions calling _insert', k, 3)
    # ---- iterator-fresh
    fs = [f for f in F.functions if f.get('clsname') == 'Base_swap' and f['name'] == 'swap_rows' and
          f.get('inst') in (0, 2) and f.get('body') is not None]
    if len(fs) != 1:
        raise AnalysisBroken('C09: Base_swap::swap_rows not found')
    f = fs[0]
    its = {}
    for x in ir.walk(f['body']):
        if x.get('k') == 'VarDecl' and x.get('init') is not None:
            i = ir.skipcasts(x['init'])
            if i is not None and ir.is_call(i) and ir.call_name(i) == 'find' and ir.call_receiver(i) is not None:
                its[x['n']] = ir.show(ir.call_receiver(i))
    if not its:
        raise AnalysisBroken('C09: swap_rows no longer looks its rows up with find')

    def cl(x):
        ev = []
        if ir.is_call(x) and ir.call_name(x) in ('emplace', 'insert', 'try_emplace', 'operator[]') and \
                ir.call_receiver(x) is not None and ir.show(ir.call_receiver(x)) in its.values():
            ev.append('GROW')
        if x.get('k') == 'DeclRefExpr' and x.get('n') in its:
            ev.append('USE')
        return ev
    ps = paths.enumerate_paths(f, cl, loop_mode='01', keep_conds=False, cap=20000)
    bad = None
    for p_ in ps:
        grown = None
        for tag, node in p_.events:
            if tag == 'GROW':
                # the arguments of the insertion itself are evaluated before it
                grown = (ir.show(ir.call_receiver(node)), node)
            elif tag == 'USE' and grown is not None and its[node['n']] == grown[0] and \
                    not ir.contains(grown[1], lambda y: y is node) and bad is None:
                bad = (node, grown[1])
    chk.ob('E2-swap-protocol', 'Base_swap::swap_rows uses no iterator of a dictionary after an insertion into it '
           '(%d iterators, %d paths)' % (len(its), len(ps)), '%s:%d' % (rel(f['file']), f['line']), bad is None,
           '' if bad is None else 'line %s: `%s` is used after `%s` (line %s): the insertion can rehash the '
           'unordered_map and invalidate it' % (bad[0].get('l'), bad[0].get('n'), ir.show(bad[1])[:50], bad[1].get('l')),
           key='E2|Base_swap::swap_rows|iterator-fresh')


def run_heap_order(chk, F):
    """E9-heap-order: every reader of Heap_column takes column_ for a max-heap (front() is the pivot). A function that
    fills column_ slot by slot from a range of the caller (`column_[i] = ...` in a loop over a parameter of template
    type) makes it a heap (std::make_heap) before it returns: "the given entry range ... does not need to be somehow
    ordered"."""
    n = 0
    for f in F.functions:
        if f.get('clsname') != 'Heap_column' or f.get('inst') not in (0, 2) or f.get('body') is None:
            continue
        tps = {q['n'] for q in f.get('params', [])
               if (q.get('t') or '').replace('const ', '').replace('&', '').strip() in (f.get('tparams') or [])}
        if not tps:
            continue
        loops = [lp for lp in ir.walk(f['body']) if lp.get('k') == 'CXXForRangeStmt' and
                 ir.show(lp.get('range')) in tps and
                 ir.contains(lp.get('body'), lambda y: ir.write_target(y) is not None and y.get('op') == '=' and
                             ir.show(ir.write_target(y)).startswith('column_['))]
        if not loops:
            continue
        fills = [y for lp in loops for y in ir.walk(lp.get('body')) if ir.write_target(y) is not None and
                 y.get('op') == '=' and ir.show(ir.write_target(y)).startswith('column_[')]

        def cl(x, fills=fills):
            if any(x is y for y in fills):
                return ['FILL']
            if ir.is_call(x) and ir.call_name(x) in ('make_heap', 'sort'):
                return ['HEAP']
            return []
        ps = paths.enumerate_paths(f, cl, loop_mode='01', keep_conds=True, cap=40000)
        ps = [p_ for p_ in ps if paths.consistent_constexpr(p_)]
        n += len(loops)
        bad = None
        for p_ in ps:
            t = p_.tags()
            if 'FILL' in t and 'HEAP' not in t[len(t) - 1 - t[::-1].index('FILL'):] and bad is None:
                bad = [e for e in p_.events if e[0] == 'FILL'][-1][1]
        chk.ob('E9-heap-order', 'Heap_column::%s makes column_ a heap after filling it from a range of the caller '
               '(%d loops)' % (f['name'].split('<')[0], len(loops)), '%s:%d' % (rel(f['file']), f['line']), bad is None,
               '' if bad is None else 'line %s: column_ is filled in the order of the range and a path returns without '
               'make_heap: front() is not the pivot, get_content() is cut at the first entry and equal rows do not '
               'cancel' % bad.get('l'), key='E9|Heap_column::%s|heap-order|%s' % (f['name'].split('<')[0], f['line']))
    chk.expect_count('E9-heap-order', 'slot-by-slot fills from a caller range in Heap_column', n, 6)
    # entries popped in decreasing order and stored again form a heap (a descending array is one) - unless their rows
    # were renamed in between: a path that calls set_row_index on stored entries re-heapifies afterwards
    r = 0
    for f in F.functions:
        if f.get('clsname') != 'Heap_column' or f.get('inst') not in (0, 2) or f.get('body') is None:
            continue

        def cl(x):
            if ir.is_call(x) and ir.call_name(x) == 'set_row_index':
                return ['RENAME']
            if ir.is_call(x) and ir.call_name(x) in ('make_heap', 'sort', 'push_heap'):
                return ['HEAP']
            return []
        if not ir.contains(f['body'], lambda y: 'RENAME' in cl(y)):
            continue
        r += 1
        ps = [p_ for p_ in paths.enumerate_paths(f, cl, loop_mode='01', keep_conds=True, cap=40000)
              if paths.consistent_constexpr(p_)]
        bad = None
        for p_ in ps:
            t = p_.tags()
            if 'RENAME' in t and 'HEAP' not in t[len(t) - 1 - t[::-1].index('RENAME'):] and bad is None:
                bad = [e for e in p_.events if e[0] == 'RENAME'][-1][1]
        chk.ob('E9-heap-order', 'Heap_column::%s makes column_ a heap again after renaming the rows of its entries'
               % f['name'].split('<')[0], '%s:%d' % (rel(f['file']), f['line']), bad is None,
               '' if bad is None else 'line %s: the rows are renamed through a map that need not be monotone and a path '
               'returns without make_heap: the stored order is the one of the old rows' % bad.get('l'),
               key='E9|Heap_column::%s|heap-order|renamed' % f['name'].split('<')[0])
    chk.expect_count('E9-heap-order', 'functions of Heap_column renaming rows', r, 1)


def run_indexed_insert_counter(chk, F):
    """E3-counter-covers: after `insert_column(column, columnIndex)` the number of columns exceeds columnIndex. The
    function raises `nextInsertIndex_` to `columnIndex + 1` under a comparison of the two: evaluated on the three
    orderings (index below, equal to, above the counter), the counter afterwards is above the index in each."""
    fs = [f for f in F.functions if f.get('clsname') == 'Base_matrix' and f['name'] == 'insert_column' and
          f.get('inst') in (0, 2) and f.get('body') is not None and len(f.get('params', [])) == 2]
    if not fs:
        raise AnalysisBroken('C09: Base_matrix::insert_column(column, index) not found')
    f = fs[0]
    idx = f['params'][1]['n']
    ifs = [x for x in ir.walk(f['body']) if x.get('k') == 'IfStmt' and
           ir.contains(x.get('then'), lambda y: ir.write_target(y) is not None and
                       ir.show(ir.write_target(y)).replace('this->', '') == 'nextInsertIndex_')]
    if len(ifs) != 1:
        raise AnalysisBroken('C09: the counter update of insert_column(column, index) was not found')
    c = ir.skipcasts(ifs[0].get('cond'))
    while c is not None and c.get('k') == 'ParenExpr':
        c = ir.skipcasts(c['c'][0])
    t = [ir.show(ir.skipcasts(y)).replace('this->', '') for y in (c.get('c') or [])] if c is not None else []
    import operator
    ops = {'<': operator.lt, '<=': operator.le, '>': operator.gt, '>=': operator.ge, '==': operator.eq,
           '!=': operator.ne}
    bad = None
    if c is None or c.get('op') not in ops or sorted(t) != sorted([idx, 'nextInsertIndex_']):
        bad = 'condition `%s` not understood' % ir.show(ifs[0].get('cond'))
    else:
        for i, n0 in ((1, 3), (3, 3), (5, 3)):
            env = {idx: i, 'nextInsertIndex_': n0}
            taken = ops[c['op']](env[t[0]], env[t[1]])
            n1 = i + 1 if taken else n0
            if not n1 > i:
                bad = 'with %s == %d and %d columns the counter stays %d: the inserted column is not counted, the ' \
                      'next appended column overwrites it (or is dropped by the map container)' % (idx, i, n0, n1)
    chk.ob('E3-counter-covers', 'Base_matrix::insert_column(column, index) leaves the column counter above the index '
           'on the three orderings of index and counter', '%s:%s' % (rel(f['file']), ifs[0].get('l')), bad is None,
           bad or '', key='E3|Base_matrix::insert_column|counter-covers')


def run_scale_reduced(chk, F):
    """E10-scale-reduced: `column *= v` takes an arbitrary unsigned v: the shortcuts "times 0: clear" and "times 1:
    nothing to do" are decided on the value reduced by the field (`get_value(v)`), in every column class - a test on the
    raw parameter misses the multiples of the characteristic (entries of value 0 are kept) and v = p + 1."""
    n = 0
    for f in F.functions:
        if (f.get('clsname') or '') not in COLUMNS or f['name'] != 'operator*=' or f.get('inst') not in (0, 2) or \
                f.get('body') is None or len(f.get('params', [])) != 1:
            continue
        v = f['params'][0]['n']
        par = ir.parents(f['body'])
        raw = []
        for x in ir.walk(f['body']):
            if x.get('k') not in ('BinaryOperator', 'CXXOperatorCallExpr') or x.get('op') not in ('==', '!='):
                continue
            sides = [ir.skipcasts(y) for y in (x.get('c') or [])[-2:]]
            if not any(sd is not None and sd.get('k') == 'DeclRefExpr' and sd.get('n') == v for sd in sides):
                continue
            # inside the Z_2 arm the parity of the raw value is what matters
            cur, z2 = x, False
            while id(cur) in par:
                up = par[id(cur)]
                if up.get('k') == 'IfStmt' and up.get('constexpr') and 'is_z2' in ir.show(up.get('cond')) and \
                        (cur is up.get('then') or ir.contains(up.get('then'), lambda y: y is x)):
                    z2 = True
                cur = up
            if not z2:
                raw.append(x)
        n += 1
        chk.ob('E10-scale-reduced', '%s::operator*= decides its shortcuts on the reduced coefficient' % f['clsname'],
               '%s:%d' % (rel(f['file']), f['line']), not raw,
               '' if not raw else 'line %s: `%s` tests the raw parameter: for a multiple of the characteristic the '
               'column is not cleared, its entries are kept with value 0' % (raw[0].get('l'), ir.show(raw[0])[:40]),
               key='E10|%s::operator*=|scale-reduced' % f['clsname'])
    chk.expect_count('E10-scale-reduced', 'operator*= implementations', n, 8)


def run_inverse_erase(chk, F):
    """E2-swap-dictionaries (erase clause): indexToRow_ maps a public row index to the stored row, rowToIndex_ is its
    inverse. Where a function looks a row up in one of them and erases the pair, the key it erases from the *other*
    dictionary is the value it read (`it->second`), never the key it searched with: the two only agree while no swap is
    pending, otherwise the entry of another, non-empty row goes and the next reorder throws out_of_range.
    E7-paired-operands: the comparison operators of the column classes walk two columns with two iterators and fill two
    scratch containers: a statement that fills `entriesN` reads `itN` only (the coefficient of the other column makes
    two Z_p columns with one support compare as equal: the compressed matrix merges them)."""
    n = 0
    for f in F.functions:
        if f.get('clsname') not in ('Base_matrix', 'Boundary_matrix') or f['name'] != 'erase_empty_row' or \
                f.get('inst') not in (0, 2) or f.get('body') is None:
            continue
        its = {}
        for x in ir.walk(f['body']):
            if x.get('k') == 'VarDecl' and x.get('init') is not None:
                i = ir.skipcasts(x['init'])
                if i is not None and ir.is_call(i) and ir.call_name(i) == 'find' and ir.call_receiver(i) is not None:
                    its[x['n']] = (ir.show(ir.call_receiver(i)).split('::')[-1], ir.show(ir.call_args(i)[0]))
        for x in ir.walk(f['body']):
            if not (ir.is_call(x) and ir.call_name(x) == 'erase' and ir.call_receiver(x) is not None):
                continue
            recv = ir.show(ir.call_receiver(x)).split('::')[-1]
            if recv not in ('indexToRow_', 'rowToIndex_') or not ir.call_args(x):
                continue
            a = ir.show(ir.call_args(x)[0]).replace(' ', '')
            other = [(nm, d) for nm, d in its.items() if d[0] != recv and d[0] in ('indexToRow_', 'rowToIndex_')]
            if not other:
                continue
            n += 1
            vals = set()
            for nm, _ in other:
                vals |= {nm + '->second', '(*%s).second' % nm}
            for y in ir.walk(f['body']):      # locals that received that value
                t_ = ir.write_target(y)
                if t_ is not None and y.get('op') == '=' and ir.show(y['c'][1]).replace(' ', '') in vals:
                    vals.add(ir.show(t_))
                if y.get('k') == 'VarDecl' and y.get('init') is not None and \
                        ir.show(y['init']).replace(' ', '') in vals:
                    vals.add(y['n'])
            ok = a in vals
            chk.ob('E2-swap-dictionaries', '%s::erase_empty_row erases from %s the value it read in the inverse '
                   'dictionary' % (f['clsname'], recv), '%s:%s' % (rel(f['file']), x.get('l')), ok,
                   '' if ok else '`%s` is keyed with `%s`, the key the *other* dictionary was searched with: with a swap '
                   'pending the pair of another row is broken' % (ir.show(x)[:50], a),
                   key='E2|%s::erase_empty_row|inverse-erase' % f['clsname'])
    chk.expect_count('E2-swap-dictionaries', 'inverse erases in erase_empty_row', n, 1)
    m = 0
    for f in F.functions:
        if f.get('inst') not in (0, 2) or f.get('body') is None or '/columns/' not in f['file'] or \
                f['name'] not in ('operator<', 'operator=='):
            continue
        for x in ir.walk(f['body']):
            if not (ir.is_call(x) and ir.call_receiver(x) is not None):
                continue
            r = re.match(r'(\w*?)(\d)$', ir.show(ir.call_receiver(x)))
            if not r or ir.call_name(x) not in ('emplace', 'insert', 'push_back', 'emplace_back', 'try_emplace'):
                continue
            used = set(re.findall(r'\bit(\d)\b', ' '.join(ir.show(a) for a in ir.call_args(x))))
            if not used:
                continue
            m += 1
            ok = used == {r.group(2)}
            chk.ob('E7-paired-operands', '%s::%s fills `%s` from its own iterator' % (f.get('clsname') or '-', f['name'],
                   ir.show(ir.call_receiver(x))), '%s:%s' % (rel(f['file']), x.get('l')), ok,
                   '' if ok else '`%s` mixes the two columns (iterators %s)' % (ir.show(x)[:70], sorted(used)),
                   key='E7|%s::%s|paired-operands' % (f.get('clsname') or '-', f['name']))
    chk.expect_count('E7-paired-operands', 'scratch fills in column comparisons', m, 2)


def run_order_before_count(chk, F):
    """E2-order-counted: _orderRows() applies the pending lazy swaps to the columns 0 .. get_number_of_columns() - 1,
    and with the vector container that number is the insertion counter. On every path of a remove_last of the base /
    boundary matrices no call of _orderRows / _orderRowsIfNecessary runs after the counter was decremented: the column
    being removed would be skipped, keep the index of the column it was swapped with and take that column's row entries
    with it when it is destroyed."""
    n = 0
    for f in F.functions:
        if f.get('clsname') not in ('Base_matrix', 'Boundary_matrix') or f['name'] != 'remove_last' or \
                f.get('inst') not in (0, 2) or f.get('body') is None:
            continue

        def cl(x):
            if x.get('k') == 'UnaryOperator' and x.get('op') == '--' and \
                    (ir.skipcasts(x['c'][0]) or {}).get('n') == 'nextInsertIndex_':
                return ['DEC']
            if ir.is_call(x) and ir.call_name(x) in ('_orderRows', '_orderRowsIfNecessary', 'get_column', 'get_row'):
                return ['ORDER']
            return []
        ps = paths.enumerate_paths(f, cl, loop_mode='01', keep_conds=False, cap=20000)
        if not any('DEC' in p.tags() for p in ps):
            raise AnalysisBroken('C09: %s::remove_last no longer decrements nextInsertIndex_' % f['clsname'])
        n += 1
        bad = None
        for p in ps:
            t = p.tags()
            if 'DEC' in t and 'ORDER' in t[t.index('DEC'):] and bad is None:
                bad = p
        chk.ob('E2-order-counted', '%s::remove_last applies pending lazy swaps only while the removed column still '
               'counts (%d paths)' % (f['clsname'], len(ps)), '%s:%d' % (rel(f['file']), f['line']), bad is None,
               '' if bad is None else 'a path decrements nextInsertIndex_ and then reorders: _orderRows() loops over '
               'get_number_of_columns() columns and skips the column about to be removed',
               key='E2|%s::remove_last|order-counted' % f['clsname'])
    chk.expect_count('E2-order-counted', 'remove_last implementations with a column counter', n, 2)


def run_unknown_rows(chk, F):
    """E12f-unknown-row: zero_entry / is_zero_entry / erase_empty_row take any row index, also of a row no column has
    an entry in ("zeroing of entries already zero"): every lookup of a function parameter in the dictionaries of the
    lazy row swaps is guarded on the path by a test on that key (find() compared with end(), or a comparison with
    size()), or the function grows the dictionary up to the key first."""
    D = ('indexToRow_', 'rowToIndex_')
    files = ('Base_matrix.h', 'Boundary_matrix.h', 'base_swap.h')
    n = 0
    for f in F.functions:
        if f.get('inst') not in (0, 2) or f.get('body') is None or f['file'].split('/')[-1] not in files:
            continue
        pnames = {p['n'] for p in f.get('params', [])}
        if not pnames:
            continue
        sites = []
        for x in ir.walk(f['body']):
            base = key = None
            if x.get('k') == 'ArraySubscriptExpr':
                base, key = x['c'][0], x['c'][1]
            elif x.get('k') == 'CXXOperatorCallExpr' and x.get('op') == '[]' and len(ir.call_args(x)) == 2:
                base, key = ir.call_args(x)
            elif ir.is_call(x) and ir.call_name(x) == 'at' and ir.call_args(x):
                base, key = ir.call_receiver(x), ir.call_args(x)[0]
            if base is None:
                continue
            b = ir.skipcasts(base)
            kk = ir.skipcasts(key)
            if b is None or b.get('n') not in D or kk is None or kk.get('k') != 'DeclRefExpr' or \
                    kk.get('n') not in pnames:
                continue
            sites.append((x, b['n'], kk['n']))
        if not sites:
            continue

        def cl(x, sites=sites):
            for s in sites:
                if x is s[0]:
                    return ['AT']
            return []
        ps = paths.enumerate_paths(f, cl, loop_mode='01', keep_conds=True, cap=20000)
        grows = {}
        for x in ir.walk(f['body']):
            if x.get('k') == 'ForStmt' and x.get('cond') is not None:
                ct = ir.show(x['cond'])
                for y in ir.walk(x.get('body')):
                    if ir.is_call(y) and ir.call_name(y) == 'push_back':
                        r = ir.skipcasts(ir.call_receiver(y))
                        if r is not None and r.get('n') in D:
                            grows.setdefault(r['n'], []).append(ct)
        owner = f.get('clsname') or '-'
        for node, d, key in sites:
            n += 1
            bad = None
            for p in ps:
                guarded = False
                for ev in p.events:
                    if ev[0] == '?' and not isinstance(ev[1][0], tuple):
                        t = ir.show(ev[1][0])
                        if re.search(r'\b%s\b' % re.escape(key), t) and ('indexToRow_' in t or 'rowToIndex_' in t or
                                                                          '.end()' in t):
                            guarded = True
                    if ev[0] == 'AT' and ev[1] is node and not guarded:
                        bad = p
                        break
                if bad is not None:
                    break
            if bad is not None and any(re.search(r'\b%s\b' % re.escape(key), c) for c in grows.get(d, [])):
                bad = None           # the function first extends the dictionary up to the key
            chk.ob('E12f-unknown-row', '%s::%s looks the parameter `%s` up in %s only after a test on that key' % (
                owner, f['name'], key, d), '%s:%s' % (rel(f['file']), node.get('l')), bad is None,
                '' if bad is None else '`%s` is read on a path with no test that the key is registered: for a row no '
                'column has an entry in, this reads past the vector / throws out of the map' % ir.show(node)[:60],
                key='E12f|%s::%s|%s[%s]' % (owner, f['name'], d, key))
    chk.expect_count('E12f-unknown-row', 'dictionary lookups keyed by a parameter', n, 4)


INPLACE_FIRST = ('multiply_inplace', 'add_inplace', 'subtract_inplace_front', 'multiply_and_add_inplace_front',
                 'add_and_multiply_inplace_front')
INPLACE_LAST = ('multiply_and_add_inplace_back', 'add_and_multiply_inplace_back', 'subtract_inplace_back')


def _entry_of_element(e):
    """text of E when e is `E->get_element()` / `E.get_element()` (an lvalue on the stored coefficient), else None"""
    e = ir.skipcasts(e)
    if e is not None and ir.is_call(e) and ir.call_name(e) == 'get_element' and not ir.call_args(e):
        r = ir.call_receiver(e)
        if r is not None:
            return _norm_entry(ir.show(r))
    return None


def _norm_entry(t):
    t = t.replace(' ', '')
    while t.startswith('(') and t.endswith(')'):
        t = t[1:-1]
    return t


def run_row_copy_sync(chk, F):
    """E2-row-copy: with non intrusive rows a row holds *copies* of the entries, so "each row lists exactly the non-zero
    entries" needs every change of a stored coefficient to be pushed with update_entry. On every path compiled with row
    access of the column classes and of the shared merge helpers, a coefficient changed in place (operators_->*_inplace
    on E->get_element(), E->set_element on an entry already linked) is followed by update_entry(*E), or the entry is
    deleted, before the path ends. A lambda that changes the coefficient of an entry it received as a parameter and
    does not push it leaves the obligation to the function it is handed to: there, the call of the functor parameter
    counts as a change of the entry passed (summaries per callee and parameter position, union over all bindings)."""
    fns = [f for f in F.functions if f['inst'] in (0, 2) and f.get('body') is not None and '/columns/' in f['file']
           and f.get('clsname') != 'Heap_column' and not f['file'].endswith('heap_column.h')]

    def events(x, lparams, summaries, fparams):
        ev = []
        if x.get('k') == 'VarDecl' and x.get('init') is not None:
            i = ir.skipcasts(x['init'])
            if ir.is_call(i) and ir.call_name(i) == 'construct':
                ev.append('NEW:' + x['n'])
            if ir.is_call(i) and ir.call_name(i) == '_insert_entry':
                ev.append('LINKED:' + x['n'])
        if x.get('k') == 'BinaryOperator' and x.get('op') == '=' and len(x.get('c') or []) == 2:
            l, r = ir.skipcasts(x['c'][0]), ir.skipcasts(x['c'][1])
            if l is not None and l.get('k') == 'DeclRefExpr' and ir.is_call(r) and ir.call_name(r) == 'construct':
                ev.append('NEW:' + l['n'])
        if ir.is_call(x):
            nm = ir.call_name(x)
            args = ir.call_args(x)
            rcv = ir.show(ir.call_receiver(x)) if ir.call_receiver(x) is not None else ''
            if 'operators_' in rcv and args:
                tgt = args[0] if nm in INPLACE_FIRST else args[-1] if nm in INPLACE_LAST else None
                if tgt is not None:
                    e = _entry_of_element(tgt)
                    t0 = ir.skipcasts(tgt)
                    if e:
                        ev.append('MUT:' + e)
                    elif t0 is not None and t0.get('k') == 'DeclRefExpr' and t0.get('n') in lparams:
                        ev.append('MUT:' + t0['n'])         # a coefficient received by reference
            ce = ir.callee_expr(x)
            if ce is not None and ce.get('k') == 'DeclRefExpr' and ce.get('n') in fparams:
                for i in summaries.get(ce['n'], ()):
                    if i < len(args):
                        e = _entry_of_element(args[i])
                        ev.append('MUT:' + (e or _norm_entry(ir.show(args[i]))))
            if nm == 'set_element' and ir.call_receiver(x) is not None:
                ev.append('SET:' + _norm_entry(ir.show(ir.call_receiver(x))))
            if nm == 'update_entry' and args:
                t = _norm_entry(ir.show(args[0]))
                ev.append('UPD:' + (t[1:] if t.startswith('*') else t))
                ev.append('UPD:' + t)
            if nm == 'insert_entry' and len(args) == 2:
                t = _norm_entry(ir.show(args[1]))
                ev.append('INS:' + (t[1:] if t.startswith('&') else t))
            if nm in ('_delete_entry', 'destroy'):
                ev.append('DEL')
        return ev

    def pending_of(fn_like, lparams, summaries, fparams, own_lambda_params=()):
        """[(entry text, node)] left pending on some path compiled with row access; also the number of changes seen"""
        skip = set(own_lambda_params)

        def cl(x):
            out = []
            for t in events(x, lparams, summaries, fparams):
                kind, _, e = t.partition(':')
                if kind in ('MUT', 'SET') and e in skip:
                    continue
                out.append(t)
            return out
        if not ir.contains(fn_like['body'], lambda y: any(t.startswith(('MUT:', 'SET:')) for t in cl(y))):
            return [], 0
        try:
            ps = paths.enumerate_paths(fn_like, cl, loop_mode='01', keep_conds=True, cap=60000)
        except paths.TooManyPaths:
            raise AnalysisBroken('C09: too many paths in %s' % fn_like.get('qual', 'a lambda'))
        left, seen = {}, 0
        for p in ps:
            if p.end == 'throw':
                continue
            ra_false = any(cx and ((not pol and _is_ra(c)) or (pol and _is_not_ra(c)))
                           for c, pol, cx in p.conds if not isinstance(c, tuple))
            if ra_false:
                continue
            fresh, pending = set(), {}
            for tag, node in p.events:
                if tag == '?':
                    continue
                kind, _, e = tag.partition(':')
                if kind == 'NEW':
                    fresh.add(e)
                elif kind == 'LINKED':
                    fresh.discard(e)
                elif kind == 'INS':
                    fresh.discard(e)
                    pending.pop(e, None)            # the copy is taken now, with the current value
                elif kind in ('MUT', 'SET'):
                    seen += 1
                    if e not in fresh:
                        pending[e] = node
                elif kind == 'UPD':
                    pending.pop(e, None)
                elif kind == 'DEL':
                    pending.clear()
            for e, nd in pending.items():
                left.setdefault(e, nd)
        return list(left.items()), seen

    # 1. summaries: lambdas handed to a function of the family -> parameters whose coefficient they leave changed
    by_name = {}
    for f in fns:
        by_name.setdefault(f['name'], []).append(f)
    summ = {}           # (class, callee name, parameter name) -> set of lambda parameter positions left pending
    prov = {}           # same key -> where the lambdas leaving something pending are written
    lam_params_in = {}  # id(function) -> names of the parameters of the lambdas it passes on
    for f in fns:
        for x in ir.walk(f['body']):
            if not ir.is_call(x):
                continue
            callee = ir.call_name(x)
            if callee not in by_name:
                continue
            for pos, a in enumerate(ir.call_args(x)):
                la = ir.skipcasts(a)
                if la is None or la.get('k') != 'LambdaExpr':
                    continue
                names = [p.get('n') for p in la.get('params', [])]
                lam_params_in.setdefault(id(f), set()).update(n for n in names if n)
                left, _ = pending_of({'body': la.get('body'), 'inits': []}, set(names), {}, set())
                idxs = {names.index(e) for e, _ in left if e in names}
                for g in by_name[callee]:
                    if g.get('clsname') and g.get('clsname') != f.get('clsname'):
                        continue                     # a member of another column class
                    gp = g.get('params', [])
                    if pos < len(gp):
                        summ.setdefault((g.get('clsname'), callee, gp[pos]['n']), set()).update(idxs)
                        if idxs:
                            prov.setdefault((g.get('clsname'), callee, gp[pos]['n']), set()).add(
                                '%s::%s line %s' % (f.get('clsname') or '-', f['name'], la.get('l')))
    # functor parameters handed on to another function of the family carry their summary with them
    changed = True
    rounds = 0
    while changed and rounds < 10:
        changed = False
        rounds += 1
        for f in fns:
            fpar = [p['n'] for p in f.get('params', [])]
            for x in ir.walk(f['body']):
                if not ir.is_call(x) or ir.call_name(x) not in by_name:
                    continue
                callee = ir.call_name(x)
                for pos, a in enumerate(ir.call_args(x)):
                    a0 = ir.skipcasts(a)
                    if a0 is None or a0.get('k') != 'DeclRefExpr' or a0.get('n') not in fpar:
                        continue
                    mine = summ.get((f.get('clsname'), f['name'], a0['n']), set())
                    if not mine:
                        continue
                    for g in by_name[callee]:
                        if g.get('clsname') and g.get('clsname') != f.get('clsname'):
                            continue
                        gp = g.get('params', [])
                        if pos < len(gp):
                            tgt = summ.setdefault((g.get('clsname'), callee, gp[pos]['n']), set())
                            if not mine <= tgt:
                                tgt |= mine
                                changed = True
                            prov.setdefault((g.get('clsname'), callee, gp[pos]['n']), set()).update(
                                prov.get((f.get('clsname'), f['name'], a0['n']), set()))
    chk.count('lambda bindings summarised', sum(1 for _ in summ))

    # 2. the functions themselves
    n = 0
    for f in fns:
        fparams = {p['n'] for p in f.get('params', [])}
        summaries = {pn: idx for (cl_, cn, pn), idx in summ.items()
                     if cn == f['name'] and cl_ == f.get('clsname') and idx}
        left, seen = pending_of(f, set(), summaries, fparams, lam_params_in.get(id(f), ()))
        if seen == 0:
            continue
        n += 1
        owner = f.get('clsname') or '-'
        bad = left[0] if left else None
        chk.ob('E2-row-copy', '%s::%s pushes every coefficient it changes in place to the copy kept by the row' % (
            owner, f['name']), '%s:%d' % (rel(f['file']), f['line']), bad is None,
            '' if bad is None else 'line %s: the coefficient of `%s` is changed in place (%s) and a path ends without '
            'update_entry on it: with has_intrusive_rows = false the row keeps listing the old value%s' % (
                bad[1].get('l'), bad[0], ir.show(bad[1])[:70], _prov_text(prov, f, bad[1])),
            key='E2|%s::%s|row-copy' % (owner, f['name']))
    chk.expect_count('E2-row-copy', 'functions changing stored coefficients in place', n, 10)


def run_targeted_clear(chk, F):
    """E8-targeted-clear: zero_entry(c, r) removes the entry of row r and nothing else, also when that entry is already
    zero. In clear(rowIndex) of every column class, each deletion (_delete_entry / destroy / erase of a stored entry, a
    row marked erased) happens where the guards in force - conditions of the enclosing ifs and loops, the negated
    condition of a preceding search loop, a find() by the key - establish that the entry exists and that its row equals
    the parameter. Decided by enumerating the abstract states (iterator at end or not) x (row <, ==, > parameter)."""
    n = 0
    for f in F.functions:
        if f.get('clsname') not in COLUMNS or f['name'] != 'clear' or f['inst'] not in (0, 2) or \
                f.get('body') is None or len(f.get('params', [])) != 1:
            continue
        par = f['params'][0]['n']
        par_map = ir.parents(f['body'])
        keyvars = set()        # locals built from the parameter and used as search keys
        finds = {}             # iterator -> True when initialised by find(<key from the parameter>)
        for x in ir.walk(f['body']):
            if x.get('k') == 'VarDecl' and x.get('init') is not None:
                i = ir.skipcasts(x['init'])
                if ir.is_call(i) and ir.call_name(i) == 'construct' and mentions(i, par):
                    keyvars.add(x['n'])
                if ir.is_call(i) and ir.call_name(i) == 'find' and ir.call_args(i) and (
                        mentions(ir.call_args(i)[0], par) or any(mentions(ir.call_args(i)[0], kv) for kv in keyvars)):
                    finds[x['n']] = True

        def var_of(e):
            t = _norm_entry(ir.show(e))
            while t.startswith('*') or t.startswith('&'):
                t = _norm_entry(t[1:])
            return t if re.fullmatch(r'\w+', t) else None

        def atom(c, v):
            """('end', bool) / ('rel', set of allowed relations) / None (does not concern v or the parameter)"""
            c = ir.skipcasts(c)
            if c is None:
                return None
            if c.get('k') == 'ParenExpr':
                return atom(c['c'][0], v)
            if c.get('k') in ('BinaryOperator', 'CXXOperatorCallExpr') and c.get('op') in ('==', '!=', '<', '>', '<=', '>='):
                ab = c['c'] if c['k'] == 'BinaryOperator' else ir.call_args(c)
                if len(ab) != 2:
                    return None
                ta, tb = _norm_entry(ir.show(ab[0])), _norm_entry(ir.show(ab[1]))
                op = c['op']
                for x, y, o in ((ta, tb, op), (tb, ta, {'<': '>', '>': '<', '<=': '>=', '>=': '<='}.get(op, op))):
                    if x == v and (re.search(r'(\.|->)c?r?end\(\)$', y) or y == 'nullptr') and o in ('==', '!='):
                        return ('end', o == '==')
                    if re.sub(r'[()*]', '', x) in (v + '->get_row_index', v + '.get_row_index') and y == par:
                        return ('rel', {'==': {'EQ'}, '!=': {'LT', 'GT'}, '<': {'LT'}, '>': {'GT'}, '<=': {'LT', 'EQ'},
                                        '>=': {'GT', 'EQ'}}[o])
                if v in re.findall(r'\w+', ta + ' ' + tb) or par in re.findall(r'\w+', ta + ' ' + tb):
                    raise AnalysisBroken('C09: %s::clear: unrecognised test on the searched entry: %s' % (
                        f['clsname'], ir.show(c)))
            return None

        def holds(c, v, end, rel):
            """three-valued: True / False / None (unknown, free)"""
            c0 = ir.skipcasts(c)
            if c0 is None:
                return None
            k = c0.get('k')
            if k == 'ParenExpr':
                return holds(c0['c'][0], v, end, rel)
            if k == 'UnaryOperator' and c0.get('op') == '!':
                r = holds(c0['c'][0], v, end, rel)
                return None if r is None else not r
            if k == 'BinaryOperator' and c0.get('op') in ('&&', '||'):
                a, b = holds(c0['c'][0], v, end, rel), holds(c0['c'][1], v, end, rel)
                if c0['op'] == '&&':
                    if a is False or b is False:
                        return False
                    return True if (a is True and b is True) else None
                if a is True or b is True:
                    return True
                return False if (a is False and b is False) else None
            at = atom(c0, v)
            if at is None:
                return None
            if at[0] == 'end':
                return end == at[1]
            if end:
                return None          # the row of end() is not defined: the test is not evaluated in a correct program
            return rel in at[1]
        for x in ir.walk(f['body']):
            v = None
            what = None
            if ir.is_call(x) and ir.call_name(x) in ('_delete_entry', 'destroy', 'erase') and ir.call_args(x):
                v = var_of(ir.call_args(x)[0])
                what = ir.show(x)[:50]
                if v in keyvars or v is None:
                    continue
            elif ir.is_call(x) and ir.call_name(x) == 'insert' and ir.call_receiver(x) is not None and \
                    ir.show(ir.call_receiver(x)) == 'erasedValues_':
                what = ir.show(x)[:50]
            else:
                continue
            # guards in force
            guards = []          # (cond, polarity)
            node, loopvars = x, []
            while id(node) in par_map:
                pnode = par_map[id(node)]
                k = pnode.get('k')
                if k == 'IfStmt':
                    if node is pnode.get('then'):
                        guards.append((pnode.get('cond'), True))
                    elif node is pnode.get('else'):
                        guards.append((pnode.get('cond'), False))
                elif k in ('WhileStmt', 'ForStmt') and node is pnode.get('body'):
                    guards.append((pnode.get('cond'), True))
                elif k == 'CXXForRangeStmt' and node is pnode.get('body'):
                    loopvars.append((pnode.get('var') or {}).get('n'))
                elif k == 'CompoundStmt':
                    for sib in pnode.get('c') or []:
                        if sib is node:
                            break
                        if sib.get('k') == 'WhileStmt' and not ir.contains(
                                sib.get('body'), lambda y: y.get('k') in ('BreakStmt', 'ReturnStmt')):
                            guards.append((sib.get('cond'), False))
                node = pnode
            if v is None:
                # a row marked erased: the entry concerned is the one the enclosing tests talk about
                gt = re.sub(r'[()*]', '', ' '.join(ir.show(c) for c, _ in guards))
                cands = [w for w in loopvars if w] + re.findall(r'(\w+)(?:->|\.)get_row_index', gt)
                v = cands[0] if cands else None
                if v is None:
                    raise AnalysisBroken('C09: %s::clear: no entry identified for %s' % (f['clsname'], what))
            n += 1
            bad = None
            in_range_loop = v in loopvars
            for end in ((False,) if in_range_loop else (False, True)):
                for rel in ('LT', 'EQ', 'GT'):
                    if end and rel != 'EQ':
                        continue                          # one state is enough for "at end"
                    if finds.get(v) and not end and rel != 'EQ':
                        continue                          # find() by the key: found means equal
                    ok = True
                    for c, pol in guards:
                        r = holds(c, v, end, rel)
                        if r is not None and r != pol:
                            ok = False
                            break
                    if ok and (end or rel != 'EQ') and bad is None:
                        bad = 'the deletion is reached with %s' % (
                            'the iterator at end()' if end else 'an entry whose row is %s the parameter' % (
                                'smaller than' if rel == 'LT' else 'greater than'))
            chk.ob('E8-targeted-clear', '%s::clear(%s): `%s` only for the stored entry of that row' % (
                f['clsname'], par, what), '%s:%s' % (rel_(f), x.get('l')), bad is None,
                '' if bad is None else '%s: zeroing an entry that is already zero removes another entry' % bad,
                key='E8|%s::clear|targeted|%s' % (f['clsname'], ir.call_name(x)))
    chk.expect_count('E8-targeted-clear', 'deletions in clear(row)', n, 8)


def _prov_text(prov, f, node):
    ce = ir.callee_expr(node) if ir.is_call(node) else None
    if ce is not None and ce.get('k') == 'DeclRefExpr':
        o = prov.get((f.get('clsname'), f['name'], ce.get('n')))
        if o:
            return ' [the functor `%s` leaves it changed when bound to the lambda of %s]' % (
                ce['n'], ', '.join(sorted(o)[:3]))
    return ''


def rel_(f):
    return rel(f['file'])


def run(tier, replay=None):
    chk = Check('C09', tier,
                'Static decision of structural clauses of the column classes behind "a general matrix behaves as a '
                'dense matrix": the coefficient of multiply_source_and_add reaches every entry created from the '
                'source; every implementation guards a zero coefficient; lazy state stays invisible (erased rows are '
                'rows that are stored; heap pushes are counted); with row access an entry is unlinked before it is '
                'destroyed; a container is not iterated while it holds destroyed entries; the one-sided arms of the '
                'lazy row swap are mirror images. Contents read back for all operation sequences are not decided.',
                'information-flow, sibling-agreement and typestate path rules over the clang AST (E10, E7, E2)')
    F = facts.extract(UNITS)
    run_coefficient_use(chk, F)
    run_zero_guard(chk, F)
    run_lazy_state(chk, F)
    run_row_access(chk, F)
    run_destroyed_iteration(chk, F)
    run_mirror(chk, F)
    run_rep_slots(chk, F)
    run_lazy_discipline(chk, F)
    run_nullness(chk, F)
    run_signatures(chk, F)
    run_aliasing(chk, F)
    run_entry_order(chk, F)
    run_assert_purity(chk, F)
    run_swap_dictionaries(chk, F)
    run_row_exact(chk, F)
    run_row_copy_sync(chk, F)
    run_targeted_clear(chk, F)
    run_reorder_index(chk, F)
    run_reregistration(chk, F)
    run_unknown_rows(chk, F)
    run_order_before_count(chk, F)
    run_base_swaps_protocol(chk, F)
    run_indexed_insert_counter(chk, F)
    run_scale_reduced(chk, F)
    run_inverse_erase(chk, F)
    run_heap_order(chk, F)
    findrule.run(chk, F, ('Base_matrix.h', 'base_swap.h', 'matrix_row_access.h',
                          'Base_matrix_with_column_compression.h'), TABLE.get('find_invariants', {}), 'C09', 3)
    c05.run_row_kinds(chk, F, only=('base_swap.h',), floor=8)
    chk.assumptions += ['clang 14 parser; template patterns', 'tables/c09.json', 'tables/c05.json']
    return chk


def run_rep_slots(chk, F):
    """R8: column-compressed matrix: a column stored in slot repToColumn_[x] has rep_ == x. Every path that puts a
    (non-null) column into a slot - assignment or swap of two slots - sets that column's rep to the slot index."""
    cls = 'Base_matrix_with_column_compression'
    fns = [f for f in F.functions if f.get('clsname') == cls and f['inst'] in (0, 2)]
    if not fns:
        raise AnalysisBroken('C09: %s not found' % cls)
    # callee summary: functions that set the rep of slot <param> on every path that keeps the slot non-null
    setters = {'_insert_column'}
    n = 0
    for f in fns:
        def cl(x):
            t = ir.write_target(x)
            if t is not None and x.get('op') == '=':
                tt = ir.show(t)
                if tt.startswith('repToColumn_[') and tt.endswith(']'):
                    rhs = ir.show(x['c'][-1])
                    return ['NULL:' + tt[13:-1]] if rhs in ('nullptr', '0') else ['SLOT:' + tt[13:-1]]
            if ir.is_call(x):
                n_ = ir.call_name(x)
                if n_ == 'swap':
                    a = [ir.show(y) for y in ir.call_args(x)]
                    if len(a) == 2 and all(s.startswith('repToColumn_[') for s in a):
                        return ['SWAP:%s|%s' % (a[0][13:-1], a[1][13:-1])]
                if n_ == 'set_rep':
                    return ['SETREP:' + ir.show(ir.call_args(x)[0])]
                if n_ in setters and ir.is_this_call(x) and f['name'] not in setters:
                    return ['SETREP:' + ir.show(ir.call_args(x)[0])]
            return []
        if not ir.contains(f['body'], lambda y: any(t.startswith(('SLOT:', 'SWAP:')) for t in cl(y))):
            continue
        n += 1
        ps = paths.enumerate_paths(f, cl, loop_mode='1', keep_conds=True)
        bad = None
        for p in ps:
            if p.end == 'throw':
                continue
            tags = p.tags()
            for i, t in enumerate(tags):
                later = tags[i + 1:]
                if t.startswith('SLOT:'):
                    x = t[5:]
                    if ('SETREP:' + x) not in later and ('NULL:' + x) not in later and bad is None:
                        bad = (t, p)
                elif t.startswith('SWAP:'):
                    a, b = t[5:].split('|')
                    if not any(('SETREP:' + z) in later for z in (a, b)) and bad is None:
                        bad = (t, p)
        chk.ob('E2-rep-slot', '%s::%s sets the representative index of every column it moves into a slot'
               % (cls, f['name']), '%s:%d' % (rel(f['file']), f['line']), bad is None,
               '' if bad is None else 'after %s no set_rep for that slot follows on a path: the column keeps a stale '
               'cached representative, later class merges swap the wrong slots' % bad[0],
               key='E2|%s::%s|rep-slot' % (cls, f['name']))
    chk.expect_count('E2-rep-slot', 'functions filling repToColumn_ slots', n, 4)


def _conjuncts(c):
    c = ir.skipcasts(c)
    while c is not None and c.get('k') == 'ParenExpr':
        c = ir.skipcasts(c['c'][0])
    if c is not None and c.get('k') == 'BinaryOperator' and c.get('op') == '&&':
        return _conjuncts(c['c'][0]) | _conjuncts(c['c'][1])
    return {ir.show(c)} if c is not None else set()


def run_lazy_discipline(chk, F):
    """R3b: Vector_column deletes lazily: every loop that walks column_ must look the current row up in
    erasedValues_ (directly or through a local helper), unless erasedValues_ is known empty on that path or the
    loop only destroys / re-links the raw entries."""
    n = 0
    fns = [f for f in F.functions if f.get('clsname') == 'Vector_column' and f['inst'] in (0, 2)]
    for f in fns:
        helpers = set()      # local lambdas that consult erasedValues_
        for x in ir.walk(f.get('body')):
            if x.get('k') == 'VarDecl' and x.get('init') is not None:
                i = ir.skipcasts(x['init'])
                if i is not None and i.get('k') == 'LambdaExpr' and 'erasedValues_' in _all_text(i):
                    helpers.add(x['n'])

        def consults(node):
            if node is None:
                return False
            t = _all_text(node)
            return 'erasedValues_' in t or any((h + '(') in t for h in helpers)

        def walk_with_guard(node, guarded, out):
            if node is None:
                return
            k = node.get('k')
            if k == 'IfStmt':
                c = ir.show(node.get('cond'))
                g_then = guarded or c in ('erasedValues_.empty()',)
                g_else = guarded or c in ('!erasedValues_.empty()',)
                walk_with_guard(node.get('then'), g_then, out)
                walk_with_guard(node.get('else'), g_else, out)
                return
            if k in ('ForStmt', 'WhileStmt', 'CXXForRangeStmt', 'DoStmt'):
                out.append((node, guarded))
            if k == 'LambdaExpr':
                walk_with_guard(node.get('body'), guarded, out)
                return
            for ch in ir.kids(node):
                walk_with_guard(ch, guarded, out)
        loops = []
        walk_with_guard(f.get('body'), False, loops)
        for lp, guarded in loops:
            head = ir.show(lp.get('range')) if lp.get('k') == 'CXXForRangeStmt' else ir.show(lp.get('cond'))
            over_column = (lp.get('k') == 'CXXForRangeStmt' and head == 'column_') or \
                ('column_.end()' in head and 'column.column_' not in head) or 'column_.rend()' in head
            if not over_column:
                continue
            body_t = _all_text(lp.get('body'))
            raw_only = f['name'] in TABLE.get('vector_raw_loops', {})
            n += 1
            ok = guarded or raw_only or consults(lp.get('body')) or consults(lp.get('cond'))
            chk.ob('E2g-lazy-discipline', 'Vector_column::%s: loop over column_ at line %s honours the lazily erased rows'
                   % (f['name'], lp.get('l')), '%s:%s' % (rel(f['file']), lp.get('l')), ok,
                   '' if ok else 'the loop walks the stored entries without consulting erasedValues_: entries zeroed '
                   'with clear(row) are treated as present', key='E2g|Vector_column::%s|lazy-loop|%d' % (
                       f['name'], sum(1 for l2, _ in loops[:loops.index((lp, guarded))] if True)))
    chk.expect_count('E2g-lazy-discipline', 'loops over column_ in Vector_column', n, 8)

    # the source of an addition can itself be a Vector_column with lazily erased entries (its iterators visit them,
    # its size() does not count them): every loop over a source range of generic type consults the erased rows of
    # the source, directly or through a local helper
    m = 0
    for f in fns:
        src = [p for p in f.get('params', []) if 'Entry_range' in (p.get('t') or '')]
        if not src or f.get('body') is None:
            continue
        sname = src[0]['n']
        key = sname + '.erasedValues_'
        helpers = set()
        for x in ir.walk(f.get('body')):
            if x.get('k') == 'VarDecl' and x.get('init') is not None:
                i = ir.skipcasts(x['init'])
                if i is not None and i.get('k') == 'LambdaExpr' and key in _all_text(i):
                    helpers.add(x['n'])

        def consults_src(node):
            if node is None:
                return False
            t = _all_text(node)
            return key in t or any((h + '(') in t for h in helpers)
        li = 0
        for lp in ir.walk(f['body']):
            if lp.get('k') not in ('ForStmt', 'WhileStmt', 'CXXForRangeStmt', 'DoStmt'):
                continue
            head = ir.show(lp.get('range')) if lp.get('k') == 'CXXForRangeStmt' else ir.show(lp.get('cond'))
            if not ((lp.get('k') == 'CXXForRangeStmt' and head == sname) or (sname + '.end()') in head):
                continue
            m += 1
            ok = consults_src(lp.get('body')) or consults_src(lp.get('cond'))
            chk.ob('E2g-lazy-discipline', 'Vector_column::%s: loop over the source range at line %s skips the rows the '
                   'source erased lazily' % (f['name'], lp.get('l')), '%s:%s' % (rel(f['file']), lp.get('l')), ok,
                   '' if ok else 'the loop visits every stored entry of `%s`; when the source is a Vector_column its '
                   'iterators also visit the entries zeroed with clear(row), which size() does not count: erased '
                   'entries are copied (and written past a container sized with size())' % sname,
                   key='E2g|Vector_column::%s|lazy-source-loop|%d' % (f['name'], li))
            li += 1
    chk.expect_count('E2g-lazy-discipline', 'loops over a generic source range in Vector_column', m, 3)

    # the physically last entry is the last entry of the column only when it was not erased lazily: a read of
    # `column_.back()->get_row_index() / get_element()` is the key of a lookup in erasedValues_, lies in the arm where
    # erasedValues_ is empty, or follows the loop that pops the erased entries off the end
    e = 0
    for f in fns:
        if f.get('body') is None:
            continue
        par = ir.parents(f['body'])
        pops = [lp.get('l') for lp in ir.walk(f['body']) if lp.get('k') in ('WhileStmt', 'ForStmt', 'DoStmt') and
                'erasedValues_' in _all_text(lp.get('cond')) and 'pop_back' in _all_text(lp.get('body'))]
        for x in ir.walk(f['body']):
            if not (ir.is_call(x) and ir.call_name(x) in ('get_row_index', 'get_element')):
                continue
            r = ir.call_receiver(x)
            if r is None or ir.show(r).replace(' ', '') not in ('column_.back()', '(*column_.rbegin())'):
                continue
            e += 1
            ok = False
            cur = x
            while id(cur) in par and not ok:
                up = par[id(cur)]
                if ir.is_call(up) and ir.call_name(up) in ('find', 'count') and ir.call_receiver(up) is not None and \
                        ir.show(ir.call_receiver(up)) == 'erasedValues_':
                    ok = True
                if up.get('k') == 'IfStmt' and 'erasedValues_.empty()' in _conjuncts(up.get('cond')) and \
                        (cur is up.get('then') or ir.contains(up.get('then'), lambda y: y is x)):
                    ok = True
                cur = up
            if not ok and any(l is not None and x.get('l') is not None and l < x.get('l') for l in pops):
                ok = True
            chk.ob('E2g-lazy-discipline', 'Vector_column::%s: the last stored entry is read at line %s as the last entry '
                   'of the column only when it is not erased' % (f['name'], x.get('l')),
                   '%s:%s' % (rel(f['file']), x.get('l')), ok,
                   '' if ok else '`%s` is used although the last stored entry can be one zeroed with clear(row)'
                   % ir.show(x)[:60], key='E2g|Vector_column::%s|lazy-back' % f['name'])
    chk.expect_count('E2g-lazy-discipline', 'reads of the last stored entry in Vector_column', e, 4)

    # erasedValues_ taken over from another column goes with all the stored entries of that column: the same function
    # copies the entries of that column without skipping the erased ones (or moves / swaps the container)
    for f in fns:
        for x in ir.walk(f.get('body')):
            t = ir.write_target(x)
            if t is None or x.get('op') != '=':
                continue
            tt = ir.skipcasts(t)
            if tt is None or tt.get('n') != 'erasedValues_' or tt.get('k') not in ir.MEMBER_KINDS + ('DeclRefExpr',):
                continue
            rhs = ir.show(x['c'][1]) if len(x.get('c') or []) == 2 else ''
            mm = re.match(r'(?:std::move\()?(\w+)\.erasedValues_', rhs)
            if not mm:
                continue
            other = mm.group(1)
            raw = False
            for lp in ir.walk(f['body']):
                if lp.get('k') == 'CXXForRangeStmt' and ir.show(lp.get('range')) in (other, other + '.column_'):
                    bt = _all_text(lp.get('body'))
                    hl = [y['n'] for y in ir.walk(f['body']) if y.get('k') == 'VarDecl' and y.get('init') is not None
                          and (ir.skipcasts(y['init']) or {}).get('k') == 'LambdaExpr' and
                          'erasedValues_' in _all_text(y['init'])]
                    if 'erasedValues_' not in bt and not any((h + '(') in bt for h in hl):
                        raw = True
                if ir.is_call(lp) and ir.call_name(lp) in ('swap', 'move', 'exchange') and \
                        (other + '.column_') in ir.show(lp):
                    raw = True
            chk.ob('E2g-lazy-state', 'Vector_column::%s takes over erasedValues_ of `%s` together with all its stored '
                   'entries' % (f['name'], other), '%s:%s' % (rel(f['file']), x.get('l')), raw,
                   '' if raw else 'erasedValues_ is overwritten with the set of `%s` while the entries of `%s` are not '
                   'all copied: size() = column_.size() - erasedValues_.size() relies on the erased rows being stored'
                   % (other, other), key='E2g|Vector_column::%s|erased-assigned' % f['name'])


def _all_text(n):
    return ' ; '.join(ir.show(x) for x in ir.walk(n) if x.get('k') not in ('CompoundStmt',))


# ------------------------------------------------------------------ R9 nullable pointers (E12)

GENERAL_FILES = ('Base_matrix.h', 'Base_matrix_with_column_compression.h', 'base_swap.h', 'matrix_row_access.h',
                 '/columns/')


def general_matrix_classes(F):
    by = {}
    seen = set()
    for f in F.functions:
        if f.get('inst') not in (0, 2) or f.get('body') is None:
            continue
        c = f.get('cls') or f.get('friendof')
        if not c or not any(g in f['file'] for g in GENERAL_FILES):
            continue
        key = (f['file'], f['line'], f['name'])
        if key in seen:
            continue
        seen.add(key)
        by.setdefault(c, []).append(f)
    return by


def run_nullness(chk, F):
    """R9: pointers the class itself treats as nullable (results of member functions with a `return nullptr` path,
    elements of containers that receive `= nullptr`) are never dereferenced, member-accessed or handed to the pool's
    destroy on a path on which they can be null (gsa/nullness.py: forward dataflow with branch refinement)."""
    from gsa import nullness
    by = general_matrix_classes(F)
    n_cls = n_sinks = 0
    for c, fns in sorted(by.items()):
        res, stats = nullness.analyse_class(fns)
        if not stats['nullable_calls'] and not stats['nullable_fields']:
            continue
        n_cls += 1
        n_sinks += stats['sinks']
        cname = c.split('::')[-1]
        for f, fs, sinks in res:
            where = '%s:%d' % (rel(f['file']), f['line'])
            # a member that cannot be instantiated has no behaviour: Base_matrix_with_column_compression::operator=
            # calls reserve() on a boost::intrusive::set (no such member), so any use fails to compile. The exemption
            # lapses with that call.
            dead = cname == 'Base_matrix_with_column_compression' and f['name'] == 'operator=' and ir.contains(
                f['body'], lambda y: ir.is_call(y) and ir.call_name(y) == 'reserve' and
                'columnToRep_' in ir.show(y))
            if sinks == 0 and not fs:
                continue
            if dead:
                chk.count('R9 members skipped because they cannot be instantiated', 1)
                continue
            if not fs:
                chk.ob('E12-nullness', '%s::%s: %d uses of nullable pointers are dominated by a non-null fact'
                       % (cname, f['name'], sinks), where, True, '', key='E12|%s::%s' % (cname, f['name']))
            for x in fs:
                chk.ob('E12-nullness', '%s::%s: %s of `%s`' % (cname, f['name'], x.kind, x.key),
                       '%s:%s' % (rel(f['file']), x.line), False,
                       '`%s` %s on this path (%s) and is used by %s' % (
                           x.key, 'is null' if x.state == 'N' else 'may be null', 'the class stores nullptr in '
                           'this container' if '[' in x.key else 'the function it comes from has a `return nullptr` '
                           'path', x.text), key='E12|%s::%s|%s|%s' % (cname, f['name'], x.key, x.kind.split(' ')[0]))
    chk.count('R9 classes with nullable pointers', n_cls)
    chk.count('R9 uses of nullable pointers checked', n_sinks)
    chk.expect_count('E12-nullness', 'classes with nullable pointers', n_cls, 2)
    chk.expect_count('E12-nullness', 'uses of nullable pointers', n_sinks, 40)


# ------------------------------------------------------------------ R10 sibling signatures (E7c)

def run_signatures(chk, F):
    """R10: the column containers are interchangeable: every public operation that all of them offer takes the same
    parameter types (the class's own name normalised). A sibling that declares another parameter type converts its
    argument differently (Field_element is bool over Z_2: `column *= 2` became `column *= true`)."""
    import re
    by = {}
    classes = set()
    for f in F.functions:
        cn = f.get('clsname') or ''
        if f.get('inst') not in (0, 2) or cn not in COLUMNS or '/columns/' not in f['file']:
            continue
        if f['name'].startswith('_') or f['name'].startswith('~') or f.get('kind') in (
                'ctor', 'copy_ctor', 'move_ctor', 'default_ctor', 'dtor'):
            continue
        classes.add(cn)
        sig = tuple(re.sub(r'\b%s\b(<[^<>]*>)?' % re.escape(cn), 'SELF', (p_.get('t') or ''))
                    for p_ in f['params'])
        by.setdefault(f['name'], {}).setdefault(cn, set()).add(sig)
    if len(classes) < 8:
        raise AnalysisBroken('C09: only %d column classes found' % len(classes))
    n = 0
    for name, d in sorted(by.items()):
        if len(d) < len(classes):
            continue
        n += 1
        sets = {}
        for cn, sigs in d.items():
            sets.setdefault(frozenset(sigs), []).append(cn)
        ok = len(sets) == 1
        detail = ''
        key = 'E7c|%s' % name
        if not ok:
            major = max(sets.items(), key=lambda kv: len(kv[1]))
            minority = [(cn, sorted(sg)) for sg, cns in sets.items() if sg != major[0] for cn in cns]
            detail = '%s declare(s) %s where the other %d classes declare %s' % (
                ', '.join('%s %s' % (cn, ['(%s)' % ', '.join(x) for x in sg]) for cn, sg in minority),
                name, len(major[1]), ['(%s)' % ', '.join(x) for x in sorted(major[0])])
            key = 'E7c|%s|%s' % (name, '+'.join(sorted(cn for cn, _ in minority)))
        chk.ob('E7c-signatures', 'all %d column classes declare %s with the same parameter types'
               % (len(classes), name), 'src/Persistence_matrix/include/gudhi/Persistence_matrix/columns', ok, detail,
               key=key)
    chk.expect_count('E7c-signatures', 'operations shared by all column classes', n, 15)


# ------------------------------------------------------------------ R11 aliasing of source and target (E2g)

ALIAS_OPS = ('operator+=', 'multiply_target_and_add', 'multiply_source_and_add')


def run_aliasing(chk, F):
    """R11: a column cannot be read while it is modified. In the two base matrices, an addition whose source and
    target are both looked up in the same matrix may receive the same object for both (equal indices; in the
    compressed matrix: two indices of one class). Every such call is (a) in a branch guarded by a decision that
    looks at both the source and the target, or (b) reaches column operations that all test `&column == this`."""
    cols = [f for f in F.functions if f.get('inst') in (0, 2) and (f.get('clsname') or '') in COLUMNS and
            f['name'] in ALIAS_OPS and f.get('body') is not None]

    def self_test(f):
        return ir.contains(f['body'], lambda y: y.get('k') in ('BinaryOperator', 'CXXOperatorCallExpr') and
                           y.get('op') in ('==', '!=') and 'this' in ir.show(y) and '&' in ir.show(y))
    columns_safe = bool(cols) and all(self_test(f) for f in cols)
    n = 0
    for cname in ('Base_matrix', 'Base_matrix_with_column_compression'):
        fns = [f for f in F.functions if f.get('clsname') == cname and f.get('inst') in (0, 2) and
               f.get('body') is not None and f['name'] in ('add_to', 'multiply_target_and_add_to',
                                                            'multiply_source_and_add_to')]
        if len(fns) < 3:
            raise AnalysisBroken('C09: addition functions of %s not found' % cname)
        for f in fns:
            params = [p_['n'] for p_ in f['params']]
            src = [p_ for p_ in params if 'source' in p_.lower()]
            tgt = [p_ for p_ in params if 'target' in p_.lower()]
            if len(src) != 1 or len(tgt) != 1:
                raise AnalysisBroken('C09: source/target parameters of %s::%s not identified' % (cname, f['name']))
            src, tgt = src[0], tgt[0]
            # locals derived from the target index
            derived = {tgt}
            for x in ir.walk(f['body']):
                if x.get('k') == 'VarDecl' and x.get('init') is not None and any(
                        d in [y.get('n') for y in ir.walk(x['init']) if y.get('k') == 'DeclRefExpr'] for d in derived):
                    derived.add(x['n'])
            par = ir.parents(f['body'])
            sites = []
            for x in ir.walk(f['body']):
                if not (ir.is_call(x) or x.get('k') == 'CompoundAssignOperator'):
                    continue
                nm = 'operator+=' if x.get('k') == 'CompoundAssignOperator' and x.get('op') == '+=' else \
                    (ir.call_name(x) if ir.is_call(x) else None)
                if nm not in ALIAS_OPS and not (x.get('k') == 'CXXOperatorCallExpr' and x.get('op') == '+='):
                    continue
                names = [y.get('n') for y in ir.walk(x) if y.get('k') == 'DeclRefExpr']
                # the source operand is itself a lookup by index in this matrix
                lookup = [y for y in ir.walk(x) if ir.is_call(y) and ir.call_name(y) in ('get_column', '_get_column')
                          and any(z.get('n') == src for z in ir.walk(y) if z.get('k') == 'DeclRefExpr')]
                if not lookup or not any(d in names for d in derived):
                    continue
                sites.append(x)
            if not sites:
                raise AnalysisBroken('C09: no column operation with a looked-up source in %s::%s' % (cname, f['name']))
            for x in sites:
                n += 1
                guarded = False
                cur = x
                while id(cur) in par:
                    up = par[id(cur)]
                    if up.get('k') == 'IfStmt' and not up.get('constexpr') and cur is not up.get('cond'):
                        t = [y.get('n') for y in ir.walk(up.get('cond')) if y.get('k') == 'DeclRefExpr']
                        if src in t and any(d in t for d in derived):
                            guarded = True
                    cur = up
                ok = guarded or columns_safe
                chk.ob('E2g-alias', '%s::%s: the column operation at line %s cannot receive one column as source '
                       'and target' % (cname, f['name'], x.get('l')), '%s:%s' % (rel(f['file']), x.get('l')), ok,
                       '' if ok else 'source `%s` and target `%s` are both looked up in this matrix and may designate '
                       'the same column; no decision compares them and the column operations do not test '
                       '`&column == this`: the column is iterated while it is modified' % (src, tgt),
                       key='E2g|%s::%s|alias' % (cname, f['name']))
    chk.expect_count('E2g-alias', 'column operations with a looked-up source', n, 6)
    # a range can be a column of this very matrix: Matrix::get_column returns it as Master_matrix::Column, a base of
    # the column class the compressed matrix stores - the helper that recognises it tests the type with is_base_of
    for cname, hname in (('Base_matrix_with_column_compression', '_is_represented_by'), ('Base_matrix',
                                                                                          '_prepare_operation')):
        hs = [f for f in F.functions if f.get('clsname') == cname and f['name'] == hname and f.get('inst') in (0, 2)
              and f.get('body') is not None]
        if len(hs) != 1:
            if cname == 'Base_matrix':
                continue            # (no shared helper: the clause on looked-up sources above is what applies)
            raise AnalysisBroken('C09: %s::%s not found' % (cname, hname))
        h = hs[0]
        tests = [x for x in ir.walk(h['body']) if x.get('k') == 'IfStmt' and x.get('constexpr') and
                 ('is_same_v' in ir.show(x.get('cond')) or 'is_base_of_v' in ir.show(x.get('cond'))) and
                 ir.contains(x.get('then'), lambda y: y.get('k') in ('BinaryOperator', 'CXXOperatorCallExpr') and
                             y.get('op') == '==' and '&' in ir.show(y))]
        ok = bool(tests) and all('is_base_of_v' in ir.show(t.get('cond')) for t in tests)
        chk.ob('E2g-alias', '%s::%s recognises the target given as a range of the type Matrix::get_column returns'
               % (cname, hname), '%s:%d' % (rel(h['file']), h['line']), ok,
               '' if ok else ('no address comparison under a type test' if not tests else
                              '`%s`: the column handed out by Matrix::get_column is a Master_matrix::Column, not the '
                              'stored column class: the comparison is never compiled in and the column is read while '
                              'it is modified' % ir.show(tests[0].get('cond'))[:70]),
               key='E2g|%s::%s|range-alias' % (cname, hname))


# ------------------------------------------------------------------ R12 order of entries (E9)

ORDER_ALGOS = {'sort': 2, 'stable_sort': 2, 'max_element': 2, 'min_element': 2, 'is_sorted': 2,
               'binary_search': 3, 'lower_bound': 3, 'upper_bound': 3, 'equal_range': 3, 'inplace_merge': 3}


def run_entry_order(chk, F):
    """R12: the vector-like and hashed columns store *pointers* to entries. A column is kept (or searched) in the
    order of the row indices, so every ordering algorithm applied to such a container passes a comparator, and the
    comparator compares the entries, not the pointers: it is the strict order on the row index (evaluated on the
    three relations of the two row indices). Without a comparator the order is the order of the addresses."""
    from gsa import cmprules
    n = 0
    for cn in COLUMNS:
        fns = [f for f in F.functions if f.get('clsname') == cn and f.get('inst') in (0, 2) and
               f.get('body') is not None and '/columns/' in f['file']]
        if not fns:
            continue
        # evidence that column_ holds pointers: its elements are handed to the pool's destroy as they are
        holds_ptrs = any(ir.is_call(x) and ir.call_name(x) == 'destroy' and ir.call_args(x) and
                         not ir.show(ir.call_args(x)[0]).startswith('&')
                         for f in fns for x in ir.walk(f['body']))
        if not holds_ptrs:
            continue
        for f in fns:
            for x in ir.walk(f['body']):
                if not ir.is_call(x) or ir.call_name(x) not in ORDER_ALGOS:
                    continue
                args = ir.call_args(x)
                rng = ir.show(args[0]) if args else ''
                need = ORDER_ALGOS[ir.call_name(x)]
                recv = ir.call_receiver(x)
                if recv is not None and ir.call_name(x) == 'sort' and 'std' not in ir.show(ir.callee_expr(x))[:4]:
                    # member sort of a list: container.sort(comp)
                    rng = ir.show(recv) + '.begin()'
                    need = 0
                elif 'begin' not in rng:
                    continue
                n += 1
                comp = ir.skipcasts(args[need]) if len(args) > need else None
                while comp is not None and comp.get('k') in ('MaterializeTemporaryExpr', 'CXXBindTemporaryExpr',
                                                             'ExprWithCleanups') and comp.get('c'):
                    comp = ir.skipcasts(comp['c'][0])
                where = '%s:%s' % (rel(f['file']), x.get('l'))
                key = 'E9|%s::%s|%s|%s' % (cn, f['name'], ir.call_name(x), rng.split('.')[0])
                if comp is None:
                    chk.ob('E9-entry-order', '%s::%s: std::%s over %s compares entries' % (cn, f['name'],
                                                                                           ir.call_name(x), rng),
                           where, False, 'no comparator is passed: the elements are Entry pointers, so the range is '
                           'ordered by address, not by row index', key=key)
                    continue
                if comp.get('k') != 'LambdaExpr':
                    # a named functor: it must be a comparator type of the class (EntryPointerComp)
                    t = ir.show(comp)
                    ok = 'Comp' in t
                    chk.ob('E9-entry-order', '%s::%s: std::%s over %s uses the entry comparator' %
                           (cn, f['name'], ir.call_name(x), rng), where, ok, '' if ok else 'comparator %s' % t, key=key)
                    continue
                ps = [p_['n'] for p_ in comp.get('params', [])]
                if len(ps) != 2:
                    raise AnalysisBroken('C09: comparator lambda with %d parameters in %s' % (len(ps), f['qual']))
                pseudo = {'qual': '%s::%s comparator (line %s)' % (cn, f['name'], comp.get('l')), 'file': f['file'],
                          'line': comp.get('l') or f['line'], 'body': comp['body'], 'params': comp.get('params', [])}
                cas = cmprules.Cascade(pseudo, None, None)
                keys = cas.keys()
                good_keys = [k_ for k_ in keys if k_ in ('*@', '@->get_row_index()', '(*@).get_row_index()')]
                ok = len(keys) == 1 and len(good_keys) == 1
                detail = ''
                if ok:
                    res = {}
                    for r in ('lt', 'eq', 'gt'):
                        res[r] = cas.run({keys[0]: r})
                    ok = res == {'lt': True, 'eq': False, 'gt': False}
                    detail = '' if ok else 'on (row1 < row2, row1 == row2, row1 > row2) it returns %s' % \
                        [res['lt'], res['eq'], res['gt']]
                else:
                    detail = 'keys compared: %s (expected the dereferenced entries / their row indices)' % keys
                chk.ob('E9-entry-order', '%s::%s: std::%s over %s uses the strict order of the row indices'
                       % (cn, f['name'], ir.call_name(x), rng), where, ok, detail, key=key)
    chk.expect_count('E9-entry-order', 'ordering algorithms over entry-pointer containers', n, 8)


# ------------------------------------------------------------------ R13 assertions do not carry behaviour (E6b)

def run_assert_purity(chk, F, by=None, min_count=8):
    """R13: GUDHI_CHECK / assert vanish in release builds (NDEBUG), so their conditions must not do anything the
    function relies on: no call, on *this or on a member, of a member function that is not const (the analysis parses
    the headers with assertions enabled; the two configurations behave alike only if the condition is pure).
    Found: Vector_column::push_back flushed its lazily erased entries only through get_pivot() inside a GUDHI_CHECK."""
    by = general_matrix_classes(F) if by is None else by
    nonconst = {}
    for c in F.classes:
        if c.get('inst') not in (0, 2):
            continue
        for m in c.get('methods', []):
            if m.get('kind') in ('method',) and not m.get('static'):
                nonconst.setdefault((c['name'], m['n']), []).append(not m.get('const'))
    n = 0
    for cq, fns in sorted(by.items()):
        cname = cq.split('::')[-1]
        for f in fns:
            for x in ir.walk(f['body']):
                if x.get('k') != 'ConditionalOperator' or len(x.get('c') or []) != 3:
                    continue
                arms = x['c'][1:]
                if not any(ir.contains(a, lambda y: y.get('k') == 'CXXThrowExpr' or
                                       (ir.is_call(y) and ir.call_name(y) == '__assert_fail')) for a in arms):
                    continue
                n += 1
                bad = None
                for y in ir.walk(x['c'][0]):
                    if ir.is_call(y) and ir.is_this_call(y) and y.get('k') != 'CXXOperatorCallExpr':
                        flags = nonconst.get((cname, ir.call_name(y)))
                        if flags and all(flags) and bad is None and \
                                '%s::%s' % (cname, ir.call_name(y)) not in TABLE.get('assert_side_effects_ok', {}):
                            bad = y
                    if ir.write_target(y) is not None and bad is None:
                        bad = y
                if bad is not None or True:
                    chk.ob('E6b-assert-pure', '%s::%s line %s: the checked condition has no side effect' %
                           (cname, f['name'], x.get('l')), '%s:%s' % (rel(f['file']), x.get('l')), bad is None,
                           '' if bad is None else '`%s` is not a const member function (or writes): with NDEBUG the '
                           'check and its side effect disappear, the release build behaves differently' %
                           ir.show(bad)[:80], key='E6b|%s::%s|assert|%s' % (cname, f['name'], ir.show(x['c'][0])[:50]))
    chk.expect_count('E6b-assert-pure', 'checked conditions', n, min_count)

"""C03 filtration order and filtration-value maintenance: structural clauses (DESIGN 4/C03)."""
import itertools
import json
import os

import re

from gsa import cmprules, facts, flags, ir, paths, predeval, summary
from gsa.facts import Unit, rel, AnalysisBroken
from gsa.report import Check
from rules import c01

TABLE = json.load(open(os.path.join(facts.VERIF, 'tables', 'c03.json')))
UNITS = [Unit('st_tbb', 'simplex_tree_pat.cpp', ['src/Simplex_tree/'], defines=['-DGUDHI_USE_TBB'], no_inst=True),
         Unit('st_seq', 'simplex_tree_pat.cpp', ['src/Simplex_tree/'], no_inst=True)]
H = 'src/Simplex_tree/include/gudhi/Simplex_tree.h'


def lockstep(chk, fn):
    """reverse_lexicographic_order touches its arguments only through `it != end`, `*it1 == *it2`, `*it1 < *it2`.
    Enumerate the scenarios (common prefix of length d in {0,1,2}; then: both end | 1 ends | 2 ends | lt | gt)
    and require the reverse-lexicographic strict order: true iff (1 ends and 2 does not) or (lt at the first
    difference)."""
    a, b = cmprules.comparator_params(fn)
    body = fn['body']
    # iterator variables and their ranges: `it = rgX.begin()` where `rgX = simplex_vertex_range(shX)`
    rng = {}
    its = {}
    for x in ir.walk(body):
        if x.get('k') == 'VarDecl' and x.get('init') is not None:
            t = ir.show(x['init'])
            if t.endswith('.begin()') and t[:-8] in rng:
                its[x['n']] = rng[t[:-8]]
            else:
                args = [y for y in ir.walk(x['init']) if y.get('k') == 'DeclRefExpr' and y.get('n') in (a, b)]
                if len(args) == 1:
                    rng[x['n']] = 1 if args[0]['n'] == a else 2
    if sorted(its.values()) != [1, 2]:
        raise AnalysisBroken('C03: reverse_lexicographic_order: cannot identify the two vertex iterators (%s)' % its)
    where = '%s:%d' % (rel(fn['file']), fn['line'])
    bad = None
    n = 0
    for d in (0, 1, 2):
        for term in ('both-end', '1-ends', '2-ends', 'lt', 'gt'):
            n += 1
            length = {1: d if term in ('both-end', '1-ends') else d + 2,
                      2: d if term in ('both-end', '2-ends') else d + 2}
            pos = {1: 0, 2: 0}

            def side(e):
                e = ir.skipcasts(e)
                if e is not None and e.get('k') == 'DeclRefExpr' and e.get('n') in its:
                    return its[e['n']]
                return None

            def deref_side(e):
                e = ir.skipcasts(e)
                if e is not None and e.get('k') in ('UnaryOperator', 'CXXOperatorCallExpr') and e.get('op') == '*':
                    c = e.get('c') or []
                    return side(c[-1])
                return None

            def oracle(e, env):
                k = e.get('k')
                if k == 'VarDecl':
                    return ('decl', e.get('n'))
                c = e.get('c') or []
                if k in ('BinaryOperator', 'CXXOperatorCallExpr') and e.get('op') in ('!=', '=='):
                    cc = c[1:] if k == 'CXXOperatorCallExpr' else c
                    s = side(cc[0])
                    if s and ir.show(cc[1]).endswith('.end()'):
                        at_end = pos[s] >= length[s]
                        return at_end if e['op'] == '==' else not at_end
                    s1, s2 = deref_side(cc[0]), deref_side(cc[1])
                    if s1 and s2 and s1 != s2:
                        if pos[1] != pos[2] or pos[1] >= length[1] or pos[2] >= length[2]:
                            raise predeval.Unknown('iterators out of lockstep or dereferenced at the end')
                        eq = pos[1] < d
                        return eq if e['op'] == '==' else not eq
                if k in ('BinaryOperator', 'CXXOperatorCallExpr') and e.get('op') in ('<', '>'):
                    cc = c[1:] if k == 'CXXOperatorCallExpr' else c
                    s1, s2 = deref_side(cc[0]), deref_side(cc[1])
                    if s1 and s2 and s1 != s2:
                        if pos[1] != pos[2] or pos[1] != d or term not in ('lt', 'gt'):
                            raise predeval.Unknown('order comparison away from the first difference')
                        first_lt = (term == 'lt')          # side 1 < side 2
                        r = first_lt if s1 == 1 else not first_lt
                        return r if e['op'] == '<' else not r
                if k in ('UnaryOperator', 'CXXOperatorCallExpr') and e.get('op') == '++':
                    s = side(c[-1] if k == 'UnaryOperator' else c[1])
                    if s:
                        pos[s] += 1
                        return 0
                return None
            try:
                got = predeval.Evaluator(oracle).run(body)
            except predeval.Unknown as ex:
                raise AnalysisBroken('C03: reverse_lexicographic_order has an unknown shape: %s' % ex)
            exp = term in ('1-ends', 'lt')
            if got is not exp and bad is None:
                bad = (d, term, got, exp)
    chk.count('lockstep scenarios enumerated', n)
    chk.ob('E9-lockstep', 'reverse_lexicographic_order is the strict reverse-lexicographic order (all %d scenarios)'
           % n, where, bad is None, '' if bad is None else 'common prefix %d, then %s: returns %s, the order requires '
           '%s' % bad, key='E9|reverse_lexicographic_order|lockstep')


def run_order(chk, F):
    sorts = {}
    for unit in ('st_tbb', 'st_seq'):
        comp = [f for f in F.funcs('operator()', unit=unit)
                if f.get('clsname') == 'is_before_in_totally_ordered_filtration']
        rlo = F.funcs('reverse_lexicographic_order', unit=unit)
        if len(comp) != 1 or len(rlo) != 1:
            raise AnalysisBroken('C03: filtration comparator not found in %s' % unit)
        if unit == 'st_tbb':
            cmprules.check_cascade(chk, 'E9-order', comp[0], ['@->second.filtration()',
                                                               'call:reverse_lexicographic_order'],
                                   'call:reverse_lexicographic_order',
                                   name='is_before_in_totally_ordered_filtration')
            lockstep(chk, rlo[0])
            cmprules.check_pure(chk, 'E6b-pure', comp[0], name='is_before_in_totally_ordered_filtration')
            cmprules.check_pure(chk, 'E6b-pure', rlo[0], name='reverse_lexicographic_order')
        inits = [f for f in F.funcs('initialize_filtration', unit=unit) if len(f['params']) == 2]
        if len(inits) != 1:
            raise AnalysisBroken('C03: initialize_filtration(comparator, ignorer) not found in %s' % unit)
        sc = cmprules.sort_calls(inits[0])
        chk.ob('E7b-sort-arms', 'initialize_filtration (%s) sorts exactly once' % unit,
               '%s:%d' % (H, inits[0]['line']), len(sc) == 1, '%d sort calls' % len(sc),
               key='E7b|simplex_tree|%s|one-sort' % unit)
        if len(sc) == 1:
            sorts[unit] = (ir.call_name(sc[0]), [cmprules.norm_range_arg(ir.show(a)) for a in ir.call_args(sc[0])], sc[0])
            cmprules.check_whole_range(chk, 'E7b-sort-arms', sc[0], '%s:%s' % (H, sc[0].get('l')),
                                       'E7b|simplex_tree|%s|whole-range' % unit, 'initialize_filtration (%s)' % unit)
        # the default overload hands the checked comparator down
        dflt = [f for f in F.funcs('initialize_filtration', unit=unit) if len(f['params']) <= 1]
        uses = any(ir.contains(f['body'], lambda y: 'is_before_in_totally_ordered_filtration' in
                               (y.get('ctorT') or y.get('ctor') or y.get('t') or '')) for f in dflt)
        chk.ob('E7b-sort-arms', 'initialize_filtration() (%s) uses is_before_in_totally_ordered_filtration' % unit,
               H, uses, '' if uses else 'the default filtration order is no longer the checked comparator',
               key='E7b|simplex_tree|%s|default-comparator' % unit)
    if len(sorts) == 2:
        (n1, a1, s1), (n2, a2, s2) = sorts['st_tbb'], sorts['st_seq']
        chk.ob('E7b-sort-arms', 'TBB arm (%s) and sequential arm (%s) sort the same range with the same comparator'
               % (n1, n2), '%s:%s' % (H, s1.get('l')), a1 == a2, 'arguments differ: %s vs %s' % (a1, a2),
               key='E7b|simplex_tree|same-args')


def run_cache(chk, F):
    """every self-invalidating mutator drops the filtration cache on every path on which it modified the tree"""
    cls, fns = c01.simplex_tree_functions(_only(F, 'st_tbb'))
    G = summary.ClassGraph(fns)
    MOD_CALLS = set(TABLE['value_writers'])

    def direct(f):
        cl = c01.make_classify(f)
        s = set()
        for x in ir.walk(f.get('body')):
            ev = cl(x)
            if 'CREATE' in ev or 'DESTROY' in ev:
                s.add('MOD')
            if ir.is_call(x) and ir.call_name(x) in MOD_CALLS:
                s.add('MOD')
            if ir.is_call(x) and ir.call_name(x) == 'clear_filtration':
                s.add('CLEAR')
            t = ir.write_target(x)
            if t is not None and ir.this_field(t) == 'filtration_vect_':
                s.add('CLEAR')
        return s
    may = G.may(direct)

    def clear_cl(x):
        if ir.is_call(x) and ir.call_name(x) == 'clear_filtration':
            return ['CLEAR']
        if ir.is_call(x) and ir.call_name(x) in ('clear', 'swap', 'assign') and ir.call_receiver(x) is not None \
                and ir.this_field(ir.call_receiver(x)) == 'filtration_vect_':
            return ['CLEAR']
        t = ir.write_target(x)
        if t is not None and ir.this_field(t) == 'filtration_vect_':
            return ['CLEAR']
        return []
    must_clear = G.must(clear_cl, 'CLEAR', loop_mode='01')
    chk.count('functions that always drop the cache', len(must_clear))
    n = 0
    for name in TABLE['self_invalidating_mutators']:
        fs = [f for f in G.by_name.get(name, []) if f.get('body') is not None]
        if not fs:
            raise AnalysisBroken('C03: mutator %s not found' % name)
        for f in fs:
            n += 1
            cl = c01.make_classify(f)
            bool_helpers = {g for g in G.by_name if any(x.get('ret') == 'bool' for x in G.by_name[g])}
            bool_helpers |= set(TABLE['bool_reporting_writers'])

            def c2(x, cl=cl, f=f):
                ev = []
                e0 = cl(x)
                if 'CREATE' in e0 or 'DESTROY' in e0:
                    ev.append('MOD')
                if ir.is_call(x):
                    nme = ir.call_name(x)
                    if nme in MOD_CALLS:
                        ev.append('MOD')
                    if nme == 'clear_filtration' or (ir.is_this_call(x) and nme in must_clear and nme != f['name']):
                        ev.append('CLEAR')
                    if ir.is_this_call(x) and nme != f['name'] and nme in may:
                        if 'MOD' in may[nme] and 'MOD' not in ev:
                            ev.append('MOD')
                if clear_cl(x) and 'CLEAR' not in ev:
                    ev.append('CLEAR')
                return ev
            ps = paths.enumerate_paths(f, flags.with_flags(c2), loop_mode='1', keep_conds=True, cap=50000)
            bad = None
            npaths = 0
            for p in ps:
                if p.end == 'throw':
                    continue
                ok, surv, env = flags.walk(p, {'MOD'}, conditional_calls=bool_helpers)
                if not ok or not surv:
                    continue
                npaths += 1
                tags = p.tags()
                if 'CLEAR' in tags:
                    continue
                # a flag-accumulating lambda (`modified |= ...` inside a callback) and `if (modified) clear`
                bad = (p, surv)
                break
            chk.count('cache-invalidation paths', npaths)
            chk.ob('E2-cache', '%s drops the filtration cache whenever it modified the tree' % name,
                   '%s:%d' % (H, f['line']), bad is None,
                   '' if bad is None else 'a path modifies the tree (line %s) and returns without clear_filtration(): '
                   'filtration_simplex_range() would keep serving the old order / dangling handles'
                   % [e[1].get('l') for e in bad[1]][:3], key='E2cache|%s' % name)
    chk.expect_count('E2-cache', 'self-invalidating mutators', n, 7)


def _only(F, unit):
    G = facts.Facts()
    G.functions = [f for f in F.functions if f['unit'] == unit]
    G.classes = [c for c in F.classes if c['unit'] == unit]
    G.staticvars = [v for v in F.staticvars if v['unit'] == unit]
    for f in G.functions:
        G.by_name.setdefault(f['name'], []).append(f)
    return G


def run_traversal(chk, F):
    fs = F.funcs('rec_for_each_simplex', unit='st_tbb')
    if len(fs) != 1:
        raise AnalysisBroken('C03: rec_for_each_simplex not found')
    f = fs[0]
    funp = f['params'][-1]['n']

    def cl(x):
        if ir.is_call(x):
            ce = ir.callee_expr(x)
            if ce is not None and ce.get('k') == 'DeclRefExpr' and ce.get('n') == funp:
                return ['FUN']
            if x.get('k') == 'CXXOperatorCallExpr' and x.get('op') == '()' and \
                    ir.show((x.get('c') or [None, None])[1]) == funp:
                return ['FUN']
            if ir.call_name(x) == 'rec_for_each_simplex':
                return ['REC']
        return []
    ps = paths.enumerate_paths(f, cl, loop_mode='1', keep_conds=False)
    bad = [p for p in ps if 'REC' in p.tags() and 'FUN' not in p.tags()[:p.tags().index('REC')]]
    has = [p for p in ps if 'REC' in p.tags()]
    chk.ob('E2-parent-first', 'rec_for_each_simplex calls the callback on a node before descending into its children',
           '%s:%d' % (H, f['line']), bool(has) and not bad,
           'a path descends into children before the callback ran on the parent' if bad else
           ('no recursive descent found' if not has else ''), key='E2|rec_for_each_simplex|parent-first')
    # direction: siblings are visited from the last to the first (a face that is not a prefix lives in the subtree of
    # a larger first vertex)
    body_text = ' ; '.join(ir.show(x) for x in ir.walk(f['body']) if x.get('k') in
                           ('VarDecl', 'UnaryOperator', 'CXXOperatorCallExpr', 'DoStmt', 'WhileStmt', 'ForStmt'))
    t = [ir.show(x) for x in ir.walk(f['body'])]
    backwards = (any(s.endswith('members().end()') and '=' in s for s in t) and any(s.startswith('--') for s in t)) \
        or any('rbegin()' in s for s in t)
    chk.ob('E2-parent-first', 'rec_for_each_simplex visits the siblings from the last to the first',
           '%s:%d' % (H, f['line']), backwards, '' if backwards else 'the sibling loop no longer starts at end() and '
           'steps backwards: faces that are not prefixes would be visited after their cofaces',
           key='E2|rec_for_each_simplex|direction')


CACHE_READERS = {
    'filtration_simplex_range': 'returns the cache after maybe_initialize_filtration()',
    'simplex': 'documented precondition: "the filtration must be initialized"',
}


def run_cache_readers(chk, F):
    """who may read the cache: filtration_vect_ is an optional, possibly partial ordering of the simplices (built
    with an ignorer, a custom order, or before values were changed by assign_filtration). The complex is a function of
    the tree alone, so no function that changes or queries the complex may look into the cache: outside the cache's own
    interface (initialisation, the range accessor, `simplex(key)`), the member is only cleared, moved or assigned as
    a whole."""
    import re
    fns = [f for f in F.functions if f.get('unit') == 'st_tbb' and f.get('clsname') == 'Simplex_tree' and
           f['file'].endswith('Simplex_tree.h') and f.get('body') is not None and f['inst'] in (0, 2)]
    n = 0
    for f in fns:
        uses = []
        roots = [f['body']] + [i.get('init') for i in (f.get('inits') or []) if i.get('init') is not None]
        for r in roots:
            for x in ir.walk(r):
                if x.get('k') in ir.MEMBER_KINDS and x.get('n') == 'filtration_vect_':
                    uses.append((r, x))
        if not uses:
            continue
        n += 1
        if f['name'] in CACHE_READERS or f['name'] in ('initialize_filtration', 'maybe_initialize_filtration',
                                                       'clear_filtration'):
            continue
        bad = None
        for r, x in uses:
            par = ir.parents(r)
            up = par.get(id(x))
            while up is not None and up.get('k') in ir.CAST_KINDS + ('ParenExpr',):
                up = par.get(id(up))
            ok = False
            if up is not None and up.get('k') in ir.MEMBER_KINDS and up.get('n') in ('clear', 'swap', 'shrink_to_fit'):
                ok = True          # filtration_vect_.clear() / .swap(other.filtration_vect_)
            if up is not None and up.get('k') in ('BinaryOperator', 'CXXOperatorCallExpr') and up.get('op') == '=':
                ok = True          # whole-object assignment (copy / move)
            if up is not None and ir.is_call(up) and ir.call_name(up) in ('move', 'exchange', 'swap'):
                ok = True
            if r is not f['body']:
                ok = True          # member initialiser of a constructor
            if not ok and bad is None:
                bad = (x, up)
        chk.ob('E2-cache-readers', '%s does not read the filtration cache' % f['name'],
               '%s:%d' % (H, f['line']), bad is None,
               '' if bad is None else 'line %s uses filtration_vect_ in `%s`: the cache may be partial (ignorer, custom '
               'order) or stale (assign_filtration does not drop it), the complex must not depend on it'
               % (bad[0].get('l'), ir.show(bad[1])[:80] if bad[1] is not None else '?'),
               key='E2|%s|cache-reader' % f['name'])
    chk.expect_count('E2-cache-readers', 'functions mentioning the cache', n, 5)


def run_prune_rules(chk, F):
    """pruning at a value keeps exactly the sublevel complex: (a) the threshold handed to the recursive worker is a
    value owned by the call (a local copy or a by-value parameter) - a reference parameter may designate the value
    of a node, and nodes are moved while pruning; (b) the recursion visits every kept subtree: no recursive call sits
    behind a short-circuit on the accumulated result (`modified || rec(...)` skips the subtree once anything was
    removed)."""
    fs = F.funcs('prune_above_filtration', unit='st_tbb')
    if len(fs) != 1:
        raise AnalysisBroken('C03: prune_above_filtration not found')
    f = fs[0]
    calls = [x for x in ir.walk(f['body']) if ir.is_call(x) and ir.call_name(x) == 'rec_prune_above_filtration']
    if len(calls) != 1:
        raise AnalysisBroken('C03: call of rec_prune_above_filtration not found')
    arg = ir.skipcasts(ir.call_args(calls[0])[1])
    ref_params = {p_['n'] for p_ in f['params'] if '&' in (p_.get('t') or '')}
    ok = not (arg is not None and arg.get('k') == 'DeclRefExpr' and arg.get('n') in ref_params)
    chk.ob('E10-threshold-owned', 'prune_above_filtration prunes with a threshold it owns', '%s:%s' % (H, calls[0].get('l')),
           ok, '' if ok else 'the reference parameter `%s` is handed to the recursion: prune_above_filtration('
           'filtration(sh)) passes a reference into a node, and std::remove_if moves nodes while pruning - deeper '
           'levels are pruned with another simplex\'s value' % arg.get('n'), key='E10|prune_above_filtration|threshold')
    n = 0
    for name in ('rec_prune_above_filtration', 'rec_prune_above_dimension'):
        for g in F.funcs(name, unit='st_tbb'):
            n += 1
            flags = set()
            for x in ir.walk(g['body']):
                if x.get('k') == 'VarDecl' and 'bool' in (x.get('t') or ''):
                    flags.add(x['n'])
            par = ir.parents(g['body'])
            bad = None
            for x in ir.walk(g['body']):
                if not (ir.is_call(x) and ir.call_name(x) == name):
                    continue
                cur = x
                while id(cur) in par:
                    up = par[id(cur)]
                    if up.get('k') == 'BinaryOperator' and up.get('op') in ('||', '&&') and cur is not up['c'][0]:
                        left = [y.get('n') for y in ir.walk(up['c'][0]) if y.get('k') == 'DeclRefExpr']
                        if any(l in flags for l in left) and bad is None:
                            bad = up
                    cur = up
            chk.ob('E2-recursion-complete', '%s recurses into every kept subtree (no short-circuit on the accumulated '
                   'result)' % name, '%s:%d' % (H, g['line']), bad is None,
                   '' if bad is None else '`%s`: once the flag is true the recursive call is not evaluated, the '
                   'remaining subtrees are not pruned' % ir.show(bad)[:120], key='E2|%s|recursion-complete' % name)
    chk.expect_count('E2-recursion-complete', 'recursive pruning workers', n, 2)


def run_cone_label(chk, F):
    """the cone point of the extended filtration is a *new, usable* vertex: its label is computed (largest label + 1),
    so before it is inserted it is compared with the reserved null_vertex() (every other entry point that inserts a
    label checks it against null_vertex(); labels below null_vertex() are legal)."""
    fs = F.funcs('extend_filtration', unit='st_tbb')
    if len(fs) != 1:
        raise AnalysisBroken('C03: extend_filtration not found')
    f = fs[0]
    ins = [x for x in ir.walk(f['body']) if ir.is_call(x) and ir.call_name(x) == 'insert_simplex_raw']
    if not ins:
        raise AnalysisBroken('C03: extend_filtration: insertion of the cone point not found')
    names = [y.get('n') for y in ir.walk(ins[0]) if y.get('k') == 'DeclRefExpr' and y.get('dk') == 'Var']
    if len(set(names)) != 1:
        raise AnalysisBroken('C03: extend_filtration: the cone label is not a single local')
    cone = names[0]
    order = list(ir.walk(f['body']))
    pos = order.index(ins[0])
    ok = False
    for x in order[:pos]:
        if x.get('k') in ('BinaryOperator', 'CXXOperatorCallExpr') and x.get('op') in ('==', '!='):
            t = ir.show(x)
            if cone in t and 'null_vertex' in t:
                ok = True
    chk.ob('E2g-cone-label', 'extend_filtration compares the computed cone label with null_vertex() before inserting it',
           '%s:%s' % (H, ins[0].get('l')), ok, '' if ok else '`%s` is the largest label + 1 and is inserted without a '
           'test against null_vertex(): a complex whose largest label is null_vertex() - 1 gets the reserved dummy '
           'label as cone point' % cone, key='E2g|extend_filtration|cone-label')


def run_cache_protocol(chk, F):
    """The cache protocol: an empty filtration_vect_ means "not computed" and nothing else does - a cache built with
    an ignorer or a custom comparator is legitimately smaller than / ordered differently from the default one. The
    lazy initialiser therefore recomputes exactly when the cache is empty."""
    fs = F.funcs('maybe_initialize_filtration', unit='st_tbb')
    if len(fs) != 1:
        raise AnalysisBroken('C03: maybe_initialize_filtration not found')
    f = fs[0]
    ifs = [x for x in ir.walk(f['body']) if x.get('k') == 'IfStmt' and
           ir.contains(x.get('then'), lambda y: ir.is_call(y) and ir.call_name(y) == 'initialize_filtration')]
    ok = len(ifs) == 1 and ir.show(ifs[0]['cond']).replace(' ', '') in (
        'filtration_vect_.empty()', '(filtration_vect_.size()==0)', '!filtration_vect_.size()')
    chk.ob('E2-cache-protocol', 'maybe_initialize_filtration recomputes the cache exactly when it is empty',
           '%s:%d' % (H, f['line']), ok, '' if ok else 'the recomputation is guarded by `%s`: a cache deliberately '
           'built with an ignorer or another comparator is discarded and replaced by the default order'
           % (ir.show(ifs[0]['cond']) if ifs else '?'), key='E2|maybe_initialize_filtration|empty-means-not-computed')


def run_cache_state(chk, F):
    """E2-cache-state: the explicit initialiser takes an ignorer: when it skips every simplex (all values infinite with
    initialize_filtration(true), or a custom ignorer) the computed cache is empty for a non-empty complex. A lazy
    test that reads "empty" as "not computed" then recomputes with the default order and no ignorer: the ignored
    simplices reappear in filtration_simplex_range(). Wherever an initialiser can skip simplices, "computed" has to be
    represented by something else than the emptiness of the vector."""
    inits = [f for f in F.funcs('initialize_filtration', unit='st_tbb') if len(f.get('params', [])) == 2]
    lazy = F.funcs('maybe_initialize_filtration', unit='st_tbb')
    if len(inits) != 1 or len(lazy) != 1:
        raise AnalysisBroken('C03: initialize_filtration(Comparator, Ignorer) / maybe_initialize_filtration not found')
    f = inits[0]
    ign = f['params'][1]['n']
    skips = False
    for lp in ir.walk(f['body']):
        if lp.get('k') != 'CXXForRangeStmt':
            continue
        pushes = ir.contains(lp.get('body'), lambda y: ir.is_call(y) and ir.call_name(y) in ('push_back', 'emplace_back')
                             and 'filtration_vect_' in ir.show(ir.call_receiver(y) or {}))
        guarded = ir.contains(lp.get('body'), lambda y: y.get('k') == 'IfStmt' and ign in ir.show(y.get('cond')))
        if pushes and guarded:
            skips = True
    g = lazy[0]
    ifs = [x for x in ir.walk(g['body']) if x.get('k') == 'IfStmt' and
           ir.contains(x.get('then'), lambda y: ir.is_call(y) and ir.call_name(y) == 'initialize_filtration')]
    by_emptiness = bool(ifs) and re.sub(r'\s', '', ir.show(ifs[0]['cond'])) in (
        'filtration_vect_.empty()', '(filtration_vect_.size()==0)', '!filtration_vect_.size()')
    ok = not (skips and by_emptiness)
    chk.ob('E2-cache-state', 'an empty cache computed with an ignorer is not taken for "not computed"',
           '%s:%d' % (H, g['line']), ok, '' if ok else 'initialize_filtration(comparator, %s) can leave filtration_vect_ '
           'empty for a non-empty complex and maybe_initialize_filtration recomputes whenever it is empty: after '
           'initialize_filtration(true) on a complex whose values are all infinite, filtration_simplex_range() lists '
           'every simplex' % ign, key='E2|maybe_initialize_filtration|empty-is-ambiguous')


def run_extremes(chk, F):
    """E8-extremes (two clauses on the values the order is built from).
    (ignore-infinite) the simplices `initialize_filtration(true)` leaves out are those at *+infinity*: every return of
    its ignore predicate compares the value with `get_infinity()` (an equality); a classification test that does not
    look at the sign (`isinf`, `!isfinite`) also drops the simplices at -infinity - faces go missing before their
    cofaces.
    (running extremes) a running minimum and a running maximum over one loop (locals that start at +/- infinity or at
    the limits of the type) are updated independently: an assignment to one never sits in the else branch of the test
    that updates the other - the first element lowers the minimum and would never be considered for the maximum
    (extend_filtration: the span of the vertex values scales every extended value)."""
    fs = [f for f in F.functions if f.get('clsname') == 'Simplex_tree' and f['name'] == 'initialize_filtration' and
          f.get('inst') in (0, 2) and f.get('body') is not None and len(f.get('params', [])) == 1]
    if not fs:
        raise AnalysisBroken('C03: initialize_filtration(bool) not found')
    f = fs[0]
    lams = [x for x in ir.walk(f['body']) if x.get('k') == 'LambdaExpr']
    rets = [y for lam in lams for y in ir.walk(lam.get('body')) if y.get('k') == 'ReturnStmt' and
            y.get('value') is not None and ir.show(y['value']) not in ('false', 'true')]
    if not rets:
        raise AnalysisBroken('C03: the ignore predicate of initialize_filtration(bool) was not found')
    bad = None
    for r in rets:
        t = ir.show(r['value'])
        calls = {ir.call_name(y) for y in ir.walk(r['value']) if ir.is_call(y)}
        if calls & {'isinf', 'isfinite', 'isnormal', 'fpclassify'} or 'get_infinity' not in t or \
                not any(y.get('k') in ('BinaryOperator', 'CXXOperatorCallExpr') and y.get('op') == '==' for y in
                        ir.walk(r['value'])) or '-' in t.split('get_infinity')[0][-3:]:
            bad = r
    chk.ob('E8-extremes', 'initialize_filtration(true) leaves out exactly the simplices at +infinity (%d predicate '
           'returns)' % len(rets), '%s:%d' % (rel(f['file']), f['line']), bad is None,
           '' if bad is None else '`%s` does not compare with +infinity: simplices at -infinity are dropped from the '
           'filtration while their cofaces stay' % ir.show(bad)[:70],
           key='E8|Simplex_tree::initialize_filtration|ignore-plus-infinity')
    n = 0
    for f in F.functions:
        if f.get('clsname') != 'Simplex_tree' or f.get('inst') not in (0, 2) or f.get('body') is None:
            continue
        ext = {x['n'] for x in ir.walk(f['body']) if x.get('k') == 'VarDecl' and x.get('init') is not None and
               re.search(r'get_infinity\(\)|infinity\(\)|::max\(\)|::lowest\(\)|::min\(\)', ir.show(x['init']))}
        if len(ext) < 2:
            continue
        n += 1
        coupled = None
        for x in ir.walk(f['body']):
            if x.get('k') != 'IfStmt' or x.get('else') is None:
                continue
            wa = {ir.show(ir.write_target(y)) for y in ir.walk(x.get('then')) if ir.write_target(y) is not None} & ext
            wb = {ir.show(ir.write_target(y)) for y in ir.walk(x.get('else')) if ir.write_target(y) is not None} & ext
            if wa and wb and wa != wb:
                coupled = (x, wa, wb)
        chk.ob('E8-extremes', 'Simplex_tree::%s updates its running extremes %s independently' % (
            f['name'], '/'.join(sorted(ext))), '%s:%d' % (rel(f['file']), f['line']), coupled is None,
            '' if coupled is None else 'line %s: `%s` is only updated in the else branch of the test that updates `%s`: an '
            'element that moves the one is never considered for the other (the first element always moves the first)'
            % (coupled[0].get('l'), '/'.join(sorted(coupled[2])), '/'.join(sorted(coupled[1]))),
            key='E8|Simplex_tree::%s|extremes-independent' % f['name'])
    chk.expect_count('E8-extremes', 'functions keeping two running extremes', n, 1)


def run_lifetimes(chk, F):
    """unify_lifetimes (min) and intersect_lifetimes (max) for arithmetic values: on the three relations of (f1, f2)
    the helper overwrites f1 and returns true exactly when f1 changes (NaN excluded, as the property states).
    make_filtration_non_decreasing returns their accumulated result."""
    want = {'unify_lifetimes': 'gt', 'intersect_lifetimes': 'lt'}
    n = 0
    for name, rel_changes in want.items():
        fs = [f for f in F.funcs(name, unit='st_tbb') if f['file'].endswith('filtration_value_utils.h')
              and len(f['params']) == 2]
        if not fs:
            raise AnalysisBroken('C03: %s not found' % name)
        for f in fs:
            a, b = f['params'][0]['n'], f['params'][1]['n']
            for nan_arm in (True, False):
                bad = None
                for relv in ('lt', 'eq', 'gt'):
                    assigned = []

                    def oracle(e, env, relv=relv, nan_arm=nan_arm, assigned=assigned, a=a, b=b):
                        k = e.get('k')
                        t = ir.show(e)
                        if 'has_quiet_NaN' in t and k in ('DependentScopeDeclRefExpr', 'DeclRefExpr', 'MemberExpr'):
                            return nan_arm
                        if ir.is_call(e) and ir.call_name(e) == 'isnan':
                            return False
                        if k in ('BinaryOperator', 'CXXOperatorCallExpr') and e.get('op') in ('<', '>', '<=', '>='):
                            c = e.get('c') or []
                            if k == 'CXXOperatorCallExpr':
                                c = c[1:]
                            l, r = ir.show(c[0]), ir.show(c[1])
                            if (l, r) == (a, b):
                                return predeval.rel_truth(relv, e['op'], False)
                            if (l, r) == (b, a):
                                return predeval.rel_truth(relv, e['op'], True)
                        if k in ('BinaryOperator', 'CXXOperatorCallExpr') and e.get('op') == '=':
                            c = e.get('c') or []
                            l = ir.show(c[0] if k == 'BinaryOperator' else c[1])
                            if l == a and ir.show(c[-1]) == b:
                                assigned.append(True)
                                return 0
                        return None
                    try:
                        got = predeval.Evaluator(oracle).run(f['body'])
                    except predeval.Unknown as ex:
                        raise AnalysisBroken('C03: %s has a shape the evaluator does not know: %s' % (name, ex))
                    exp = relv == rel_changes
                    if (got is not exp or bool(assigned) != exp) and bad is None:
                        bad = (relv, got, bool(assigned))
                n += 1
                chk.ob('E8-lifetimes', '%s (%s arm) changes f1 and returns true exactly when f1 %s f2' % (
                    name, 'NaN-aware' if nan_arm else 'integral', '>' if rel_changes == 'gt' else '<'),
                    '%s:%d' % (rel(f['file']), f['line']), bad is None,
                    '' if bad is None else 'for f1 %s f2 it returns %s and %s f1' % (
                        {'lt': '<', 'eq': '==', 'gt': '>'}[bad[0]], bad[1], 'overwrites' if bad[2] else 'keeps'),
                    key='E8|%s|%s' % (name, 'nan' if nan_arm else 'int'))
    chk.expect_count('E8-lifetimes', 'helper arms', n, 4)


def run(tier, replay=None):
    chk = Check('C03', tier,
                'Static decision of structural clauses of the filtration order of the simplex tree: the comparator '
                'equals on all valuations the lexicographic order (filtration value, reverse-lexicographic vertex '
                'word), the latter decided on all lockstep scenarios, so it is a strict total order and every sort, '
                'sequential or parallel, yields one sequence; both TBB configurations sort the same range with it; '
                'it is pure; every self-invalidating mutator drops the cache on every modifying path (flag idiom '
                'understood); for_each_simplex visits parents before children and siblings backwards. Values '
                'produced by make_filtration_non_decreasing / extend_filtration are not decided.',
                'finite predicate enumeration (E9), sibling arms (E7b), purity (E6b), path rules with flag idiom (E2)')
    F = facts.extract(UNITS)
    run_order(chk, F)
    run_cache(chk, F)
    run_traversal(chk, F)
    run_cache_protocol(chk, F)
    run_cache_state(chk, F)
    run_lifetimes(chk, F)
    run_cache_readers(chk, F)
    run_prune_rules(chk, F)
    run_cone_label(chk, F)
    run_extremes(chk, F)
    chk.assumptions += ['filtration values obey trichotomy (no NaN), as the property states', 'clang 14 parser',
                        'tables/c03.json lists the mutators the library documents as self-invalidating']
    return chk

"""C07 zigzag persistence: births_ <-> birthOrdering_ bookkeeping as a counting path rule (DESIGN 4/C07)."""
import re

from gsa import facts, ir, paths
from rules import findrule, c09
from gsa.facts import Unit, rel, AnalysisBroken
from gsa.report import Check

UNITS = [Unit('mx_pat', 'matrix_pat.cpp', ['src/Zigzag_persistence/include/gudhi/zigzag_persistence.h',
                                          'src/Zigzag_persistence/include/gudhi/filtered_zigzag_persistence.h',
                                          'src/Persistence_matrix/include/gudhi/Persistence_matrix/Chain_matrix.h'],
              no_inst=True)]
HF = 'src/Zigzag_persistence/include/gudhi/filtered_zigzag_persistence.h'
H = 'src/Zigzag_persistence/include/gudhi/zigzag_persistence.h'
FUNCS = ('_process_forward_arrow', '_apply_surjective_reflection_diamond', '_process_backward_arrow')


def classify(x):
    if ir.is_call(x):
        n = ir.call_name(x)
        r = ir.call_receiver(x)
        rt = ir.show(r) if r is not None else ''
        if rt == 'birthOrdering_' and n in ('add_birth_forward', 'add_birth_backward'):
            return ['ADD']
        if rt == 'birthOrdering_' and n == 'remove_birth':
            return ['REMOVE']
        if rt == 'births_' and n == 'erase':
            return ['ERASE']
        if n == 'stream_interval_' or (ir.show(ir.callee_expr(x)) == 'stream_interval_'):
            return ['STREAM']
    t = ir.write_target(x)
    if t is not None and x.get('op') == '=':
        tt = ir.skipcasts(t)
        # births_[key] = value : creates the key (operator[]);  births_.at(key) = value only updates
        if tt is not None and tt.get('k') in ('CXXOperatorCallExpr', 'ArraySubscriptExpr') and \
                ir.show(tt).startswith('births_['):
            return ['INSERT']
    return []


def run_arrow_order(chk, F):
    """filtered front-ends: the arrow counter labels the data of the current operation (filtration value, cell key):
    on every path of insert_cell / remove_cell it is advanced exactly once, and nothing is keyed with it before"""
    n = 0
    for f in F.functions:
        if f['inst'] not in (0, 2) or not f['file'].endswith('filtered_zigzag_persistence.h'):
            continue
        if f['name'] not in ('insert_cell', 'remove_cell'):
            continue
        n += 1

        def cl(x):
            if x.get('k') == 'UnaryOperator' and x.get('op') == '++' and ir.show(x['c'][0]) == 'numArrow_':
                return ['INCR']
            if ir.is_call(x):
                nm = ir.call_name(x)
                if nm == 'apply_identity' and ir.is_this_call(x):
                    return ['INCR']
                if nm == '_store_filtration_value':
                    return ['USE']
                if any(ir.show(a) == 'numArrow_' for a in ir.call_args(x)):
                    return ['USE']
            return []
        ps = paths.enumerate_paths(f, cl, loop_mode='01', keep_conds=True)
        bad = None
        for p in ps:
            if p.end == 'throw':
                continue
            tags = p.tags()
            if tags.count('INCR') != 1 and bad is None:
                bad = 'the arrow counter is advanced %d times on a path' % tags.count('INCR')
            if 'USE' in tags and ('INCR' not in tags or tags.index('USE') < tags.index('INCR')) and bad is None:
                bad = 'data is keyed with the arrow number before the counter is advanced: it is attached to the ' \
                      'previous operation'
        chk.ob('E2-arrow-order', '%s::%s advances the arrow counter once, before anything is keyed with it' % (
            f.get('clsname'), f['name']), '%s:%d' % (HF, f['line']), bad is None, bad or '',
            key='E2|%s::%s|arrow-order' % (f.get('clsname'), f['name']))
    chk.expect_count('E2-arrow-order', 'insert_cell / remove_cell of the filtered front-ends', n, 4)


def run_zero_length(chk, F):
    """E9-zero-length: the filtered front-ends omit *only* zero-length intervals. The filtration values may increase or
    decrease along the sequence, so the test deciding whether an interval is reported is evaluated on the three
    relations of its two end values: reported for birth < death and for birth > death, omitted for equal values.
    Streaming class: the guard of the stream_interval call; storing class: the sequence `if (birth > death) swap;
    if (death - birth > shortestInterval)` with the default threshold 0."""
    from gsa import predeval
    fns = [f for f in F.functions if f['file'].endswith('filtered_zigzag_persistence.h') and f.get('body') is not None
           and f['inst'] in (0, 2)]
    n = 0
    # (a) streaming class: a lambda in the constructor's initialiser calls stream_interval under a guard
    for f in fns:
        roots = [f.get('body')] + [i.get('init') for i in (f.get('inits') or []) if i.get('init') is not None]
        for root in roots:
            for x in ir.walk(root):
                if x.get('k') != 'IfStmt':
                    continue
                calls = [y for y in ir.walk(x.get('then')) if ir.is_call(y) and 'stream_interval' in
                         ir.show(ir.callee_expr(y) or {})]
                if not calls:
                    continue
                args = [ir.show(a) for a in ir.call_args(calls[0])]
                if calls[0].get('k') == 'CXXOperatorCallExpr':
                    args = args[1:]
                if len(args) < 3:
                    raise AnalysisBroken('C07: stream_interval call of unexpected arity')
                b, d = args[-2], args[-1]
                n += 1
                res = {}
                for r in ('lt', 'eq', 'gt'):
                    def oracle(e, env, r=r, b=b, d=d):
                        if e.get('k') in ('BinaryOperator', 'CXXOperatorCallExpr') and e.get('op') in (
                                '<', '>', '<=', '>=', '==', '!='):
                            cs = [ir.show(c) for c in (e.get('c') or [])[-2:]]
                            if cs == [b, d] or cs == [d, b]:
                                c_ = {'lt': -1, 'eq': 0, 'gt': 1}[r]
                                if cs == [d, b]:
                                    c_ = -c_
                                return {'<': c_ < 0, '>': c_ > 0, '<=': c_ <= 0, '>=': c_ >= 0, '==': c_ == 0,
                                        '!=': c_ != 0}[e['op']]
                        return None
                    try:
                        res[r] = predeval.Evaluator(oracle).truth(x.get('cond'))
                    except predeval.Unknown as ex:
                        raise AnalysisBroken('C07: the guard of stream_interval has a shape the evaluator does not '
                                             'know: %s' % ex)
                ok = res == {'lt': True, 'eq': False, 'gt': True}
                chk.ob('E9-zero-length', '%s: an interval is streamed exactly when its two end values differ'
                       % f['name'], '%s:%s' % (HF, x.get('l')), ok,
                       '' if ok else 'the guard `%s` is %s for birth < death, %s for equal values, %s for birth > death'
                       ' (a decreasing sequence of values gives birth > death)' % (ir.show(x.get('cond')), res['lt'],
                                                                                   res['eq'], res['gt']),
                       key='E9|%s|zero-length' % f['name'])
    chk.expect_count('E9-zero-length', 'guards of stream_interval', n, 1)


def run_frontier(chk, F):
    """the diamond rewrites a chain as the cumulated sum of the chains passed so far: the inner loop starts at a
    frontier variable kept across iterations; every path that runs that accumulation must move the frontier to the
    chain it accumulated into (otherwise the next accumulation adds the passed chains twice)"""
    fs = [f for f in F.functions if f['name'] == '_apply_surjective_reflection_diamond' and f['inst'] in (0, 2)]
    f = fs[0]
    outer = [x for x in ir.walk(f['body']) if x.get('k') == 'ForStmt' and
             ir.contains(x.get('body'), lambda y: y.get('k') == 'ForStmt')]
    n = 0
    for lp in outer:
        for inner in ir.walk(lp.get('body')):
            if inner.get('k') != 'ForStmt' or inner is lp:
                continue
            init = inner.get('init')
            iv = None
            for d in ir.walk(init):
                if d.get('k') == 'VarDecl' and d.get('init') is not None:
                    r = ir.skipcasts(d['init'])
                    if r is not None and r.get('k') == 'DeclRefExpr':
                        iv = (d['n'], r['n'], r.get('id'))
            if iv is None:
                continue
            bound = ir.show(inner.get('cond'))
            # the loop runs from the frontier up to the outer loop's current position and accumulates into it
            if not ir.contains(inner.get('body'), lambda y: ir.is_call(y) and ir.call_name(y) == 'add_to'):
                continue
            n += 1
            frontier = iv[1]

            def cl(x, inner=inner, frontier=frontier):
                if x is inner:
                    return ['$acc']
                t = ir.write_target(x)
                if t is not None and ir.show(t) == frontier:
                    return ['MOVE']
                if ir.is_call(x) and ir.call_name(x) == 'add_to':
                    return ['ACC']
                return []
            pseudo = {'body': lp.get('body'), 'name': f['name'], 'file': f['file']}
            ps = paths.enumerate_paths(pseudo, cl, loop_mode='1', keep_conds=True)
            bad = [p for p in ps if 'ACC' in p.tags() and 'MOVE' not in p.tags()[p.tags().index('ACC'):]]
            chk.ob('E2-frontier', 'the diamond moves the accumulation frontier %s after every cumulated sum' % frontier,
                   '%s:%s' % (H, inner.get('l')), not bad, '' if not bad else 'a path accumulates the passed chains '
                   'into the current one and leaves %s where it was: the next unavailable birth re-adds them' % frontier,
                   key='E2|diamond|frontier|%s' % frontier)
    chk.expect_count('E2-frontier', 'cumulated-sum loops in the diamond', n, 1)


def run_first_value(chk, F):
    """E8-first-value: the storage front-end translates arrow numbers into filtration values by a lookup that steps
    back to the previous recorded (arrow, value) pair: it is safe only if the first arrow is always recorded. The
    recording guard of `_store_filtration_value` is evaluated on the valuations of its atoms with "nothing recorded
    yet" true: on every one of them the path must append (a guard that only compares with the previous value skips a
    first value equal to the initial `previousFiltrationValue_`, e.g. +infinity)."""
    fs = [f for f in F.functions if f['name'] == '_store_filtration_value' and f.get('inst') in (0, 2) and
          f.get('body') is not None]
    if len(fs) != 1:
        raise AnalysisBroken('C07: _store_filtration_value not found')
    f = fs[0]

    def cl(x):
        if ir.is_call(x) and ir.call_name(x) in ('emplace_back', 'push_back') and \
                'filtrationValues_' in ir.show(ir.call_receiver(x) or {}):
            return ['APPEND']
        return []
    ps = paths.enumerate_paths(f, cl, loop_mode='01', keep_conds=True)
    if not any('APPEND' in p.tags() for p in ps):
        raise AnalysisBroken('C07: _store_filtration_value no longer records anything')
    atoms = {}
    linits = {x['n']: x['init'] for x in ir.walk(f['body']) if x.get('k') == 'VarDecl' and x.get('init') is not None
              and (x.get('t') or '').replace('const ', '') == 'bool'}
    bad = None
    for p in ps:
        if p.end == 'throw' or 'APPEND' in p.tags():
            continue
        decisions = [(c, pol) for c, pol, _ in p.conds if not isinstance(c, tuple)]
        fs_ = [(findrule._formula(c, atoms, linits), pol) for c, pol in decisions]
        empties = [i for t, i in atoms.items() if t.replace('()', '').endswith('filtrationValues_.empty')
                   or 'filtrationValues_.size()==0' in t]
        n = len(atoms)
        for m in range(1 << n):
            val = [(m >> i) & 1 == 1 for i in range(n)]
            if not all(findrule._ev(fm, val) == pol for fm, pol in fs_):
                continue
            # a path that does not append is acceptable only if it knows that something is recorded already
            if not empties or all(val[i] for i in empties):
                bad = p
                break
        if bad is not None:
            break
    chk.ob('E8-first-value', '_store_filtration_value records the value of the first arrow whatever it is',
           '%s:%d' % (rel(f['file']), f['line']), bad is None, '' if bad is None else
           'a path [%s] returns without recording although nothing may be recorded yet: a first value equal to the '
           'initial previousFiltrationValue_ (+infinity) is skipped and get_filtration_value_from_index steps back '
           'before the first pair' % '; '.join(('' if pol else '!') + ir.show(c)[:60] for c, pol, _ in bad.conds
                                                if not isinstance(c, tuple)), key='E8|_store_filtration_value|first-value')


def run_slot_order(chk, F):
    """E11-slot-order: a column index of the chain matrix (Matrix_index) names a storage slot - vine swaps exchange the
    pivots of two slots, so the order of the slots says nothing about the order of the cells. Every lambda of
    Zigzag_persistence whose parameters are all column indices (the comparators handed to the matrix, the sort of the
    columns crossed by a removal) orders them through values looked up with them (pivot, birth), never by comparing
    the indices themselves."""
    n = 0
    for f in F.functions:
        if f.get('clsname') != 'Zigzag_persistence' or f.get('inst') not in (0, 2):
            continue
        roots = [f.get('body')] + [i.get('init') for i in (f.get('inits') or []) if isinstance(i, dict)]
        for r in roots:
            if r is None:
                continue
            for lam in ir.walk(r):
                if lam.get('k') != 'LambdaExpr':
                    continue
                ps = lam.get('params', [])
                if len(ps) != 2 or not all((p_.get('t') or '').replace('const ', '').replace('&', '').strip().split(
                        '::')[-1] == 'Matrix_index' for p_ in ps):
                    continue
                n += 1
                names = {p_['n'] for p_ in ps}
                bad = None
                for x in ir.walk(lam.get('body')):
                    if x.get('k') in ('BinaryOperator', 'CXXOperatorCallExpr') and x.get('op') in ('<', '>', '<=', '>='):
                        ab = x['c'] if x['k'] == 'BinaryOperator' else ir.call_args(x)
                        for y in ab:
                            y0 = ir.skipcasts(y)
                            if y0 is not None and y0.get('k') == 'DeclRefExpr' and y0.get('n') in names:
                                bad = x
                chk.ob('E11-slot-order', '%s: the comparator at line %s orders its columns by values looked up with '
                       'their indices' % (f['name'], lam.get('l')), '%s:%s' % (rel(f['file']), lam.get('l')),
                       bad is None, '' if bad is None else '`%s` compares the column indices themselves: after a vine '
                       'swap exchanged the pivots of two slots the order of the slots is not the order of the cells'
                       % ir.show(bad)[:70], key='E11|Zigzag_persistence::%s|slot-order|%d' % (f['name'], n))
    chk.expect_count('E11-slot-order', 'comparators over column indices', n, 3)


def run_label_arithmetic(chk, F):
    """E3-label-size: the dimension of a cell is a label chosen by the caller (any value of the Dimension type, -1 for
    the empty simplex of an augmented complex included): it sizes nothing. A call of reserve / resize / a container
    constructor whose argument mentions a parameter of type Dimension sits under a test that bounds that parameter on
    both sides - otherwise `dimension * 2` is a signed overflow or a huge size_t (std::length_error thrown after the
    arrow counter and the key dictionary were updated)."""
    n = 0
    for f in F.functions:
        if '/Zigzag_persistence/' not in f['file'] or f.get('inst') not in (0, 2) or f.get('body') is None:
            continue
        dps = {q['n'] for q in f.get('params', []) if (q.get('t') or '').split('::')[-1].strip() == 'Dimension'}
        if not dps:
            continue
        par = ir.parents(f['body'])
        for x in ir.walk(f['body']):
            if not (ir.is_call(x) and ir.call_name(x) in ('reserve', 'resize')):
                continue
            used = {y.get('n') for a in ir.call_args(x) for y in ir.walk(a) if y.get('k') == 'DeclRefExpr'} & dps
            if not used:
                continue
            n += 1
            d = sorted(used)[0]
            lower = upper = False
            cur = x
            while id(cur) in par:
                up = par[id(cur)]
                if up.get('k') == 'IfStmt' and (cur is up.get('then') or ir.contains(up.get('then'), lambda y: y is x)):
                    t = ir.show(up.get('cond')).replace(' ', '')
                    if re.search(r'%s>=?-?\d' % d, t) or re.search(r'\d<=?%s' % d, t):
                        lower = True
                    if re.search(r'%s<=?\d' % d, t) or re.search(r'\d>=?%s' % d, t):
                        upper = True
                cur = up
            ok = lower and upper
            chk.ob('E3-label-size', '%s::%s: `%s` is sized from the dimension label only inside bounds on it' % (
                f.get('clsname'), f['name'], ir.show(x)[:50]), '%s:%s' % (rel(f['file']), x.get('l')), ok,
                '' if ok else 'the label `%s` is not bounded %s here: -1 gives a size of 2^64 - 2, 2^30 a signed overflow'
                % (d, 'below' if not lower else 'above'), key='E3|%s::%s|label-size' % (f.get('clsname'), f['name']))
    chk.count('containers sized from a dimension label', n)


def run_birth_direction(chk, F):
    """E7-birth-direction: a class born by a forward arrow is the newest, a class born by a backward arrow the oldest
    (Birth_ordering::add_birth_forward / add_birth_backward). Each arrow handler of Zigzag_persistence registers births
    with the call of its own direction only: `_process_forward_arrow` and the functions it alone calls never call
    add_birth_backward, `_process_backward_arrow` never calls add_birth_forward."""
    n = 0
    for fname, own, other in (('_process_forward_arrow', 'add_birth_forward', 'add_birth_backward'),
                              ('_process_backward_arrow', 'add_birth_backward', 'add_birth_forward')):
        fs = [f for f in F.functions if f.get('clsname') == 'Zigzag_persistence' and f['name'] == fname and
              f.get('inst') in (0, 2) and f.get('body') is not None]
        if not fs:
            raise AnalysisBroken('C07: %s not found' % fname)
        f = fs[0]
        calls = [ir.call_name(x) for x in ir.walk(f['body']) if ir.is_call(x) and
                 (ir.call_name(x) or '').startswith('add_birth_')]
        n += len(calls)
        ok = other not in calls
        chk.ob('E7-birth-direction', 'Zigzag_persistence::%s registers the births it creates with %s (%d calls)' % (
            fname, own, len(calls)), '%s:%d' % (rel(f['file']), f['line']), ok,
            '' if ok else '%s is called from %s: the class is ranked at the wrong end of the birth order, the surjective '
            'diamond and the transpositions then pick the wrong partner' % (other, fname),
            key='E7|Zigzag_persistence::%s|birth-direction' % fname)
    chk.expect_count('E7-birth-direction', 'birth registrations in the arrow handlers', n, 1)


def run(tier, replay=None):
    chk = Check('C07', tier,
                'Static decision of one bookkeeping clause of zigzag persistence: on every path of the forward arrow, '
                'the surjective reflection diamond and the backward arrow, every creation of a key in births_ is '
                'paired with exactly one registration of the same birth in the birth ordering, every erasure from '
                'births_ with exactly one remove_birth, and every streamed finite interval with the removal of '
                'exactly the birth it reports. The diamond consults reverse_birth_order for every live birth, so an '
                'unregistered or stale birth mis-pairs later intervals. The interval decomposition itself is not '
                'decided.',
                'counting / pairing path rule over the clang AST (E2n)')
    F = facts.extract(UNITS)
    n = 0
    for name in FUNCS:
        fs = [f for f in F.functions if f['name'] == name and f.get('clsname') == 'Zigzag_persistence'
              and f['inst'] in (0, 2)]
        if len(fs) != 1:
            raise AnalysisBroken('C07: %s not found' % name)
        f = fs[0]
        where = '%s:%d' % (H, f['line'])
        ps = paths.enumerate_paths(f, classify, loop_mode='01', keep_conds=True, cap=20000)
        bad = None
        tot = {'INSERT': 0, 'ADD': 0, 'ERASE': 0, 'REMOVE': 0, 'STREAM': 0}
        for p in ps:
            if p.end == 'throw':
                continue
            n += 1
            tags = p.tags()
            c = {k: tags.count(k) for k in tot}
            for k in tot:
                tot[k] += c[k]
            msg = None
            if c['INSERT'] != c['ADD']:
                msg = '%d key(s) created in births_ but %d birth(s) registered in the ordering' % (c['INSERT'], c['ADD'])
            elif c['ERASE'] != c['REMOVE']:
                msg = '%d erasure(s) from births_ but %d remove_birth' % (c['ERASE'], c['REMOVE'])
            elif c['STREAM'] != c['ERASE']:
                msg = '%d interval(s) streamed but %d birth(s) retired' % (c['STREAM'], c['ERASE'])
            elif max(c.values()) > 1:
                msg = 'more than one bookkeeping event of a kind on one arrow: %s' % c
            else:
                ev = {t: node for t, node in p.events if t in tot}
                if 'INSERT' in ev:
                    val = ir.show(ev['INSERT']['c'][-1])
                    arg = ir.show(ir.call_args(ev['ADD'])[0])
                    if val != arg:
                        msg = 'births_ records %s but the ordering registers %s' % (val, arg)
                if 'STREAM' in ev and msg is None:
                    sb = ir.show(ir.call_args(ev['STREAM'])[1])
                    rb = ir.show(ir.call_args(ev['REMOVE'])[0])
                    if sb != rb:
                        msg = 'the interval reports birth %s but birth %s is removed from the ordering' % (sb, rb)
            if msg and bad is None:
                bad = (p, msg)
        chk.ob('E2n-births', '%s keeps births_ and the birth ordering in lock step on every path' % name, where,
               bad is None, '' if bad is None else '%s [decisions: %s]' % (
                   bad[1], '; '.join(('' if pol else '!') + ir.show(c)[:50] for c, pol, _ in bad[0].conds
                                     if not isinstance(c, tuple))[:200]), key='E2n|%s|lockstep' % name)
        chk.count('events in %s' % name, sum(tot.values()))
        if sum(tot.values()) == 0:
            raise AnalysisBroken('C07: no bookkeeping event found in %s' % name)
    chk.count('arrow paths analysed', n)
    # the diamond consults the ordering through reverse_birth_order
    fs = [f for f in F.functions if f['name'] == '_apply_surjective_reflection_diamond' and f['inst'] in (0, 2)]
    uses = ir.contains(fs[0]['body'], lambda x: ir.is_call(x) and ir.call_name(x) == 'reverse_birth_order')
    chk.ob('E2n-births', 'the diamond orders the available births with reverse_birth_order', '%s:%d' % (H, fs[0]['line']),
           uses, '' if uses else 'the comparator of availableBirth no longer consults the birth ordering',
           key='E2n|diamond|uses-ordering')
    run_arrow_order(chk, F)
    run_frontier(chk, F)
    run_zero_length(chk, F)
    # intervals are labelled with the dimension the chain matrix stored for the cell: a dimension given at insertion
    # is kept (rule shared with C05)
    from rules import c05
    c05.run_dimension_overwrite(chk, F, min_count=1)
    run_slot_order(chk, F)
    run_first_value(chk, F)
    run_label_arithmetic(chk, F)
    run_birth_direction(chk, F)
    findrule.run(chk, F, ('zigzag_persistence.h', 'filtered_zigzag_persistence.h'), {
        'Zigzag_persistence::_process_backward_arrow|births_':
            'every chain of F (unpaired column) has an entry in births_: the creation / registration lock-step rule '
            'above (E2n) keeps births_ on exactly the unpaired chains, and this arm is taken for an unpaired column'},
        'C07', 1)
    _by = {}
    for _f in F.functions:
        if _f.get('inst') in (0, 2) and _f.get('body') is not None and _f['file'].startswith(facts.REPO):
            _by.setdefault(_f.get('cls') or _f.get('clsname') or '-', []).append(_f)
    c09.run_assert_purity(chk, F, by=_by, min_count=3)
    chk.assumptions += ['clang 14 parser', 'births_[k] = v creates a key, births_.at(k) = v updates one']
    return chk

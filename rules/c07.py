"""C07 zigzag persistence: births_ <-> birthOrdering_ bookkeeping as a counting path rule (DESIGN 4/C07)."""
from gsa import facts, ir, paths
from gsa.facts import Unit, rel, AnalysisBroken
from gsa.report import Check

UNITS = [Unit('mx_pat', 'matrix_pat.cpp', ['src/Zigzag_persistence/include/gudhi/zigzag_persistence.h'],
              no_inst=True)]
H = 'src/Zigzag_persistence/include/gudhi/zigzag_persistence.h'
FUNCS = ('_process_forward_arrow', '_apply_surjective_reflection_diamond', '_process_backward_arrow')


def classify(x):
    if ir.is_call(x):
        n = ir.call_name(x)
        r = ir.call_receiver(x)
        rt = ir.show(r) if r is not None else ''
        if rt == 'birthOrdering_' and n in ('add_birth_forward', 'add_birth_backward'):
            return ['ADD']
        if rt == 'birthOrdering_' and n == 'remove_birth':
            return ['REMOVE']
        if rt == 'births_' and n == 'erase':
            return ['ERASE']
        if n == 'stream_interval_' or (ir.show(ir.callee_expr(x)) == 'stream_interval_'):
            return ['STREAM']
    t = ir.write_target(x)
    if t is not None and x.get('op') == '=':
        tt = ir.skipcasts(t)
        # births_[key] = value : creates the key (operator[]);  births_.at(key) = value only updates
        if tt is not None and tt.get('k') in ('CXXOperatorCallExpr', 'ArraySubscriptExpr') and \
                ir.show(tt).startswith('births_['):
            return ['INSERT']
    return []


def run(tier, replay=None):
    chk = Check('C07', tier,
                'Static decision of one bookkeeping clause of zigzag persistence: on every path of the forward arrow, '
                'the surjective reflection diamond and the backward arrow, every creation of a key in births_ is '
                'paired with exactly one registration of the same birth in the birth ordering, every erasure from '
                'births_ with exactly one remove_birth, and every streamed finite interval with the removal of '
                'exactly the birth it reports. The diamond consults reverse_birth_order for every live birth, so an '
                'unregistered or stale birth mis-pairs later intervals. The interval decomposition itself is not '
                'decided.',
                'counting / pairing path rule over the clang AST (E2n)')
    F = facts.extract(UNITS)
    n = 0
    for name in FUNCS:
        fs = [f for f in F.functions if f['name'] == name and f.get('clsname') == 'Zigzag_persistence'
              and f['inst'] in (0, 2)]
        if len(fs) != 1:
            raise AnalysisBroken('C07: %s not found' % name)
        f = fs[0]
        where = '%s:%d' % (H, f['line'])
        ps = paths.enumerate_paths(f, classify, loop_mode='01', keep_conds=True, cap=20000)
        bad = None
        tot = {'INSERT': 0, 'ADD': 0, 'ERASE': 0, 'REMOVE': 0, 'STREAM': 0}
        for p in ps:
            if p.end == 'throw':
                continue
            n += 1
            tags = p.tags()
            c = {k: tags.count(k) for k in tot}
            for k in tot:
                tot[k] += c[k]
            msg = None
            if c['INSERT'] != c['ADD']:
                msg = '%d key(s) created in births_ but %d birth(s) registered in the ordering' % (c['INSERT'], c['ADD'])
            elif c['ERASE'] != c['REMOVE']:
                msg = '%d erasure(s) from births_ but %d remove_birth' % (c['ERASE'], c['REMOVE'])
            elif c['STREAM'] != c['ERASE']:
                msg = '%d interval(s) streamed but %d birth(s) retired' % (c['STREAM'], c['ERASE'])
            elif max(c.values()) > 1:
                msg = 'more than one bookkeeping event of a kind on one arrow: %s' % c
            else:
                ev = {t: node for t, node in p.events if t in tot}
                if 'INSERT' in ev:
                    val = ir.show(ev['INSERT']['c'][-1])
                    arg = ir.show(ir.call_args(ev['ADD'])[0])
                    if val != arg:
                        msg = 'births_ records %s but the ordering registers %s' % (val, arg)
                if 'STREAM' in ev and msg is None:
                    sb = ir.show(ir.call_args(ev['STREAM'])[1])
                    rb = ir.show(ir.call_args(ev['REMOVE'])[0])
                    if sb != rb:
                        msg = 'the interval reports birth %s but birth %s is removed from the ordering' % (sb, rb)
            if msg and bad is None:
                bad = (p, msg)
        chk.ob('E2n-births', '%s keeps births_ and the birth ordering in lock step on every path' % name, where,
               bad is None, '' if bad is None else '%s [decisions: %s]' % (
                   bad[1], '; '.join(('' if pol else '!') + ir.show(c)[:50] for c, pol, _ in bad[0].conds
                                     if not isinstance(c, tuple))[:200]), key='E2n|%s|lockstep' % name)
        chk.count('events in %s' % name, sum(tot.values()))
        if sum(tot.values()) == 0:
            raise AnalysisBroken('C07: no bookkeeping event found in %s' % name)
    chk.count('arrow paths analysed', n)
    # the diamond consults the ordering through reverse_birth_order
    fs = [f for f in F.functions if f['name'] == '_apply_surjective_reflection_diamond' and f['inst'] in (0, 2)]
    uses = ir.contains(fs[0]['body'], lambda x: ir.is_call(x) and ir.call_name(x) == 'reverse_birth_order')
    chk.ob('E2n-births', 'the diamond orders the available births with reverse_birth_order', '%s:%d' % (H, fs[0]['line']),
           uses, '' if uses else 'the comparator of availableBirth no longer consults the birth ordering',
           key='E2n|diamond|uses-ordering')
    chk.assumptions += ['clang 14 parser', 'births_[k] = v creates a key, births_.at(k) = v updates one']
    return chk

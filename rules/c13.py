"""C13 cubical complexes: the filtration order clause (total, value first, faces first, schedule independent)."""
from gsa import cmprules, facts, ir, paths
from gsa.facts import Unit, rel, AnalysisBroken
from gsa.report import Check

MATCH = ['src/Bitmap_cubical_complex/']
UNITS = [Unit('misc_tbb', 'misc_pat.cpp', MATCH, defines=['-DGUDHI_USE_TBB'], no_inst=True),
         Unit('misc_seq', 'misc_pat.cpp', MATCH, no_inst=True)]

KEYS = ['CC_->data[@]', 'CC_->get_dimension_of_a_cell(@)', '@']


def run_boundary_alternation(chk, F):
    """boundaries "taken with signs alternating along the enumeration": in get_boundary_of_a_cell (plain and periodic)
    every direction in which the cell is thick contributes exactly two faces and advances the alternation counter
    exactly once on every path; directions in which it is thin contribute nothing; the two parity arms push the same
    two faces in opposite order"""
    n = 0
    for f in F.funcs('get_boundary_of_a_cell', unit='misc_seq'):
        if f['inst'] not in (0, 2) or f.get('body') is None:
            continue
        cnt = None
        for x in ir.walk(f['body']):
            if x.get('k') == 'UnaryOperator' and x.get('op') == '++' and 'sum' in ir.show(x['c'][0]):
                cnt = ir.show(x['c'][0])
        if cnt is None:
            raise AnalysisBroken('C13: alternation counter not found in %s' % f['qual'])
        # direction blocks: the body of the loop over the directions, and the split-out last direction
        blocks = []
        for x in ir.walk(f['body']):
            if x.get('k') == 'ForStmt':
                blocks.append(('loop', x.get('body')))
        top = f['body'].get('c') or []
        for st in top:
            if st.get('k') == 'IfStmt' and ir.contains(st, lambda y: ir.is_call(y) and ir.call_name(y) == 'push_back'):
                blocks.append(('last', st))
        for kind, blk in blocks:
            n += 1

            def cl(x, cnt=cnt):
                if ir.is_call(x) and ir.call_name(x) == 'push_back':
                    return ['PUSH']
                if x.get('k') == 'UnaryOperator' and x.get('op') == '++' and ir.show(x['c'][0]) == cnt:
                    return ['INC']
                return []
            pseudo = {'body': blk, 'name': f['name'], 'file': f['file']}
            ps = paths.enumerate_paths(pseudo, cl, loop_mode='01', keep_conds=True)
            bad = None
            for p in ps:
                tags = p.tags()
                pu, inc = tags.count('PUSH'), tags.count('INC')
                if not ((pu == 2 and inc == 1) or (pu == 0 and inc == 0)) and bad is None:
                    bad = (pu, inc, p)
            chk.ob('E2n-alternation', '%s::get_boundary_of_a_cell (%s direction block): two faces and one step of the '
                   'sign counter per thick direction' % (f.get('clsname'), kind), '%s:%s' % (rel(f['file']), blk.get('l')),
                   bad is None, '' if bad is None else 'a path pushes %d faces and advances %s %d times [decisions: %s]'
                   % (bad[0], cnt, bad[1], '; '.join(('' if pol else '!') + ir.show(c)[:50] for c, pol, _ in
                                                      bad[2].conds if not isinstance(c, tuple))[:200]),
                   key='E2n|%s::get_boundary_of_a_cell|%s|alternation' % (f.get('clsname'), kind))
            # parity arms: same two faces, opposite order
            for ifs in ir.walk(blk):
                if ifs.get('k') == 'IfStmt' and ir.show(ifs.get('cond')).replace(' ', '') in ('(%s%%2)' % cnt,):
                    a = [ir.show(ir.call_args(y)[0]) for y in ir.walk(ifs.get('then')) if ir.is_call(y) and
                         ir.call_name(y) == 'push_back']
                    b = [ir.show(ir.call_args(y)[0]) for y in ir.walk(ifs.get('else')) if ir.is_call(y) and
                         ir.call_name(y) == 'push_back']
                    ok = len(a) == 2 and a == list(reversed(b))
                    chk.ob('E2n-alternation', '%s::get_boundary_of_a_cell: the parity arms push the same two faces in '
                           'opposite order' % f.get('clsname'), '%s:%s' % (rel(f['file']), ifs.get('l')), ok,
                           '' if ok else 'odd arm pushes %s, even arm pushes %s' % (a, b),
                           key='E2n|%s::get_boundary_of_a_cell|parity-arms|%s' % (f.get('clsname'), a[0][:30] if a else ''))
    chk.expect_count('E2n-alternation', 'direction blocks', n, 3)


def run_fill_values(chk, F):
    """lower-star values are a min over top cells (max over vertices): the value every other cell starts from must be
    the neutral element, +infinity for the min and -infinity for the max, in the plain and in the periodic class"""
    fs = [f for f in F.funcs('set_up_containers', unit='misc_seq') if f['inst'] in (0, 2)]
    if len(fs) < 2:
        raise AnalysisBroken('C13: set_up_containers of the two cubical classes not found')
    for f in fs:
        fills = {}
        for ifs in ir.walk(f['body']):
            if ifs.get('k') == 'IfStmt' and ir.show(ifs.get('cond')) == 'is_pos_inf':
                for pol, arm in ((True, ifs.get('then')), (False, ifs.get('else'))):
                    t = ' '.join(ir.show(y) for y in ir.walk(arm))
                    fills[pol] = t
        ok = True
        why = ''
        if set(fills) != {True, False}:
            ok, why = False, 'the two fill arms on is_pos_inf were not found'
        else:
            pos_ok = 'infinity()' in fills[True] and '-infinity()' not in fills[True]
            neg_ok = '-infinity()' in fills[False]
            ok = pos_ok and neg_ok
            why = '' if ok else 'fill for the min-propagation: %s ; for the max-propagation: %s' % (
                fills[True][:90], fills[False][:90])
        chk.ob('E7-fill-value', '%s::set_up_containers fills the bitmap with the neutral element of the propagation '
               '(+inf for min over top cells, -inf for max over vertices)' % f.get('clsname'),
               '%s:%d' % (rel(f['file']), f['line']), ok, why, key='E7|%s::set_up_containers|fill' % f.get('clsname'))


def _conjuncts(c):
    c = ir.skipcasts(c)
    while c is not None and c.get('k') == 'ParenExpr' and c.get('c'):
        c = ir.skipcasts(c['c'][0])
    if c is not None and c.get('k') == 'BinaryOperator' and c.get('op') == '&&':
        return _conjuncts(c['c'][0]) + _conjuncts(c['c'][1])
    return [c] if c is not None else []


def run_coboundary_bounds(chk, F):
    """coboundary = converse of the boundary on the (non-periodic) grid: a cell that is thin in direction d has the
    coface `cell - multipliers[d]` unless its coordinate in that direction is 0, and the coface
    `cell + multipliers[d]` unless the coordinate is the last one, 2 * sizes[d]. Every path of
    get_coboundary_of_a_cell that pushes a coface has established the corresponding coordinate test for the same
    direction (a test on the flat index alone, `cell + m < data.size()`, only bounds the outermost direction)."""
    import re
    fs = [f for f in F.funcs('get_coboundary_of_a_cell', unit='misc_seq')
          if f['file'].endswith('Bitmap_cubical_complex_base.h') and f.get('body') is not None]
    if len(fs) != 1:
        raise AnalysisBroken('C13: Bitmap_cubical_complex_base::get_coboundary_of_a_cell not found')
    f = fs[0]

    def cl(x):
        if ir.is_call(x) and ir.call_name(x) in ('push_back', 'emplace_back') and ir.call_args(x):
            t = ir.show(ir.call_args(x)[0]).replace('this->', '').replace(' ', '')
            m = re.match(r'^\(?cell([+-])(?:multipliers\[(.+)\]|1)\)?$', t)
            if m:
                return ['PUSH:%s:%s' % (m.group(1), m.group(2) if m.group(2) is not None else '0')]
            return ['PUSH:?:%s' % t]
        return []
    ps = paths.enumerate_paths(f, cl, loop_mode='1', keep_conds=True, cap=20000)
    n = 0
    bad = None
    for p in ps:
        true_conj = []
        for c, pol, cx in p.conds:
            if isinstance(c, tuple) or not pol:
                continue
            true_conj += [ir.show(y).replace('this->', '').replace(' ', '') for y in _conjuncts(c)]
        for t in p.tags():
            if not t.startswith('PUSH:'):
                continue
            _, sign, d = t.split(':', 2)
            n += 1
            if sign == '?':
                bad = bad or ('a coface of unknown form is pushed: %s' % d)
                continue
            if sign == '+':
                ok = any(re.search(r'!=\(?2\*sizes\[%s\]' % re.escape(d), cj) or
                         re.search(r'<\(?2\*sizes\[%s\]' % re.escape(d), cj) for cj in true_conj)
                why = 'cell + multipliers[%s] is pushed on a path that never compares the coordinate with ' \
                      '2 * sizes[%s]' % (d, d)
            else:
                def coord_nonzero(cj):
                    m = re.match(r'^\(?(.+?)(?:!=|>)0\)?$', cj)
                    return bool(m) and m.group(1).strip('()') not in ('cell',)
                ok = any(coord_nonzero(cj) for cj in true_conj)
                why = 'cell - multipliers[%s] is pushed on a path that never compares the coordinate with 0' % d
            if not ok and bad is None:
                bad = why
    chk.count('coboundary pushes checked on paths', n)
    if n < 4:
        raise AnalysisBroken('C13: only %d coface pushes found in get_coboundary_of_a_cell' % n)
    chk.ob('E2g-coboundary-bounds', 'Bitmap_cubical_complex_base::get_coboundary_of_a_cell: every coface is pushed '
           'under the coordinate test of its direction', '%s:%d' % (rel(f['file']), f['line']), bad is None,
           bad or '', key='E2g|Bitmap_cubical_complex_base::get_coboundary_of_a_cell|bounds')


def run(tier, replay=None):
    chk = Check('C13', tier,
                'Static decision of the filtration-order clause of the cubical complex: the comparator handed to the '
                'sort equals, on all 27 valuations of its three comparison keys, the lexicographic strict order '
                '(filtration value, dimension, cell index) - value first gives a non-decreasing order, dimension '
                'second puts a face before a coface of equal value, the cell index last makes it total, so the '
                'sequential and the TBB build return one sequence; both build configurations sort the same range '
                'with that comparator, and the comparator writes nothing. Boundaries, incidences and lower-star '
                'values are not decided.',
                'finite predicate enumeration over the comparator AST (E9), sibling-arm agreement (E7b), purity (E6b)')
    F = facts.extract(UNITS)
    sorts = {}
    for unit in ('misc_tbb', 'misc_seq'):
        comps = [f for f in F.funcs('operator()', unit=unit) if f.get('clsname') == 'is_before_in_filtration'
                 and f['file'].endswith('Bitmap_cubical_complex.h')]
        if len(comps) != 1:
            raise AnalysisBroken('C13: comparator is_before_in_filtration::operator() not found in %s' % unit)
        inits = [f for f in F.funcs('initialize_filtration', unit=unit) if f['file'].endswith('Bitmap_cubical_complex.h')]
        if len(inits) != 1:
            raise AnalysisBroken('C13: initialize_filtration not found in %s' % unit)
        if unit == 'misc_tbb':
            cmprules.check_cascade(chk, 'E9-order', comps[0], KEYS, '@', name='cubical is_before_in_filtration')
            cmprules.check_pure(chk, 'E6b-pure', comps[0], name='cubical is_before_in_filtration')
        sc = cmprules.sort_calls(inits[0])
        chk.ob('E7b-sort-arms', 'initialize_filtration (%s) sorts exactly once' % unit,
               '%s:%d' % (rel(inits[0]['file']), inits[0]['line']), len(sc) == 1,
               '' if len(sc) == 1 else '%d sort calls found' % len(sc), key='E7b|cubical|%s|one-sort' % unit)
        if len(sc) == 1:
            args = [cmprules.norm_range_arg(ir.show(a)) for a in ir.call_args(sc[0])]
            sorts[unit] = (ir.call_name(sc[0]), args, sc[0])
            cmprules.check_whole_range(chk, 'E7b-sort-arms', sc[0], '%s:%s' % (rel(inits[0]['file']), sc[0].get('l')),
                                       'E7b|cubical|%s|whole-range' % unit, 'initialize_filtration (%s)' % unit)
    if len(sorts) == 2:
        (n1, a1, s1), (n2, a2, s2) = sorts['misc_tbb'], sorts['misc_seq']
        same = a1 == a2
        chk.ob('E7b-sort-arms', 'TBB arm (%s) and sequential arm (%s) sort the same range with the same comparator'
               % (n1, n2), 'src/Bitmap_cubical_complex/include/gudhi/Bitmap_cubical_complex.h:%s' % s1.get('l'), same,
               '' if same else 'arguments differ: %s vs %s' % (a1, a2), key='E7b|cubical|same-args')
        comp_ok = all('is_before_in_filtration' in a[2] for a in (a1, a2) if len(a) == 3)
        chk.ob('E7b-sort-arms', 'both arms pass the checked comparator is_before_in_filtration',
               'src/Bitmap_cubical_complex/include/gudhi/Bitmap_cubical_complex.h:%s' % s1.get('l'), comp_ok,
               '' if comp_ok else 'comparator arguments: %s / %s' % (a1[-1:], a2[-1:]), key='E7b|cubical|comparator')
    run_boundary_alternation(chk, F)
    run_fill_values(chk, F)
    run_coboundary_bounds(chk, F)
    chk.assumptions += ['filtration values obey trichotomy (no NaN), as the property states',
                        'clang 14 parser; both preprocessor configurations parsed']
    return chk

"""C13 cubical complexes: the filtration order clause (total, value first, faces first, schedule independent)."""
from gsa import cmprules, facts, ir
from gsa.facts import Unit, rel, AnalysisBroken
from gsa.report import Check

MATCH = ['src/Bitmap_cubical_complex/']
UNITS = [Unit('misc_tbb', 'misc_pat.cpp', MATCH, defines=['-DGUDHI_USE_TBB'], no_inst=True),
         Unit('misc_seq', 'misc_pat.cpp', MATCH, no_inst=True)]

KEYS = ['CC_->data[@]', 'CC_->get_dimension_of_a_cell(@)', '@']


def run(tier, replay=None):
    chk = Check('C13', tier,
                'Static decision of the filtration-order clause of the cubical complex: the comparator handed to the '
                'sort equals, on all 27 valuations of its three comparison keys, the lexicographic strict order '
                '(filtration value, dimension, cell index) - value first gives a non-decreasing order, dimension '
                'second puts a face before a coface of equal value, the cell index last makes it total, so the '
                'sequential and the TBB build return one sequence; both build configurations sort the same range '
                'with that comparator, and the comparator writes nothing. Boundaries, incidences and lower-star '
                'values are not decided.',
                'finite predicate enumeration over the comparator AST (E9), sibling-arm agreement (E7b), purity (E6b)')
    F = facts.extract(UNITS)
    sorts = {}
    for unit in ('misc_tbb', 'misc_seq'):
        comps = [f for f in F.funcs('operator()', unit=unit) if f.get('clsname') == 'is_before_in_filtration'
                 and f['file'].endswith('Bitmap_cubical_complex.h')]
        if len(comps) != 1:
            raise AnalysisBroken('C13: comparator is_before_in_filtration::operator() not found in %s' % unit)
        inits = [f for f in F.funcs('initialize_filtration', unit=unit) if f['file'].endswith('Bitmap_cubical_complex.h')]
        if len(inits) != 1:
            raise AnalysisBroken('C13: initialize_filtration not found in %s' % unit)
        if unit == 'misc_tbb':
            cmprules.check_cascade(chk, 'E9-order', comps[0], KEYS, '@', name='cubical is_before_in_filtration')
            cmprules.check_pure(chk, 'E6b-pure', comps[0], name='cubical is_before_in_filtration')
        sc = cmprules.sort_calls(inits[0])
        chk.ob('E7b-sort-arms', 'initialize_filtration (%s) sorts exactly once' % unit,
               '%s:%d' % (rel(inits[0]['file']), inits[0]['line']), len(sc) == 1,
               '' if len(sc) == 1 else '%d sort calls found' % len(sc), key='E7b|cubical|%s|one-sort' % unit)
        if len(sc) == 1:
            args = [ir.show(a) for a in ir.call_args(sc[0])]
            sorts[unit] = (ir.call_name(sc[0]), args, sc[0])
    if len(sorts) == 2:
        (n1, a1, s1), (n2, a2, s2) = sorts['misc_tbb'], sorts['misc_seq']
        same = a1 == a2
        chk.ob('E7b-sort-arms', 'TBB arm (%s) and sequential arm (%s) sort the same range with the same comparator'
               % (n1, n2), 'src/Bitmap_cubical_complex/include/gudhi/Bitmap_cubical_complex.h:%s' % s1.get('l'), same,
               '' if same else 'arguments differ: %s vs %s' % (a1, a2), key='E7b|cubical|same-args')
        comp_ok = all('is_before_in_filtration' in a[2] for a in (a1, a2) if len(a) == 3)
        chk.ob('E7b-sort-arms', 'both arms pass the checked comparator is_before_in_filtration',
               'src/Bitmap_cubical_complex/include/gudhi/Bitmap_cubical_complex.h:%s' % s1.get('l'), comp_ok,
               '' if comp_ok else 'comparator arguments: %s / %s' % (a1[-1:], a2[-1:]), key='E7b|cubical|comparator')
    chk.assumptions += ['filtration values obey trichotomy (no NaN), as the property states',
                        'clang 14 parser; both preprocessor configurations parsed']
    return chk

"""C13 cubical complexes: the filtration order clause (total, value first, faces first, schedule independent)."""
import re

from gsa import cmprules, facts, ir, paths
from gsa.facts import Unit, rel, AnalysisBroken
from gsa.report import Check
from rules import c09

MATCH = ['src/Bitmap_cubical_complex/']
UNITS = [Unit('misc_tbb', 'misc_pat.cpp', MATCH, defines=['-DGUDHI_USE_TBB'], no_inst=True),
         Unit('misc_seq', 'misc_pat.cpp', MATCH, no_inst=True)]

KEYS = ['CC_->data[@]', 'CC_->get_dimension_of_a_cell(@)', '@']


def run_boundary_alternation(chk, F):
    """boundaries "taken with signs alternating along the enumeration": in get_boundary_of_a_cell (plain and periodic)
    every direction in which the cell is thick contributes exactly two faces and advances the alternation counter
    exactly once on every path; directions in which it is thin contribute nothing; the two parity arms push the same
    two faces in opposite order"""
    n = 0
    for f in F.funcs('get_boundary_of_a_cell', unit='misc_seq'):
        if f['inst'] not in (0, 2) or f.get('body') is None:
            continue
        cnt = None
        for x in ir.walk(f['body']):
            if x.get('k') == 'UnaryOperator' and x.get('op') == '++' and 'sum' in ir.show(x['c'][0]):
                cnt = ir.show(x['c'][0])
        if cnt is None:
            raise AnalysisBroken('C13: alternation counter not found in %s' % f['qual'])
        # direction blocks: the body of the loop over the directions, and the split-out last direction
        blocks = []
        for x in ir.walk(f['body']):
            if x.get('k') == 'ForStmt':
                blocks.append(('loop', x.get('body')))
        top = f['body'].get('c') or []
        for st in top:
            if st.get('k') == 'IfStmt' and ir.contains(st, lambda y: ir.is_call(y) and ir.call_name(y) == 'push_back'):
                blocks.append(('last', st))
        for kind, blk in blocks:
            n += 1

            def cl(x, cnt=cnt):
                if ir.is_call(x) and ir.call_name(x) == 'push_back':
                    return ['PUSH']
                if x.get('k') == 'UnaryOperator' and x.get('op') == '++' and ir.show(x['c'][0]) == cnt:
                    return ['INC']
                return []
            pseudo = {'body': blk, 'name': f['name'], 'file': f['file']}
            ps = paths.enumerate_paths(pseudo, cl, loop_mode='01', keep_conds=True)
            bad = None
            unordered = None
            for p in ps:
                tags = p.tags()
                pu, inc = tags.count('PUSH'), tags.count('INC')
                if not ((pu == 2 and inc == 1) or (pu == 0 and inc == 0)) and bad is None:
                    bad = (pu, inc, p)
                # the order of the two faces is the sign: it is chosen by the parity of the counter on every path
                parity = False
                for tag, node in p.events:
                    if tag == '?' and not isinstance(node[0], tuple) and \
                            (cnt + '%2') in ir.show(node[0]).replace(' ', ''):
                        parity = True
                    elif tag == 'PUSH' and not parity and unordered is None:
                        unordered = node
            chk.ob('E2n-alternation', '%s::get_boundary_of_a_cell (%s direction block): two faces and one step of the '
                   'sign counter per thick direction' % (f.get('clsname'), kind), '%s:%s' % (rel(f['file']), blk.get('l')),
                   bad is None, '' if bad is None else 'a path pushes %d faces and advances %s %d times [decisions: %s]'
                   % (bad[0], cnt, bad[1], '; '.join(('' if pol else '!') + ir.show(c)[:50] for c, pol, _ in
                                                      bad[2].conds if not isinstance(c, tuple))[:200]),
                   key='E2n|%s::get_boundary_of_a_cell|%s|alternation' % (f.get('clsname'), kind))
            chk.ob('E2n-alternation', '%s::get_boundary_of_a_cell (%s direction block): the order of the two faces is '
                   'chosen by the parity of the sign counter on every path' % (f.get('clsname'), kind),
                   '%s:%s' % (rel(f['file']), blk.get('l')), unordered is None,
                   '' if unordered is None else 'line %s: `%s` is pushed on a path that never looked at `%s %% 2`: the '
                   'faces of this direction always come in the same order, the signs no longer alternate with the '
                   'dimensions before it (the boundary of a boundary is not zero)' % (
                       unordered.get('l'), ir.show(unordered)[:60], cnt),
                   key='E2n|%s::get_boundary_of_a_cell|%s|parity-chosen' % (f.get('clsname'), kind))
            # parity arms: same two faces, opposite order
            for ifs in ir.walk(blk):
                if ifs.get('k') == 'IfStmt' and ir.show(ifs.get('cond')).replace(' ', '') in ('(%s%%2)' % cnt,):
                    a = [ir.show(ir.call_args(y)[0]) for y in ir.walk(ifs.get('then')) if ir.is_call(y) and
                         ir.call_name(y) == 'push_back']
                    b = [ir.show(ir.call_args(y)[0]) for y in ir.walk(ifs.get('else')) if ir.is_call(y) and
                         ir.call_name(y) == 'push_back']
                    ok = len(a) == 2 and a == list(reversed(b))
                    chk.ob('E2n-alternation', '%s::get_boundary_of_a_cell: the parity arms push the same two faces in '
                           'opposite order' % f.get('clsname'), '%s:%s' % (rel(f['file']), ifs.get('l')), ok,
                           '' if ok else 'odd arm pushes %s, even arm pushes %s' % (a, b),
                           key='E2n|%s::get_boundary_of_a_cell|parity-arms|%s' % (f.get('clsname'), a[0][:30] if a else ''))
    chk.expect_count('E2n-alternation', 'direction blocks', n, 3)


def run_fill_values(chk, F):
    """lower-star values are a min over top cells (max over vertices): the value every other cell starts from must be
    the neutral element, +infinity for the min and -infinity for the max, in the plain and in the periodic class"""
    fs = [f for f in F.funcs('set_up_containers', unit='misc_seq') if f['inst'] in (0, 2)]
    if len(fs) < 2:
        raise AnalysisBroken('C13: set_up_containers of the two cubical classes not found')
    for f in fs:
        fills = {}
        for ifs in ir.walk(f['body']):
            if ifs.get('k') == 'IfStmt' and ir.show(ifs.get('cond')) == 'is_pos_inf':
                for pol, arm in ((True, ifs.get('then')), (False, ifs.get('else'))):
                    t = ' '.join(ir.show(y) for y in ir.walk(arm))
                    fills[pol] = t
        ok = True
        why = ''
        if set(fills) != {True, False}:
            ok, why = False, 'the two fill arms on is_pos_inf were not found'
        else:
            pos_ok = 'infinity()' in fills[True] and '-infinity()' not in fills[True]
            neg_ok = '-infinity()' in fills[False]
            ok = pos_ok and neg_ok
            why = '' if ok else 'fill for the min-propagation: %s ; for the max-propagation: %s' % (
                fills[True][:90], fills[False][:90])
        chk.ob('E7-fill-value', '%s::set_up_containers fills the bitmap with the neutral element of the propagation '
               '(+inf for min over top cells, -inf for max over vertices)' % f.get('clsname'),
               '%s:%d' % (rel(f['file']), f['line']), ok, why, key='E7|%s::set_up_containers|fill' % f.get('clsname'))


def _conjuncts(c):
    c = ir.skipcasts(c)
    while c is not None and c.get('k') == 'ParenExpr' and c.get('c'):
        c = ir.skipcasts(c['c'][0])
    if c is not None and c.get('k') == 'BinaryOperator' and c.get('op') == '&&':
        return _conjuncts(c['c'][0]) + _conjuncts(c['c'][1])
    return [c] if c is not None else []


def run_coboundary_bounds(chk, F):
    """coboundary = converse of the boundary on the (non-periodic) grid: a cell that is thin in direction d has the
    coface `cell - multipliers[d]` unless its coordinate in that direction is 0, and the coface
    `cell + multipliers[d]` unless the coordinate is the last one, 2 * sizes[d]. Every path of
    get_coboundary_of_a_cell that pushes a coface has established the corresponding coordinate test for the same
    direction (a test on the flat index alone, `cell + m < data.size()`, only bounds the outermost direction)."""
    import re
    fs = [f for f in F.funcs('get_coboundary_of_a_cell', unit='misc_seq')
          if f['file'].endswith('Bitmap_cubical_complex_base.h') and f.get('body') is not None]
    if len(fs) != 1:
        raise AnalysisBroken('C13: Bitmap_cubical_complex_base::get_coboundary_of_a_cell not found')
    f = fs[0]

    def cl(x):
        if ir.is_call(x) and ir.call_name(x) in ('push_back', 'emplace_back') and ir.call_args(x):
            t = ir.show(ir.call_args(x)[0]).replace('this->', '').replace(' ', '')
            m = re.match(r'^\(?cell([+-])(?:multipliers\[(.+)\]|1)\)?$', t)
            if m:
                return ['PUSH:%s:%s' % (m.group(1), m.group(2) if m.group(2) is not None else '0')]
            return ['PUSH:?:%s' % t]
        return []
    ps = paths.enumerate_paths(f, cl, loop_mode='1', keep_conds=True, cap=20000)
    n = 0
    bad = None
    for p in ps:
        true_conj = []
        for c, pol, cx in p.conds:
            if isinstance(c, tuple) or not pol:
                continue
            true_conj += [ir.show(y).replace('this->', '').replace(' ', '') for y in _conjuncts(c)]
        for t in p.tags():
            if not t.startswith('PUSH:'):
                continue
            _, sign, d = t.split(':', 2)
            n += 1
            if sign == '?':
                bad = bad or ('a coface of unknown form is pushed: %s' % d)
                continue
            if sign == '+':
                ok = any(re.search(r'!=\(?2\*sizes\[%s\]' % re.escape(d), cj) or
                         re.search(r'<\(?2\*sizes\[%s\]' % re.escape(d), cj) for cj in true_conj)
                why = 'cell + multipliers[%s] is pushed on a path that never compares the coordinate with ' \
                      '2 * sizes[%s]' % (d, d)
            else:
                def coord_nonzero(cj):
                    m = re.match(r'^\(?(.+?)(?:!=|>)0\)?$', cj)
                    return bool(m) and m.group(1).strip('()') not in ('cell',)
                ok = any(coord_nonzero(cj) for cj in true_conj)
                why = 'cell - multipliers[%s] is pushed on a path that never compares the coordinate with 0' % d
            if not ok and bad is None:
                bad = why
    chk.count('coboundary pushes checked on paths', n)
    if n < 4:
        raise AnalysisBroken('C13: only %d coface pushes found in get_coboundary_of_a_cell' % n)
    chk.ob('E2g-coboundary-bounds', 'Bitmap_cubical_complex_base::get_coboundary_of_a_cell: every coface is pushed '
           'under the coordinate test of its direction', '%s:%d' % (rel(f['file']), f['line']), bad is None,
           bad or '', key='E2g|Bitmap_cubical_complex_base::get_coboundary_of_a_cell|bounds')


def run_reader_bounds(chk, F):
    """E5w-bounded-fill: "built from top-cell values": the Perseus readers store one value per top dimensional cell
    through an iterator while a stream lasts. In every loop driven by the stream (condition or body extracts from it)
    a store `get_cell_data(*it) = v` is preceded, in the same iteration, by a test that leaves the loop (throw /
    break / return) when the iterator is at the end of the cells - directly, or through a counter advanced in step
    with it. A loop that only tests eof() also tests the stream before it uses a value extracted with operator>>
    (a failed extraction never reaches the end of the file)."""
    n = 0
    seen = set()
    for f in F.functions:
        if f.get('inst') not in (0, 2) or f.get('body') is None or 'Bitmap_cubical_complex' not in f['file']:
            continue
        if (f['file'], f['line']) in seen:
            continue
        for lp in ir.walk(f['body']):
            if lp.get('k') not in ('WhileStmt', 'ForStmt', 'DoStmt'):
                continue
            ct = ir.show(lp.get('cond')) if lp.get('cond') is not None else ''
            bt = ' ; '.join(ir.show(x) for x in ir.walk(lp.get('body')) if x.get('k') != 'CompoundStmt')
            stream_driven = 'eof()' in ct or '>>' in ct or 'getline' in ct
            if not stream_driven:
                continue
            writes = []
            for x in ir.walk(lp.get('body')):
                t = ir.write_target(x)
                if t is not None and x.get('op') == '=':
                    tt = ir.skipcasts(t)
                    if tt is not None and ir.is_call(tt) and ir.call_name(tt) == 'get_cell_data' and ir.call_args(tt):
                        a0 = ir.show(ir.call_args(tt)[0]).replace(' ', '').lstrip('(*').rstrip(')')
                        writes.append((x, a0))
            if not writes:
                continue
            seen.add((f['file'], f['line']))
            # counters advanced in the same compound statement as the iterator
            order = {id(x): i for i, x in enumerate(ir.walk(lp.get('body')))}
            for w, it in writes:
                n += 1
                step = set()
                for cs in ir.walk(lp.get('body')):
                    if cs.get('k') != 'CompoundStmt':
                        continue
                    incs = [ir.show(ir.skipcasts(y['c'][0])) for y in cs.get('c') or []
                            if y.get('k') == 'UnaryOperator' and y.get('op') == '++']
                    if it in incs:
                        step.update(incs)
                step.add(it)
                guard = None
                for g in ir.walk(lp.get('body')):
                    if g.get('k') != 'IfStmt' or order[id(g)] > order[id(w)]:
                        continue
                    gt = ir.show(g.get('cond'))
                    leaves = ir.contains(g.get('then'), lambda y: y.get('k') in ('CXXThrowExpr', 'BreakStmt',
                                                                                 'ReturnStmt'))
                    names = set(re.findall(r'\w+', gt))
                    if leaves and (names & step) and ('==' in gt or '>=' in gt or '!=' in gt or '>' in gt):
                        if it in names and '_end()' not in gt and 'end()' not in gt:
                            continue
                        guard = g
                        break
                chk.ob('E5w-bounded-fill', '%s: the store through `%s` in the stream loop at line %s is preceded by a '
                       'test that leaves the loop at the end of the cells' % (f['name'], it, lp.get('l')),
                       '%s:%s' % (rel(f['file']), w.get('l')), guard is not None,
                       '' if guard is not None else 'no test of `%s` (or of a counter advanced with it) against the '
                       'number of cells precedes the store: a file with more values than cells writes past the bitmap'
                       % it, key='E5w|%s|bounded-fill' % f['name'])
                extracts = '>>' in bt and 'getline' not in bt
                if 'eof()' in ct and '>>' not in ct and extracts:
                    tested = any(g.get('k') == 'IfStmt' and order[id(g)] < order[id(w)] and
                                 re.search(r'fail\(\)|!\s*\w+\b(?!\.)|\.good\(\)', ir.show(g.get('cond')))
                                 and 'eof' not in ir.show(g.get('cond')) for g in ir.walk(lp.get('body')))
                    chk.ob('E5w-bounded-fill', '%s: the loop at line %s tests the stream before it uses a value '
                           'extracted with operator>>' % (f['name'], lp.get('l')), '%s:%s' % (rel(f['file']),
                           lp.get('l')), tested, '' if tested else 'the loop only tests eof(): an extraction that '
                           'fails (e.g. on "inf") never reaches the end of the file and the body keeps storing',
                           key='E5w|%s|stream-progress' % f['name'])
    chk.expect_count('E5w-bounded-fill', 'stores through an iterator in stream-driven loops', n, 2)


SCAN_TYPES = {'lf': ('double',), 'f': ('float',), 'd': ('int',), 'i': ('int',), 'u': ('unsigned int', 'unsigned'),
              'ld': ('long',), 'lu': ('unsigned long', 'std::size_t', 'size_t'), 'zu': ('unsigned long', 'std::size_t',
                                                                                      'size_t')}


def run_scan_types(chk, F):
    """E5w-scan-type: what a scanf conversion writes has the size of the type the conversion names; the object whose
    address is passed has that very type (a `T`, where T is the filtration type of the class template, has it only
    for one T)."""
    n = 0
    for f in F.funcs(unit='misc_seq'):
        if f['inst'] not in (0, 2) or f.get('body') is None or 'Bitmap_cubical_complex' not in f['file']:
            continue
        for x in ir.walk(f['body']):
            if not (ir.is_call(x) and ir.call_name(x) in ('sscanf', 'fscanf', 'scanf')):
                continue
            args = ir.call_args(x)
            fi = [i for i, a in enumerate(args) if (ir.skipcasts(a) or {}).get('k') == 'StringLiteral']
            if not fi:
                raise AnalysisBroken('C13: %s: scanf format is not a literal' % f['name'])
            fmt = ir.skipcasts(args[fi[0]]).get('v')
            convs = [m.group(2) for m in re.finditer(r'%(\*?)\d*(lf|ld|lu|zu|hh?[du]|[a-zA-Z])', fmt) if not m.group(1)]
            targets = args[fi[0] + 1:]
            for cv, t in zip(convs, targets):
                n += 1
                u = ir.skipcasts(t)
                obj = ir.skipcasts(u['c'][0]) if u is not None and u.get('k') == 'UnaryOperator' and u.get('op') == '&' \
                    else None
                ty = (obj or {}).get('t', '').replace('const ', '').strip()
                ok = cv in SCAN_TYPES and ty in SCAN_TYPES[cv]
                chk.ob('E5w-scan-type', '%s::%s: conversion %%%s stores into an object of type %s' % (
                    f.get('clsname'), f['name'], cv, '/'.join(SCAN_TYPES.get(cv, ('?',)))),
                    '%s:%s' % (rel(f['file']), x.get('l')), ok,
                    '' if ok else '`%s` has type `%s`: %%%s writes sizeof(%s) bytes there whatever the template '
                    'argument is' % (ir.show(t)[:40], ty or '?', cv, SCAN_TYPES.get(cv, ('?',))[0]),
                    key='E5w|%s::%s|scan-type' % (f.get('clsname'), f['name']))
    chk.expect_count('E5w-scan-type', 'scanf conversions in the cubical readers', n, 1)


def run_impose_overwrite(chk, F):
    """E2-impose-overwrite: impose_lower_star_filtration* recompute the value of every lower (upper) cell from the top
    cells (vertices): a cell reached for the first time takes the value of the cell it is reached from, whatever it
    held before; only later visits take the min (max). An update guarded by the comparison of the two values alone
    makes the result depend on the former content of the bitmap (a cell keeps a value no top cell has any more; a
    bitmap created with the other fill value is never updated)."""
    n = 0
    for f in F.funcs(unit='misc_seq'):
        if f['inst'] not in (0, 2) or f.get('body') is None or not f['name'].startswith('impose_lower_star_filtration'):
            continue
        par = ir.parents(f['body'])
        for x in ir.walk(f['body']):
            if not (x.get('k') == 'BinaryOperator' and x.get('op') == '='):
                continue
            lt = ir.show(x['c'][0]).replace('this->', '')
            m = re.match(r'data\[(\w+)\]$', lt)
            if not m:
                continue
            cell = m.group(1)
            guard = None
            cur = x
            while id(cur) in par:
                up = par[id(cur)]
                if up.get('k') == 'IfStmt':
                    ct = ir.show(up.get('cond')).replace('this->', '')
                    if ('data[%s]' % cell) in ct:
                        guard = up
                        break
                if up.get('k') in ('ForStmt', 'CXXForRangeStmt', 'WhileStmt'):
                    pass
                cur = up
            n += 1
            if guard is None:
                ok, why = True, ''
            else:
                ct = ir.show(guard.get('cond')).replace('this->', '').replace(' ', '').replace('.operatorbool()', '')
                first = re.search(r'!(\w+)\[%s\]\|\|' % cell, ct) or re.search(r'\(?(\w+)\[%s\]==false\)?\|\|' % cell, ct)
                marks = first is not None and ir.contains(
                    f['body'], lambda y: y.get('k') in ('BinaryOperator', 'CXXOperatorCallExpr') and y.get('op') == '='
                    and ir.show(y).replace(' ', '').strip('()') == '%s[%s]=true' % (first.group(1), cell))
                ok = bool(first) and marks
                why = '' if ok else 'the update `%s` is taken only when `%s`: the value the cell held before decides' % (
                    ir.show(x)[:50], ir.show(guard.get('cond'))[:70])
            chk.ob('E2-impose-overwrite', '%s::%s: the first visit of `%s` overwrites its former value' % (
                f.get('clsname'), f['name'], cell), '%s:%s' % (rel(f['file']), x.get('l')), ok, why,
                key='E2|%s::%s|impose-overwrite' % (f.get('clsname'), f['name']))
    chk.expect_count('E2-impose-overwrite', 'value updates in impose_lower_star_filtration*', n, 2)


def run_zero_side(chk, F):
    """E3-zero-side: the number of top dimensional cells of a side (`sizes[i]`, unsigned) is 0 for a side of one vertex
    given with the vertex convention: a stored `sizes[i] - 1` wraps. A function that stores it has left before, on a
    test `sizes[..] == 0`."""
    n = 0
    for f in F.funcs(unit='misc_seq'):
        if f['inst'] not in (0, 2) or f.get('body') is None or 'Bitmap_cubical_complex_base.h' not in f['file']:
            continue
        for x in ir.walk(f['body']):
            if not (x.get('k') == 'BinaryOperator' and x.get('op') == '='):
                continue
            r = ir.skipcasts(x['c'][1])
            if r is None or r.get('k') != 'BinaryOperator' or r.get('op') != '-':
                continue
            a, b = ir.show(ir.skipcasts(r['c'][0])).replace('this->', ''), ir.skipcasts(r['c'][1])
            if not re.match(r'(\w+->)?sizes\[\w+\]$', a) or b is None or b.get('k') != 'IntegerLiteral':
                continue
            n += 1
            guards = [y for y in ir.walk(f['body']) if y.get('k') == 'IfStmt' and (y.get('l') or 0) < (x.get('l') or 0)
                      and re.search(r'sizes\[\w+\] == 0', ir.show(y.get('cond')).replace('this->', '')) and
                      ir.contains(y.get('then'), lambda z: z.get('k') == 'ReturnStmt')]
            ok = bool(guards)
            chk.ob('E3-zero-side', '%s::%s stores `%s` only after leaving for a side without top dimensional cell' % (
                f.get('clsname'), f['name'], ir.show(r)[:40]), '%s:%s' % (rel(f['file']), x.get('l')), ok,
                '' if ok else 'unsigned `%s` wraps to 2^32 - 1 when the side has no top dimensional cell (one vertex, '
                'vertex convention): the range built from it does not end' % ir.show(r)[:40],
                key='E3|%s::%s|zero-side' % (f.get('clsname'), f['name']))
    chk.expect_count('E3-zero-side', 'stored sizes[i] - 1', n, 1)


def run_incidence_validation(chk, F):
    """E4-incidence-validated: compute_incidence_between_cells announces std::logic_error unless the second cell is a
    codimension 1 face of the first. `position` (the only coordinate where the two counters differ) starts at -1
    ("none"): every path that returns a sign has decided that it is not -1 (equal cells), that the coface is an
    interval there (odd counter) and that the two counters are neighbours there (a `+ 1` comparison of the two)."""
    fs = [f for f in F.funcs('compute_incidence_between_cells', unit='misc_seq') if f['inst'] in (0, 2) and
          f.get('body') is not None]
    if len(fs) < 2:
        raise AnalysisBroken('C13: compute_incidence_between_cells of the two cubical classes not found')
    for f in fs:
        none = [x['n'] for x in ir.walk(f['body']) if x.get('k') == 'VarDecl' and x.get('init') is not None and
                ir.show(ir.skipcasts(x['init'])).replace(' ', '') in ('-1', '(-1)')]
        ctr = [x['n'] for x in ir.walk(f['body']) if x.get('k') == 'VarDecl' and x.get('init') is not None and
               'compute_counter_for_given_cell' in ir.show(x['init'])]
        if len(none) != 1 or len(ctr) != 2:
            raise AnalysisBroken('C13: compute_incidence_between_cells: position / counters not recognised')
        pos, (co, fa) = none[0], ctr

        def cl(x):
            return []
        ps = paths.enumerate_paths(f, cl, loop_mode='01', keep_conds=True, cap=60000)
        bad = None
        nret = 0
        for p in ps:
            if p.end == 'throw':
                continue
            nret += 1
            has_none = odd = adj = False
            for c, pol, _ in p.conds:
                if isinstance(c, tuple) or c.get('k') in ('ForStmt', 'CXXForRangeStmt', 'WhileStmt'):
                    continue
                t = ir.show(c).replace(' ', '').replace('this->', '')
                if re.search(r'%s[!=]=\(?-1' % pos, t):
                    has_none = True
                if ('%s[%s]%%2' % (co, pos)) in t:
                    odd = True
                if ('%s[%s]' % (co, pos)) in t and ('%s[%s]' % (fa, pos)) in t and '+1' in t:
                    adj = True
            if not (has_none and odd and adj) and bad is None:
                bad = (p, has_none, odd, adj)
        if nret == 0:
            raise AnalysisBroken('C13: compute_incidence_between_cells never returns')
        chk.ob('E4-incidence-validated', '%s::compute_incidence_between_cells returns a sign only for a checked '
               'coface/face pair (%d returning paths)' % (f.get('clsname'), nret), '%s:%d' % (rel(f['file']), f['line']),
               bad is None, '' if bad is None else 'a path returns %s: the documented std::logic_error is not raised '
               '(and `%s[%s]` is read with %s == -1 for equal cells)' % (', '.join(w for w, v in (
                   ('without testing `%s` against -1' % pos, bad[1]), ('without the parity test of the coface', bad[2]),
                   ('without comparing the two counters as neighbours', bad[3])) if not v), co, pos, pos),
               key='E4|%s::compute_incidence_between_cells|validated' % f.get('clsname'))


def run_direction_agreement(chk, F):
    """E11-direction-agreement: in the recursive propagation from the vertices a loop walks the positions of *one*
    direction: the direction whose size bounds the loop (`sizes[d]`) is the direction whose stride advances the position
    (`multipliers[d]`) - with the bound of another direction some cells of a non-cubic grid are never visited (they keep
    the fill value) or positions outside the bitmap are read."""
    n = 0
    for f in F.funcs(unit='misc_seq'):
        if f['inst'] not in (0, 2) or f.get('body') is None or 'Bitmap_cubical_complex' not in f['file']:
            continue
        for lp in ir.walk(f['body']):
            if lp.get('k') != 'ForStmt':
                continue
            mb = re.search(r'sizes\[(\w+)\]', ir.show(lp.get('cond')).replace('this->', ''))
            strides = set(re.findall(r'multipliers\[(\w+)\]', ir.show(lp.get('body')).replace('this->', '')))
            var = None
            init = lp.get('init')
            if init is not None and init.get('k') == 'DeclStmt' and init.get('decls'):
                var = init['decls'][0].get('n')
            if not mb or not strides or var is None or not re.search(r'multipliers\[\w+\][^;]*\b%s\b' % var,
                                                                     ir.show(lp.get('body')).replace('this->', '')):
                continue
            n += 1
            ok = strides == {mb.group(1)}
            chk.ob('E11-direction-agreement', '%s::%s: the loop bounded by sizes[%s] advances with multipliers[%s]' % (
                f.get('clsname'), f['name'], mb.group(1), '/'.join(sorted(strides))), '%s:%s' % (rel(f['file']), lp.get('l')),
                ok, '' if ok else 'the bound is the size of direction `%s`, the stride the one of direction `%s`' % (
                    mb.group(1), '/'.join(sorted(strides))),
                key='E11|%s::%s|direction-agreement|%s' % (f.get('clsname'), f['name'], '/'.join(sorted(strides))))
    chk.expect_count('E11-direction-agreement', 'loops over one direction with a stride', n, 2)


def run_order_recomputed(chk, F):
    """E2-order-recomputed: `initialize_filtration()` of the cubical wrapper is the function the user calls after
    changing values ("call it only if you are putting the filtration of the cells by your own"): every path through it
    reaches the sort - no early exit on the state of the cache, whose size says nothing about the values."""
    fs = [f for f in F.funcs('initialize_filtration', unit='misc_seq') if f['file'].endswith('Bitmap_cubical_complex.h')
          and f.get('body') is not None]
    if not fs:
        raise AnalysisBroken('C13: initialize_filtration not found')
    f = fs[0]

    def cl(x):
        if ir.is_call(x) and (ir.call_name(x) or '') in ('sort', 'parallel_sort', 'stable_sort'):
            return ['SORT']
        return []
    ps = [p_ for p_ in paths.enumerate_paths(f, cl, loop_mode='01', keep_conds=True, cap=20000)
          if paths.consistent_constexpr(p_)]
    bad = [p_ for p_ in ps if p_.end != 'throw' and 'SORT' not in p_.tags()]
    chk.ob('E2-order-recomputed', 'Bitmap_cubical_complex::initialize_filtration sorts on every path (%d paths)' % len(ps),
           '%s:%d' % (rel(f['file']), f['line']), not bad,
           '' if not bad else 'a path returns without sorting [decisions: %s]: the order of the former values is kept '
           'after the values were changed' % '; '.join(('' if pol else '!') + ir.show(c)[:50] for c, pol, _ in
                                                     bad[0].conds if not isinstance(c, tuple))[:160],
           key='E2|Bitmap_cubical_complex::initialize_filtration|order-recomputed')


def run(tier, replay=None):
    chk = Check('C13', tier,
                'Static decision of the filtration-order clause of the cubical complex: the comparator handed to the '
                'sort equals, on all 27 valuations of its three comparison keys, the lexicographic strict order '
                '(filtration value, dimension, cell index) - value first gives a non-decreasing order, dimension '
                'second puts a face before a coface of equal value, the cell index last makes it total, so the '
                'sequential and the TBB build return one sequence; both build configurations sort the same range '
                'with that comparator, and the comparator writes nothing. Boundaries, incidences and lower-star '
                'values are not decided.',
                'finite predicate enumeration over the comparator AST (E9), sibling-arm agreement (E7b), purity (E6b)')
    F = facts.extract(UNITS)
    sorts = {}
    for unit in ('misc_tbb', 'misc_seq'):
        comps = [f for f in F.funcs('operator()', unit=unit) if f.get('clsname') == 'is_before_in_filtration'
                 and f['file'].endswith('Bitmap_cubical_complex.h')]
        if len(comps) != 1:
            raise AnalysisBroken('C13: comparator is_before_in_filtration::operator() not found in %s' % unit)
        inits = [f for f in F.funcs('initialize_filtration', unit=unit) if f['file'].endswith('Bitmap_cubical_complex.h')]
        if len(inits) != 1:
            raise AnalysisBroken('C13: initialize_filtration not found in %s' % unit)
        if unit == 'misc_tbb':
            cmprules.check_cascade(chk, 'E9-order', comps[0], KEYS, '@', name='cubical is_before_in_filtration')
            cmprules.check_pure(chk, 'E6b-pure', comps[0], name='cubical is_before_in_filtration')
        sc = cmprules.sort_calls(inits[0])
        chk.ob('E7b-sort-arms', 'initialize_filtration (%s) sorts exactly once' % unit,
               '%s:%d' % (rel(inits[0]['file']), inits[0]['line']), len(sc) == 1,
               '' if len(sc) == 1 else '%d sort calls found' % len(sc), key='E7b|cubical|%s|one-sort' % unit)
        if len(sc) == 1:
            args = [cmprules.norm_range_arg(ir.show(a)) for a in ir.call_args(sc[0])]
            sorts[unit] = (ir.call_name(sc[0]), args, sc[0])
            cmprules.check_whole_range(chk, 'E7b-sort-arms', sc[0], '%s:%s' % (rel(inits[0]['file']), sc[0].get('l')),
                                       'E7b|cubical|%s|whole-range' % unit, 'initialize_filtration (%s)' % unit)
    if len(sorts) == 2:
        (n1, a1, s1), (n2, a2, s2) = sorts['misc_tbb'], sorts['misc_seq']
        same = a1 == a2
        chk.ob('E7b-sort-arms', 'TBB arm (%s) and sequential arm (%s) sort the same range with the same comparator'
               % (n1, n2), 'src/Bitmap_cubical_complex/include/gudhi/Bitmap_cubical_complex.h:%s' % s1.get('l'), same,
               '' if same else 'arguments differ: %s vs %s' % (a1, a2), key='E7b|cubical|same-args')
        comp_ok = all('is_before_in_filtration' in a[2] for a in (a1, a2) if len(a) == 3)
        chk.ob('E7b-sort-arms', 'both arms pass the checked comparator is_before_in_filtration',
               'src/Bitmap_cubical_complex/include/gudhi/Bitmap_cubical_complex.h:%s' % s1.get('l'), comp_ok,
               '' if comp_ok else 'comparator arguments: %s / %s' % (a1[-1:], a2[-1:]), key='E7b|cubical|comparator')
    run_boundary_alternation(chk, F)
    run_fill_values(chk, F)
    run_coboundary_bounds(chk, F)
    run_reader_bounds(chk, F)
    run_scan_types(chk, F)
    run_impose_overwrite(chk, F)
    run_zero_side(chk, F)
    run_incidence_validation(chk, F)
    run_direction_agreement(chk, F)
    run_order_recomputed(chk, F)
    _by = {}
    for _f in F.functions:
        if _f.get('inst') in (0, 2) and _f.get('body') is not None and _f['file'].startswith(facts.REPO):
            _by.setdefault(_f.get('cls') or _f.get('clsname') or '-', []).append(_f)
    c09.run_assert_purity(chk, F, by=_by, min_count=10)
    chk.assumptions += ['filtration values obey trichotomy (no NaN), as the property states',
                        'clang 14 parser; both preprocessor configurations parsed']
    return chk

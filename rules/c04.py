"""C04 flag expansions: "each incremental insertion reports exactly the simplices it created" (DESIGN 4/C04)."""
import re

from gsa import facts, ir, paths, summary
from gsa.facts import Unit, rel, AnalysisBroken
from gsa.report import Check
from rules import c01

UNITS = c01.UNITS + [Unit('rips', 'rips_pat.cpp', ['src/Rips_complex/include/gudhi/Rips_complex.h',
                                                      'src/common/include/gudhi/graph_simplicial_complex.h'],
                          no_inst=True)]
H = 'src/Simplex_tree/include/gudhi/Simplex_tree.h'
OUT = 'added_simplices'


def c03_only(F, unit):
    from rules import c03
    return c03._only(F, unit)


def is_push(x):
    if not (ir.is_call(x) and ir.call_name(x) == 'push_back'):
        return False
    r = ir.call_receiver(x)
    return r is not None and OUT in ir.show(r)


def run_vertex_count(chk, F):
    """The Rips builders hand the graph constructor a vertex count: it must be the number of points - a counter
    started at 0 and incremented exactly once on every path through an iteration of the loop over all points, a loop
    that is never left early"""
    fs = [f for f in F.funcs('compute_proximity_graph', unit='rips') if f['inst'] in (0, 2)]
    if len(fs) < 2:
        raise AnalysisBroken('C04: the two compute_proximity_graph builders were not found')
    for f in fs:
        where = '%s:%d' % (rel(f['file']), f['line'])
        # the graph construction: 4 arguments (edge begin, edge end, weights, number of vertices)
        ctor = [x for x in ir.walk(f['body']) if x.get('k') in ('CXXNewExpr', 'VarDecl', 'CXXUnresolvedConstructExpr',
                                                                 'CXXConstructExpr', 'ParenListExpr')]
        count_var = None
        for x in ir.walk(f['body']):
            if x.get('k') in ('ParenListExpr', 'CXXUnresolvedConstructExpr', 'CXXConstructExpr', 'InitListExpr'):
                args = x.get('c') or []
                if len(args) == 4 and ir.show(args[0]) == 'edges.begin()' and ir.show(args[1]) == 'edges.end()':
                    count_var = ir.show(args[3])
        if count_var is None:
            raise AnalysisBroken('C04: graph construction with a vertex count not found in %s' % where)
        loops = [x for x in ir.walk(f['body']) if x.get('k') == 'ForStmt'
                 and ir.contains(x.get('body'), lambda y: y.get('k') == 'ForStmt')]
        if len(loops) != 1:
            raise AnalysisBroken('C04: outer loop over the points not found in %s' % where)
        lp = loops[0]
        # the loop ends when the points are exhausted and for no other reason: its condition is one comparison of the
        # iterator with the end of the range (no second conjunct that stops it earlier)
        cnd = ir.skipcasts(lp.get('cond'))
        while cnd is not None and cnd.get('k') in ('ParenExpr', 'ExprWithCleanups'):
            cnd = ir.skipcasts(cnd['c'][0])
        single = cnd is not None and cnd.get('k') in ('BinaryOperator', 'CXXOperatorCallExpr') and \
            cnd.get('op') in ('!=', '<') and 'end' in ir.show(cnd)
        if not single:
            chk.ob('E2n-vertex-count', '%s: the loop that counts the points runs until the range is exhausted' % f['name'],
                   '%s:%s' % (rel(f['file']), lp.get('l')), False,
                   'the loop condition `%s` is not the single test "iterator != end of the points": the loop can stop '
                   'before the last point, which is then not counted as a vertex (it only reappears if an edge names '
                   'it)' % ir.show(lp.get('cond'))[:80],
                   key='E2n|%s|vertex-count|%s' % (f['name'], rel(f['file']).split('/')[-1]))
            continue

        def cl(x, v=count_var):
            if x.get('k') == 'UnaryOperator' and x.get('op') == '++' and ir.show(x['c'][0]) == v:
                return ['INC']
            if x.get('k') in ('BreakStmt', 'ReturnStmt', 'GotoStmt'):
                return ['EXIT']
            return []
        pseudo = {'body': {'k': 'CompoundStmt', 'c': [lp.get('body'), lp.get('inc')] if lp.get('inc') else
                           [lp.get('body')], 'l': lp.get('l')}, 'name': f['name'], 'file': f['file']}
        ps = paths.enumerate_paths(pseudo, cl, loop_mode='01', keep_conds=True)
        bad = None
        for p in ps:
            tags = p.tags()
            # a break inside the inner loop ends only the inner loop (the engine closes it); an outer one survives
            if p.end in ('break', 'return') or tags.count('INC') != 1:
                bad = p
                break
        init_ok = any(ir.show(x) in ('(%s = 0)' % count_var,) or (x.get('k') == 'VarDecl' and x.get('n') == count_var
                                                                    and ir.show(x.get('init')) == '0')
                      for x in ir.walk(f['body']))
        ok = bad is None and init_ok
        chk.ob('E2n-vertex-count', '%s: the vertex count %s handed to the graph equals the number of points' % (
            f['name'], count_var), where, ok,
            '' if ok else ('the counter is not started at 0' if not init_ok else 'an iteration of the loop over the '
                           'points can end (%s) with the counter incremented %d times: the graph gets fewer vertices '
                           'than there are points' % (bad.end, bad.tags().count('INC'))),
            key='E2n|%s|vertex-count|%s' % (f['name'], rel(f['file']).split('/')[-1]))


def run_threshold_siblings(chk, F):
    """E7-threshold-siblings: the proximity graph keeps the pairs at distance *at most* the threshold. Every
    implementation of compute_proximity_graph (the free function of graph_simplicial_complex.h and the builders of
    Rips_complex) compares the distance with `threshold` with the same operator: one `<` among `<=` makes the routes
    disagree on the pairs exactly at the threshold."""
    fs = [f for f in F.functions if f['name'].split('<')[0] == 'compute_proximity_graph' and f.get('inst') in (0, 2) and
          f.get('body') is not None]
    tests = []
    for f in fs:
        for x in ir.walk(f['body']):
            if x.get('k') in ('BinaryOperator', 'CXXOperatorCallExpr') and x.get('op') in ('<', '<=', '>', '>=') and \
                    'threshold' in ir.show(x):
                c = (x.get('c') or [])[-2:]
                lhs_thr = 'threshold' in ir.show(c[0])
                op = x['op'] if not lhs_thr else {'<': '>', '<=': '>=', '>': '<', '>=': '<='}[x['op']]
                tests.append((f, x, op))
    if len(tests) < 2:
        raise AnalysisBroken('C04: fewer than two threshold tests found in the proximity-graph builders (%d)' % len(tests))
    ops = {t[2] for t in tests}
    for f, x, op in tests:
        ok = op == '<='
        chk.ob('E7-threshold-siblings', '%s (%s): a pair is kept when its distance is <= threshold' % (
            f['name'].split('<')[0], rel(f['file']).split('/')[-1]), '%s:%s' % (rel(f['file']), x.get('l')), ok,
            '' if ok else '`%s`: this builder drops the pairs exactly at the threshold, its siblings (%s) keep them'
            % (ir.show(x)[:40], sorted(ops - {op}) or 'none'),
            key='E7|compute_proximity_graph|threshold|%s' % rel(f['file']).split('/')[-1])


def run_blocker_value_seed(chk, F):
    """E10-candidate-value: in siblings_expansion_with_blockers the candidate [P, s, next] gets the largest value of its
    facets: the loop over `boundary_simplex_range(s)` looks up the facets [d(P s), next], which leaves out the facet
    [P, s] itself - the accumulator starts from the value of `s`, the simplex whose boundary is walked (starting from
    `next` counts [P, next] twice and [P, s] never: a triangle whose heaviest edge joins its two smallest vertices gets
    a value below that edge, and the route disagrees with expansion())."""
    fs = [f for f in F.funcs('siblings_expansion_with_blockers', cls='Simplex_tree', unit='st_pat')
          if f['inst'] in (0, 2) and f.get('body') is not None]
    if not fs:
        raise AnalysisBroken('C04: siblings_expansion_with_blockers not found')
    f = fs[0]
    n = 0
    for lp in ir.walk(f['body']):
        if lp.get('k') != 'CXXForRangeStmt' or 'boundary_simplex_range' not in ir.show(lp.get('range')):
            continue
        walked = re.search(r'boundary_simplex_range\((\w+)\)', ir.show(lp.get('range')))
        acc = [a for x in ir.walk(lp.get('body')) if ir.is_call(x) and ir.call_name(x) in ('intersect_lifetimes',
               'unify_lifetimes', 'max') for a in ir.call_args(x)[:1]]
        if not walked or not acc:
            continue
        name = ir.show(acc[0])
        decl = [x for x in ir.walk(f['body']) if x.get('k') == 'VarDecl' and x.get('n') == name and
                x.get('init') is not None]
        if not decl:
            continue
        n += 1
        src = re.match(r'\(?(\w+)->second\.filtration\(\)', ir.show(decl[-1]['init']).replace('this->', ''))
        ok = src is not None and src.group(1) == walked.group(1)
        chk.ob('E10-candidate-value', 'siblings_expansion_with_blockers: the value accumulated over the boundary of `%s` '
               'starts from the value of `%s`' % (walked.group(1), walked.group(1)), '%s:%s' % (rel(f['file']),
               decl[-1].get('l')), ok, '' if ok else '`%s` starts from `%s`: the facet `%s` of the candidate is never '
               'taken into the maximum' % (name, ir.show(decl[-1]['init'])[:40], walked.group(1)),
               key='E10|siblings_expansion_with_blockers|candidate-value')
    chk.expect_count('E10-candidate-value', 'value accumulations over a boundary in the blocker route', n, 1)


def run_graph_values(chk, F):
    """insert_graph takes the value of every vertex from the graph's vertex property and of every edge from its edge
    property: both property reads flow into the creation of the corresponding nodes"""
    fs = [f for f in F.funcs('insert_graph', cls='Simplex_tree', unit='st_pat') if f['inst'] in (0, 2)]
    if len(fs) != 1:
        raise AnalysisBroken('C04: insert_graph not found')
    f = fs[0]
    cl = c01.make_classify(f)
    reads = {'vertex_filtration_t': False, 'edge_filtration_t': False}
    for x in ir.walk(f['body']):
        ev = cl(x)
        is_create = 'CREATE' in ev or (ir.is_call(x) and ir.call_name(x) == 'insert_node_')
        # the value may reach the creating call through a local range / lambda: accept def-use through locals
        if is_create:
            ids = {y.get('id') for y in ir.walk(x) if y.get('k') == 'DeclRefExpr'}
            srcs = [x] + [d for d in ir.walk(f['body']) if d.get('k') == 'VarDecl' and d.get('id') in ids]
            for s_ in srcs:
                t = ' '.join(ir.show(y) for y in ir.walk(s_))
                for tag in reads:
                    if tag in t:
                        reads[tag] = True
    for tag, ok in reads.items():
        chk.ob('E10-graph-values', 'insert_graph creates the %s from the graph\'s %s property' % (
            'vertices' if tag.startswith('vertex') else 'edges', tag), '%s:%d' % (H, f['line']), ok,
            '' if ok else 'no node creation of insert_graph depends on get(%s(), ...): the values stored in the graph '
            'are ignored' % tag, key='E10|insert_graph|%s' % tag)


def run_descent_entries(chk, fns):
    """E3-descent-entry: the expansion recursions count a depth budget k down by one per level and stop on the test
    `k == 0` - a budget that starts below 0 never meets it and the expansion is unbounded. Every call from outside
    the recursion hands a budget that the guards in force at the call site prove >= 0 (Fourier-Motzkin on the early
    returns of the caller), unless the entry point documents a negative maximal dimension as "no bound" (table)."""
    from gsa.absint import Lin, fm_infeasible
    unbounded_ok = {'insert_edge_as_flag': 'documented: dim_max == -1 means the expansion goes as far as possible'}
    by_name = {}
    for f in fns:
        by_name.setdefault(f['name'], []).append(f)
    # recursions with an equality stop on an int parameter
    stops = {}
    for f in fns:
        if f.get('body') is None:
            continue
        for x in ir.walk(f['body']):
            if x.get('k') == 'IfStmt' and x.get('else') is None and ir.contains(
                    x.get('then'), lambda y: y.get('k') == 'ReturnStmt'):
                m = re.fullmatch(r'\(?(\w+) (==|<=) 0\)?', ir.show(x.get('cond')))
                if m and any(p['n'] == m.group(1) and p.get('t') == 'int' for p in f.get('params', [])):
                    stops[(f['name'], len(f['params']))] = (f, m.group(1), m.group(2))
    if len(stops) < 3:
        raise AnalysisBroken('C04: the depth-budget recursions of the expansion were not found (%d)' % len(stops))
    # functions of the recursion: those from which a stop function is reachable and that forward a budget `k - 1`/`k`
    inner = set(n for n, _ in stops)
    inner.add('create_expansion')
    n = 0
    for f in fns:
        if f.get('body') is None or f['name'] in inner:
            continue
        for call in ir.walk(f['body']):
            if not ir.is_call(call):
                continue
            key = (ir.call_name(call), len(ir.call_args(call)))
            if key not in stops:
                continue
            g, kname, stop_op = stops[key]
            pos = [p['n'] for p in g['params']].index(kname)
            arg = ir.call_args(call)[pos]
            n += 1
            where = '%s:%s' % (rel(f['file']), call.get('l'))
            if stop_op == '<=':
                chk.ob('E3-descent-entry', '%s hands the budget `%s` to %s, which stops on `%s <= 0`' % (
                    f['name'], ir.show(arg), g['name'], kname), where, True, '',
                    key='E3|%s|descent-entry' % f['name'], nontrivial=False)
                continue
            if f['name'] in unbounded_ok:
                chk.ob('E3-descent-entry', '%s hands the budget `%s` to %s (%s)' % (
                    f['name'], ir.show(arg), g['name'], unbounded_ok[f['name']]), where, True, '',
                    key='E3|%s|descent-entry' % f['name'], nontrivial=False)
                continue
            syms = {p['n']: p['n'] for p in f.get('params', []) if p.get('t') == 'int'}
            la = c01._lin_of(arg, syms)
            # facts: negations of the early-return guards that precede the call at the top level of the body
            facts_ = []
            broken = None
            for st in (f['body'].get('c') or []):
                if ir.contains(st, lambda y: y is call):
                    break
                if st.get('k') == 'IfStmt' and st.get('else') is None and ir.contains(
                        st.get('then'), lambda y: y.get('k') == 'ReturnStmt'):
                    d = c01._dnf(st.get('cond'), syms)
                    if d is not None and len(d) == 1 and len(d[0]) == 1:
                        facts_.append(Lin(-1) - d[0][0])
                    elif d is not None:
                        broken = ir.show(st.get('cond'))
            ok = False
            if la is not None and None not in facts_ and broken is None:
                # infeasible(facts and arg <= -1)  <=>  facts imply arg >= 0
                ok = fm_infeasible(list(facts_) + [Lin(-1) - la])
            chk.ob('E3-descent-entry', '%s hands %s a depth budget `%s` that is >= 0' % (f['name'], g['name'],
                   ir.show(arg)), where, ok, '' if ok else 'no guard before the call excludes `%s` < 0: the recursion '
                   'stops on `%s == 0` only, a negative budget never meets it and simplices of every dimension are '
                   'added (maximal dimension 0 expands a 4-clique to dimension 3)' % (ir.show(arg), kname),
                   key='E3|%s|descent-entry' % f['name'])
    chk.expect_count('E3-descent-entry', 'entries into the expansion recursions', n, 3)


def run_forall_flags(chk, fns):
    """E8-forall-flag: "a candidate is inserted when all its facets are present": in siblings_expansion_with_blockers
    the flag that guards the insertion is initialised true and the loop over the facets may only lower it. The loop
    body is run as a transformer of the flag on every sequence of up to three facets present / absent (a small
    interpreter: if, assignment, break): the flag after the loop must be the conjunction of the tests."""
    fs = [f for f in fns if f['name'] == 'siblings_expansion_with_blockers' and f.get('body') is not None]
    if len(fs) != 1:
        raise AnalysisBroken('C04: siblings_expansion_with_blockers not found')
    f = fs[0]
    found = 0
    for loop in ir.walk(f['body']):
        if loop.get('k') != 'CXXForRangeStmt' or 'boundary_simplex_range' not in ir.show(loop.get('range')):
            continue
        # the flag: a local bool assigned in the loop body
        flags = set()
        for x in ir.walk(loop.get('body')):
            if x.get('k') == 'BinaryOperator' and x.get('op') in ('=', '&=', '|=') and \
                    (ir.skipcasts(x['c'][0]) or {}).get('t', '') == 'bool':
                flags.add(ir.show(x['c'][0]))
        if len(flags) != 1:
            raise AnalysisBroken('C04: the facet loop of siblings_expansion_with_blockers assigns %d flags' % len(flags))
        flag = flags.pop()
        init = [x for x in ir.walk(f['body']) if x.get('k') == 'VarDecl' and x.get('n') == flag]
        if len(init) != 1 or init[0].get('init') is None:
            raise AnalysisBroken('C04: declaration of the flag %s not found' % flag)
        found += 1
        # locals of the body that hold the looked-up facet
        looked = {x['n'] for x in ir.walk(loop.get('body')) if x.get('k') == 'VarDecl' and x.get('init') is not None
                  and 'find_child' in ir.show(x['init'])}

        class Brk(Exception):
            pass

        def ev(e, st):
            e = ir.skipcasts(e)
            k = e.get('k')
            if k == 'ParenExpr':
                return ev(e['c'][0], st)
            if k == 'CXXBoolLiteralExpr':
                return e.get('v') == 'true'
            if k == 'DeclRefExpr' and e.get('n') == flag:
                return st['flag']
            if k == 'UnaryOperator' and e.get('op') == '!':
                return not ev(e['c'][0], st)
            if k == 'BinaryOperator' and e.get('op') == '&&':
                return ev(e['c'][0], st) and ev(e['c'][1], st)
            if k == 'BinaryOperator' and e.get('op') == '||':
                return ev(e['c'][0], st) or ev(e['c'][1], st)
            if k in ('BinaryOperator', 'CXXOperatorCallExpr') and e.get('op') in ('==', '!='):
                ab = e['c'] if k == 'BinaryOperator' else ir.call_args(e)
                ta, tb = ir.show(ab[0]).replace(' ', ''), ir.show(ab[1]).replace(' ', '')
                for x_, y_ in ((ta, tb), (tb, ta)):
                    if x_ in looked and y_.endswith('null_simplex()'):
                        return (not st['present']) if e['op'] == '==' else st['present']
            raise AnalysisBroken('C04: the facet loop tests something the rule cannot interpret: %s' % ir.show(e)[:80])

        def run_st(s_, st):
            if s_ is None:
                return
            k = s_.get('k')
            if k == 'CompoundStmt':
                for c in s_.get('c') or []:
                    run_st(c, st)
            elif k == 'IfStmt':
                run_st(s_.get('then') if ev(s_.get('cond'), st) else s_.get('else'), st)
            elif k == 'BreakStmt':
                raise Brk()
            elif k == 'BinaryOperator' and s_.get('op') in ('=', '&=', '|=') and ir.show(s_['c'][0]) == flag:
                v = ev(s_['c'][1], st)
                st['flag'] = v if s_['op'] == '=' else (st['flag'] and v) if s_['op'] == '&=' else (st['flag'] or v)
            elif k in ('ContinueStmt',):
                raise AnalysisBroken('C04: continue in the facet loop')
            # declarations and calls do not touch the flag
        bad = None
        import itertools
        for nfac in (1, 2, 3):
            for seq in itertools.product((True, False), repeat=nfac):
                st = {'flag': ev(init[0]['init'], {'flag': None, 'present': None})}
                try:
                    for pres in seq:
                        st['present'] = pres
                        run_st(loop.get('body'), st)
                except Brk:
                    pass
                if st['flag'] != all(seq) and bad is None:
                    bad = (seq, st['flag'])
        chk.ob('E8-forall-flag', 'siblings_expansion_with_blockers: `%s` after the loop over the facets says that every '
               'facet is present (14 sequences of present / absent facets)' % flag, '%s:%s' % (rel(f['file']),
               loop.get('l')), bad is None, '' if bad is None else 'for facets %s (present = True) the flag ends %s: a '
               'candidate with a missing facet is inserted - the result is not a simplicial complex, and with a '
               'blocker not the largest subcomplex avoiding the blocked simplices' % (list(bad[0]), bad[1]),
               key='E8|siblings_expansion_with_blockers|forall-flag')
    if found != 1:
        raise AnalysisBroken('C04: %d facet loops found in siblings_expansion_with_blockers' % found)


def run(tier, replay=None):
    chk = Check('C04', tier,
                'Static decision of the reporting clause of incremental flag insertion: in insert_edge_as_flag and '
                'every function it hands its output vector to, every creation of nodes is followed on every path by '
                'the push of those nodes into added_simplices before the next creation or the exit (for-all loops '
                'collapsed, `if (ins.second)` understood), and nothing is pushed that was not created on that path. '
                'That the three expansion routes build the same complex, and the filtration values, are not decided.',
                'structured path rule with pairing/counting (E2n) over the clang AST')
    F = facts.extract(UNITS)
    cls, fns = c01.simplex_tree_functions(c03_only(F, 'st_pat'))
    run_descent_entries(chk, fns)
    run_forall_flags(chk, fns)
    G = summary.ClassGraph(fns)
    reporters = [f for f in fns if any(p.get('n') == OUT for p in f.get('params', []))]
    chk.expect_count('E2n-report', 'functions taking added_simplices', len(reporters), 5)
    rep_names = {f['name'] for f in reporters}

    def direct(f):
        cl = c01.make_classify(f)
        return {'CREATE'} if ir.contains(f.get('body'), lambda x: 'CREATE' in cl(x)) else set()
    may = G.may(direct)
    silent_creators = {n for n in G.by_name if 'CREATE' in may.get(n, ()) and n not in rep_names}

    for f in reporters:
        cl = c01.make_classify(f)

        def c2(x, cl=cl):
            ev = [e for e in cl(x) if e == 'CREATE']
            if is_push(x):
                ev.append('PUSH')
            if ir.is_call(x) and ir.is_this_call(x) and ir.call_name(x) in silent_creators and 'CREATE' not in ev:
                ev.append('CREATE')
            return ev
        binders = c01.create_binders(f, lambda y: c2(y))
        bound = {b + '.second' for b in binders.values() if b}

        def c3(x, c2=c2, bound=bound):
            # decisions on `V.second` (did the bound insertion create something?) must be explored even when the
            # branch bodies contain no event
            if x.get('k') == 'IfStmt' and ir.show(x.get('cond')).lstrip('!') in bound:
                return ['$decision']
            return c2(x)
        ps = paths.enumerate_paths(f, c3, loop_mode='1', keep_conds=True, cap=50000)
        bad_missing = bad_extra = None
        npaths = 0
        for p in ps:
            if p.end == 'throw':
                continue
            tags = p.tags()
            if 'CREATE' not in tags and 'PUSH' not in tags:
                continue
            # arms compiled for the non-reporting instantiation (force_filtration_value == false) report nothing
            if any(cx and not pol and 'force_filtration_value' in ir.show(c) and not ir.show(c).startswith('!')
                   for c, pol, cx in p.conds if not isinstance(c, tuple)):
                continue
            npaths += 1
            pend = []
            created = 0
            pushes = 0
            reported = []     # (creation node, push node) pairs matched so far
            for tag, node in p.events:
                if tag == 'CREATE':
                    if pend and bad_missing is None:
                        bad_missing = (p, pend[-1])
                    pend = [node]
                    created += 1
                elif tag == 'PUSH':
                    if not pend and created == pushes and bad_extra is None:
                        bad_extra = (p, node)
                    for n in pend:
                        reported.append((n, node))
                    pend = []
                    pushes += 1
                elif tag == '?':
                    c, pol, _ = node
                    if isinstance(c, tuple):
                        continue
                    t = ir.show(c)
                    if not pol:
                        # the path now learns that a creation bound to `V` did not happen (`V.second` is false):
                        # if it was already reported, that report was wrong
                        for n, pn in reported:
                            if binders.get(id(n)) is not None and t == binders[id(n)] + '.second' and \
                                    bad_extra is None:
                                bad_extra = (p, pn)
                        keep = [n for n in pend if binders.get(id(n)) is None or t != binders[id(n)] + '.second']
                        if len(keep) != len(pend):
                            created -= len(pend) - len(keep)
                        pend = keep
            if pend and bad_missing is None:
                bad_missing = (p, pend[-1])
        where = '%s:%d' % (H, f['line'])
        chk.count('E2n reporting paths', npaths)
        chk.ob('E2n-report', '%s: every created node is pushed into %s' % (f['name'], OUT), where,
               bad_missing is None, '' if bad_missing is None else 'nodes created at line %s are never reported on a '
               'path' % bad_missing[1].get('l'), key='E2n|%s|missing' % f['name'])
        chk.ob('E2n-report', '%s: nothing is pushed that was not created' % f['name'], where, bad_extra is None,
               '' if bad_extra is None else 'push at line %s without a preceding creation on the path'
               % bad_extra[1].get('l'), key='E2n|%s|extra' % f['name'])
    run_vertex_count(chk, F)
    run_threshold_siblings(chk, F)
    run_blocker_value_seed(chk, F)
    run_graph_values(chk, F)
    run_announced_removals(chk, fns)
    # the incremental route finds cofaces through the per-label node lists: every node the expansion routes create
    # is registered in them (rule shared with C01)
    c01.run_r1(chk, fns, G, only=('create_expansion', 'siblings_expansion', 'siblings_expansion_with_blockers',
                                  'compute_punctual_expansion', 'insert_edge_as_flag', 'create_local_expansion',
                                  'insert_graph'), min_count=3)
    chk.assumptions += ['clang 14 parser', 'class-local call resolution by name', 'for-all loop idiom (DESIGN 3/E2 i)']
    return chk


# ------------------------------------------------------------------ E2 announced removals happen before the descent

def run_announced_removals(chk, fns):
    """E2: a simplex the oracle blocked is announced for removal (update_simplex_tree_before_node_removal) and then
    erased from its sibling set. The expansion recurses into that sibling set, and the next level decides which
    cofaces to create by looking its faces up in it: on every path, between the announcement and the recursive
    descent the announced members are erased (or the whole set deleted) - otherwise cofaces of a blocked simplex
    are created and survive it (the result is not a simplicial complex)."""
    n = 0
    for f in fns:
        if f.get('body') is None:
            continue
        has_announce = ir.contains(f['body'], lambda x: ir.is_call(x) and ir.call_name(x) ==
                                   'update_simplex_tree_before_node_removal')
        recurses = ir.contains(f['body'], lambda x: ir.is_call(x) and ir.is_this_call(x) and
                               ir.call_name(x) == f['name'])
        if not (has_announce and recurses):
            continue
        n += 1

        def cl(x, f=f):
            if ir.is_call(x):
                nm = ir.call_name(x)
                if nm == 'update_simplex_tree_before_node_removal':
                    return ['ANNOUNCE']
                if nm == 'erase' and 'members' in ir.show(x):
                    return ['ERASE']
                if ir.is_this_call(x) and nm == f['name']:
                    return ['DESCEND']
            if x.get('k') == 'CXXDeleteExpr':
                return ['ERASE']
            return []
        ps = paths.enumerate_paths(f, cl, loop_mode='1', keep_conds=False, cap=20000)
        bad = None
        for p in ps:
            pending = False
            for t in p.tags():
                if t == 'ANNOUNCE':
                    pending = True
                elif t == 'ERASE':
                    pending = False
                elif t == 'DESCEND' and pending and bad is None:
                    bad = p
        chk.ob('E2-announced-removal', '%s: members announced for removal are erased before the recursive descent '
               '(%d paths)' % (f['name'], len(ps)), '%s:%d' % (rel(f['file']), f['line']), bad is None,
               '' if bad is None else 'a path announces the removal of blocked members, recurses into their sibling '
               'set and erases them only afterwards: the next level finds the blocked simplices as faces',
               key='E2|%s|announced-removal' % f['name'])
    chk.expect_count('E2-announced-removal', 'recursive functions announcing removals', n, 1)

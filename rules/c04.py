"""C04 flag expansions: "each incremental insertion reports exactly the simplices it created" (DESIGN 4/C04)."""
from gsa import facts, ir, paths, summary
from gsa.facts import Unit, rel, AnalysisBroken
from gsa.report import Check
from rules import c01

UNITS = c01.UNITS + [Unit('rips', 'rips_pat.cpp', ['src/Rips_complex/include/gudhi/Rips_complex.h',
                                                      'src/common/include/gudhi/graph_simplicial_complex.h'],
                          no_inst=True)]
H = 'src/Simplex_tree/include/gudhi/Simplex_tree.h'
OUT = 'added_simplices'


def c03_only(F, unit):
    from rules import c03
    return c03._only(F, unit)


def is_push(x):
    if not (ir.is_call(x) and ir.call_name(x) == 'push_back'):
        return False
    r = ir.call_receiver(x)
    return r is not None and OUT in ir.show(r)


def run_vertex_count(chk, F):
    """The Rips builders hand the graph constructor a vertex count: it must be the number of points - a counter
    started at 0 and incremented exactly once on every path through an iteration of the loop over all points, a loop
    that is never left early"""
    fs = [f for f in F.funcs('compute_proximity_graph', unit='rips') if f['inst'] in (0, 2)]
    if len(fs) < 2:
        raise AnalysisBroken('C04: the two compute_proximity_graph builders were not found')
    for f in fs:
        where = '%s:%d' % (rel(f['file']), f['line'])
        # the graph construction: 4 arguments (edge begin, edge end, weights, number of vertices)
        ctor = [x for x in ir.walk(f['body']) if x.get('k') in ('CXXNewExpr', 'VarDecl', 'CXXUnresolvedConstructExpr',
                                                                 'CXXConstructExpr', 'ParenListExpr')]
        count_var = None
        for x in ir.walk(f['body']):
            if x.get('k') in ('ParenListExpr', 'CXXUnresolvedConstructExpr', 'CXXConstructExpr', 'InitListExpr'):
                args = x.get('c') or []
                if len(args) == 4 and ir.show(args[0]) == 'edges.begin()' and ir.show(args[1]) == 'edges.end()':
                    count_var = ir.show(args[3])
        if count_var is None:
            raise AnalysisBroken('C04: graph construction with a vertex count not found in %s' % where)
        loops = [x for x in ir.walk(f['body']) if x.get('k') == 'ForStmt' and 'points' in ir.show(x.get('cond'))
                 and ir.contains(x.get('body'), lambda y: y.get('k') == 'ForStmt')]
        if len(loops) != 1:
            raise AnalysisBroken('C04: outer loop over the points not found in %s' % where)
        lp = loops[0]

        def cl(x, v=count_var):
            if x.get('k') == 'UnaryOperator' and x.get('op') == '++' and ir.show(x['c'][0]) == v:
                return ['INC']
            if x.get('k') in ('BreakStmt', 'ReturnStmt', 'GotoStmt'):
                return ['EXIT']
            return []
        pseudo = {'body': {'k': 'CompoundStmt', 'c': [lp.get('body'), lp.get('inc')] if lp.get('inc') else
                           [lp.get('body')], 'l': lp.get('l')}, 'name': f['name'], 'file': f['file']}
        ps = paths.enumerate_paths(pseudo, cl, loop_mode='01', keep_conds=True)
        bad = None
        for p in ps:
            tags = p.tags()
            # a break inside the inner loop ends only the inner loop (the engine closes it); an outer one survives
            if p.end in ('break', 'return') or tags.count('INC') != 1:
                bad = p
                break
        init_ok = any(ir.show(x) in ('(%s = 0)' % count_var,) or (x.get('k') == 'VarDecl' and x.get('n') == count_var
                                                                    and ir.show(x.get('init')) == '0')
                      for x in ir.walk(f['body']))
        ok = bad is None and init_ok
        chk.ob('E2n-vertex-count', '%s: the vertex count %s handed to the graph equals the number of points' % (
            f['name'], count_var), where, ok,
            '' if ok else ('the counter is not started at 0' if not init_ok else 'an iteration of the loop over the '
                           'points can end (%s) with the counter incremented %d times: the graph gets fewer vertices '
                           'than there are points' % (bad.end, bad.tags().count('INC'))),
            key='E2n|%s|vertex-count|%s' % (f['name'], rel(f['file']).split('/')[-1]))


def run_graph_values(chk, F):
    """insert_graph takes the value of every vertex from the graph's vertex property and of every edge from its edge
    property: both property reads flow into the creation of the corresponding nodes"""
    fs = [f for f in F.funcs('insert_graph', cls='Simplex_tree', unit='st_pat') if f['inst'] in (0, 2)]
    if len(fs) != 1:
        raise AnalysisBroken('C04: insert_graph not found')
    f = fs[0]
    cl = c01.make_classify(f)
    reads = {'vertex_filtration_t': False, 'edge_filtration_t': False}
    for x in ir.walk(f['body']):
        ev = cl(x)
        is_create = 'CREATE' in ev or (ir.is_call(x) and ir.call_name(x) == 'insert_node_')
        # the value may reach the creating call through a local range / lambda: accept def-use through locals
        if is_create:
            ids = {y.get('id') for y in ir.walk(x) if y.get('k') == 'DeclRefExpr'}
            srcs = [x] + [d for d in ir.walk(f['body']) if d.get('k') == 'VarDecl' and d.get('id') in ids]
            for s_ in srcs:
                t = ' '.join(ir.show(y) for y in ir.walk(s_))
                for tag in reads:
                    if tag in t:
                        reads[tag] = True
    for tag, ok in reads.items():
        chk.ob('E10-graph-values', 'insert_graph creates the %s from the graph\'s %s property' % (
            'vertices' if tag.startswith('vertex') else 'edges', tag), '%s:%d' % (H, f['line']), ok,
            '' if ok else 'no node creation of insert_graph depends on get(%s(), ...): the values stored in the graph '
            'are ignored' % tag, key='E10|insert_graph|%s' % tag)


def run(tier, replay=None):
    chk = Check('C04', tier,
                'Static decision of the reporting clause of incremental flag insertion: in insert_edge_as_flag and '
                'every function it hands its output vector to, every creation of nodes is followed on every path by '
                'the push of those nodes into added_simplices before the next creation or the exit (for-all loops '
                'collapsed, `if (ins.second)` understood), and nothing is pushed that was not created on that path. '
                'That the three expansion routes build the same complex, and the filtration values, are not decided.',
                'structured path rule with pairing/counting (E2n) over the clang AST')
    F = facts.extract(UNITS)
    cls, fns = c01.simplex_tree_functions(c03_only(F, 'st_pat'))
    G = summary.ClassGraph(fns)
    reporters = [f for f in fns if any(p.get('n') == OUT for p in f.get('params', []))]
    chk.expect_count('E2n-report', 'functions taking added_simplices', len(reporters), 5)
    rep_names = {f['name'] for f in reporters}

    def direct(f):
        cl = c01.make_classify(f)
        return {'CREATE'} if ir.contains(f.get('body'), lambda x: 'CREATE' in cl(x)) else set()
    may = G.may(direct)
    silent_creators = {n for n in G.by_name if 'CREATE' in may.get(n, ()) and n not in rep_names}

    for f in reporters:
        cl = c01.make_classify(f)

        def c2(x, cl=cl):
            ev = [e for e in cl(x) if e == 'CREATE']
            if is_push(x):
                ev.append('PUSH')
            if ir.is_call(x) and ir.is_this_call(x) and ir.call_name(x) in silent_creators and 'CREATE' not in ev:
                ev.append('CREATE')
            return ev
        binders = c01.create_binders(f, lambda y: c2(y))
        bound = {b + '.second' for b in binders.values() if b}

        def c3(x, c2=c2, bound=bound):
            # decisions on `V.second` (did the bound insertion create something?) must be explored even when the
            # branch bodies contain no event
            if x.get('k') == 'IfStmt' and ir.show(x.get('cond')).lstrip('!') in bound:
                return ['$decision']
            return c2(x)
        ps = paths.enumerate_paths(f, c3, loop_mode='1', keep_conds=True, cap=50000)
        bad_missing = bad_extra = None
        npaths = 0
        for p in ps:
            if p.end == 'throw':
                continue
            tags = p.tags()
            if 'CREATE' not in tags and 'PUSH' not in tags:
                continue
            # arms compiled for the non-reporting instantiation (force_filtration_value == false) report nothing
            if any(cx and not pol and 'force_filtration_value' in ir.show(c) and not ir.show(c).startswith('!')
                   for c, pol, cx in p.conds if not isinstance(c, tuple)):
                continue
            npaths += 1
            pend = []
            created = 0
            pushes = 0
            reported = []     # (creation node, push node) pairs matched so far
            for tag, node in p.events:
                if tag == 'CREATE':
                    if pend and bad_missing is None:
                        bad_missing = (p, pend[-1])
                    pend = [node]
                    created += 1
                elif tag == 'PUSH':
                    if not pend and created == pushes and bad_extra is None:
                        bad_extra = (p, node)
                    for n in pend:
                        reported.append((n, node))
                    pend = []
                    pushes += 1
                elif tag == '?':
                    c, pol, _ = node
                    if isinstance(c, tuple):
                        continue
                    t = ir.show(c)
                    if not pol:
                        # the path now learns that a creation bound to `V` did not happen (`V.second` is false):
                        # if it was already reported, that report was wrong
                        for n, pn in reported:
                            if binders.get(id(n)) is not None and t == binders[id(n)] + '.second' and \
                                    bad_extra is None:
                                bad_extra = (p, pn)
                        keep = [n for n in pend if binders.get(id(n)) is None or t != binders[id(n)] + '.second']
                        if len(keep) != len(pend):
                            created -= len(pend) - len(keep)
                        pend = keep
            if pend and bad_missing is None:
                bad_missing = (p, pend[-1])
        where = '%s:%d' % (H, f['line'])
        chk.count('E2n reporting paths', npaths)
        chk.ob('E2n-report', '%s: every created node is pushed into %s' % (f['name'], OUT), where,
               bad_missing is None, '' if bad_missing is None else 'nodes created at line %s are never reported on a '
               'path' % bad_missing[1].get('l'), key='E2n|%s|missing' % f['name'])
        chk.ob('E2n-report', '%s: nothing is pushed that was not created' % f['name'], where, bad_extra is None,
               '' if bad_extra is None else 'push at line %s without a preceding creation on the path'
               % bad_extra[1].get('l'), key='E2n|%s|extra' % f['name'])
    run_vertex_count(chk, F)
    run_graph_values(chk, F)
    run_announced_removals(chk, fns)
    # the incremental route finds cofaces through the per-label node lists: every node the expansion routes create
    # is registered in them (rule shared with C01)
    c01.run_r1(chk, fns, G, only=('create_expansion', 'siblings_expansion', 'siblings_expansion_with_blockers',
                                  'compute_punctual_expansion', 'insert_edge_as_flag', 'create_local_expansion',
                                  'insert_graph'), min_count=3)
    chk.assumptions += ['clang 14 parser', 'class-local call resolution by name', 'for-all loop idiom (DESIGN 3/E2 i)']
    return chk


# ------------------------------------------------------------------ E2 announced removals happen before the descent

def run_announced_removals(chk, fns):
    """E2: a simplex the oracle blocked is announced for removal (update_simplex_tree_before_node_removal) and then
    erased from its sibling set. The expansion recurses into that sibling set, and the next level decides which
    cofaces to create by looking its faces up in it: on every path, between the announcement and the recursive
    descent the announced members are erased (or the whole set deleted) - otherwise cofaces of a blocked simplex
    are created and survive it (the result is not a simplicial complex)."""
    n = 0
    for f in fns:
        if f.get('body') is None:
            continue
        has_announce = ir.contains(f['body'], lambda x: ir.is_call(x) and ir.call_name(x) ==
                                   'update_simplex_tree_before_node_removal')
        recurses = ir.contains(f['body'], lambda x: ir.is_call(x) and ir.is_this_call(x) and
                               ir.call_name(x) == f['name'])
        if not (has_announce and recurses):
            continue
        n += 1

        def cl(x, f=f):
            if ir.is_call(x):
                nm = ir.call_name(x)
                if nm == 'update_simplex_tree_before_node_removal':
                    return ['ANNOUNCE']
                if nm == 'erase' and 'members' in ir.show(x):
                    return ['ERASE']
                if ir.is_this_call(x) and nm == f['name']:
                    return ['DESCEND']
            if x.get('k') == 'CXXDeleteExpr':
                return ['ERASE']
            return []
        ps = paths.enumerate_paths(f, cl, loop_mode='1', keep_conds=False, cap=20000)
        bad = None
        for p in ps:
            pending = False
            for t in p.tags():
                if t == 'ANNOUNCE':
                    pending = True
                elif t == 'ERASE':
                    pending = False
                elif t == 'DESCEND' and pending and bad is None:
                    bad = p
        chk.ob('E2-announced-removal', '%s: members announced for removal are erased before the recursive descent '
               '(%d paths)' % (f['name'], len(ps)), '%s:%d' % (rel(f['file']), f['line']), bad is None,
               '' if bad is None else 'a path announces the removal of blocked members, recurses into their sibling '
               'set and erases them only afterwards: the next level finds the blocked simplices as faces',
               key='E2|%s|announced-removal' % f['name'])
    chk.expect_count('E2-announced-removal', 'recursive functions announcing removals', n, 1)

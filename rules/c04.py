"""C04 flag expansions: "each incremental insertion reports exactly the simplices it created" (DESIGN 4/C04)."""
from gsa import facts, ir, paths, summary
from gsa.facts import Unit, rel, AnalysisBroken
from gsa.report import Check
from rules import c01

UNITS = c01.UNITS
H = 'src/Simplex_tree/include/gudhi/Simplex_tree.h'
OUT = 'added_simplices'


def is_push(x):
    if not (ir.is_call(x) and ir.call_name(x) == 'push_back'):
        return False
    r = ir.call_receiver(x)
    return r is not None and OUT in ir.show(r)


def run(tier, replay=None):
    chk = Check('C04', tier,
                'Static decision of the reporting clause of incremental flag insertion: in insert_edge_as_flag and '
                'every function it hands its output vector to, every creation of nodes is followed on every path by '
                'the push of those nodes into added_simplices before the next creation or the exit (for-all loops '
                'collapsed, `if (ins.second)` understood), and nothing is pushed that was not created on that path. '
                'That the three expansion routes build the same complex, and the filtration values, are not decided.',
                'structured path rule with pairing/counting (E2n) over the clang AST')
    F = facts.extract(UNITS)
    cls, fns = c01.simplex_tree_functions(F)
    G = summary.ClassGraph(fns)
    reporters = [f for f in fns if any(p.get('n') == OUT for p in f.get('params', []))]
    chk.expect_count('E2n-report', 'functions taking added_simplices', len(reporters), 5)
    rep_names = {f['name'] for f in reporters}

    def direct(f):
        cl = c01.make_classify(f)
        return {'CREATE'} if ir.contains(f.get('body'), lambda x: 'CREATE' in cl(x)) else set()
    may = G.may(direct)
    silent_creators = {n for n in G.by_name if 'CREATE' in may.get(n, ()) and n not in rep_names}

    for f in reporters:
        cl = c01.make_classify(f)

        def c2(x, cl=cl):
            ev = [e for e in cl(x) if e == 'CREATE']
            if is_push(x):
                ev.append('PUSH')
            if ir.is_call(x) and ir.is_this_call(x) and ir.call_name(x) in silent_creators and 'CREATE' not in ev:
                ev.append('CREATE')
            return ev
        binders = c01.create_binders(f, lambda y: c2(y))
        bound = {b + '.second' for b in binders.values() if b}

        def c3(x, c2=c2, bound=bound):
            # decisions on `V.second` (did the bound insertion create something?) must be explored even when the
            # branch bodies contain no event
            if x.get('k') == 'IfStmt' and ir.show(x.get('cond')).lstrip('!') in bound:
                return ['$decision']
            return c2(x)
        ps = paths.enumerate_paths(f, c3, loop_mode='1', keep_conds=True, cap=50000)
        bad_missing = bad_extra = None
        npaths = 0
        for p in ps:
            if p.end == 'throw':
                continue
            tags = p.tags()
            if 'CREATE' not in tags and 'PUSH' not in tags:
                continue
            # arms compiled for the non-reporting instantiation (force_filtration_value == false) report nothing
            if any(cx and not pol and 'force_filtration_value' in ir.show(c) and not ir.show(c).startswith('!')
                   for c, pol, cx in p.conds if not isinstance(c, tuple)):
                continue
            npaths += 1
            pend = []
            created = 0
            pushes = 0
            reported = []     # (creation node, push node) pairs matched so far
            for tag, node in p.events:
                if tag == 'CREATE':
                    if pend and bad_missing is None:
                        bad_missing = (p, pend[-1])
                    pend = [node]
                    created += 1
                elif tag == 'PUSH':
                    if not pend and created == pushes and bad_extra is None:
                        bad_extra = (p, node)
                    for n in pend:
                        reported.append((n, node))
                    pend = []
                    pushes += 1
                elif tag == '?':
                    c, pol, _ = node
                    if isinstance(c, tuple):
                        continue
                    t = ir.show(c)
                    if not pol:
                        # the path now learns that a creation bound to `V` did not happen (`V.second` is false):
                        # if it was already reported, that report was wrong
                        for n, pn in reported:
                            if binders.get(id(n)) is not None and t == binders[id(n)] + '.second' and \
                                    bad_extra is None:
                                bad_extra = (p, pn)
                        keep = [n for n in pend if binders.get(id(n)) is None or t != binders[id(n)] + '.second']
                        if len(keep) != len(pend):
                            created -= len(pend) - len(keep)
                        pend = keep
            if pend and bad_missing is None:
                bad_missing = (p, pend[-1])
        where = '%s:%d' % (H, f['line'])
        chk.count('E2n reporting paths', npaths)
        chk.ob('E2n-report', '%s: every created node is pushed into %s' % (f['name'], OUT), where,
               bad_missing is None, '' if bad_missing is None else 'nodes created at line %s are never reported on a '
               'path' % bad_missing[1].get('l'), key='E2n|%s|missing' % f['name'])
        chk.ob('E2n-report', '%s: nothing is pushed that was not created' % f['name'], where, bad_extra is None,
               '' if bad_extra is None else 'push at line %s without a preceding creation on the path'
               % bad_extra[1].get('l'), key='E2n|%s|extra' % f['name'])
    chk.assumptions += ['clang 14 parser', 'class-local call resolution by name', 'for-all loop idiom (DESIGN 3/E2 i)']
    return chk

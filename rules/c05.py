"""C05 matrix flavours: maintenance of the data the defining identities are stated on (DESIGN 4/C05).

RU:  L1 every path applies to the stored factor U the operation that mirrors each column operation it applies to R
     L2 a path of the reduction that leaves a non-zero column records its pivot; remove_last forgets it
     L3 every inserted column triggers exactly one of _add_bar / _update_barcode; remove_last exactly one removal
Chain: L4 every column insertion / removal updates pivotToColumnIndex_ on the same path; the stored barcode gets
     exactly one event per inserted cell
"""
import re

from gsa import facts, ir, kinds, paths
from rules import findrule
from gsa.facts import Unit, rel, AnalysisBroken
from gsa.report import Check

import json
import os

PM = 'src/Persistence_matrix/include/gudhi/Persistence_matrix/'
ROW_TABLE = json.load(open(os.path.join(os.path.dirname(__file__), '..', 'tables', 'c05.json')))
UNITS = [Unit('mx_pat', 'matrix_pat.cpp', [PM], no_inst=True)]
FIELD_OPS = 'src/Persistence_matrix/include/gudhi/Fields/Zp_field_operators.h'
TOP_UNITS = [Unit('mx_top', 'matrix_pat.cpp', ['src/Persistence_matrix/include/gudhi/Matrix.h', FIELD_OPS],
                  no_inst=True)]
RKIND = {'add_to': 'add', 'multiply_target_and_add_to': 'mta', 'multiply_source_and_add_to': 'msa',
         'swap_columns': 'swapc', 'swap_rows': 'swapr', 'insert_boundary': 'insert', 'remove_last': 'remove'}
UKIND = dict(RKIND)
UKIND['insert_column'] = 'insert'


def aliases_of(f, matrix):
    """locals bound to a column of the given sub-matrix: `Column& curr = reducedMatrixR_.get_column(x)`"""
    out = set()
    for x in ir.walk(f.get('body')):
        if x.get('k') == 'VarDecl' and x.get('init') is not None:
            t = ir.show(x['init'])
            if t.startswith(matrix + '.get_column(') or ('->' + matrix + '.get_column(') in t:
                out.add(x['n'])
    return out


def ru_classifier(f):
    ra = aliases_of(f, 'reducedMatrixR_')

    def cl(x):
        ev = []
        if ir.is_call(x):
            n = ir.call_name(x)
            r = ir.call_receiver(x)
            rt = ir.show(r) if r is not None else ''
            base = rt.split('.get_column(')[0]
            on_r = base.endswith('reducedMatrixR_')
            on_u = base.endswith('mirrorMatrixU_')
            direct = '.get_column(' not in rt
            if on_r and direct and n in RKIND:
                ev.append('R:' + RKIND[n])
            elif on_u and direct and n in UKIND:
                ev.append('U:' + UKIND[n])
            elif on_u and not direct and n == 'push_back':
                ev.append('U:add')           # Z2: U is stored transposed, a column addition is one pushed entry
            elif rt in ra and n == 'multiply_source_and_add':
                ev.append('R:msa')
            elif x.get('k') == 'CXXOperatorCallExpr' and x.get('op') == '+=' and rt in ra:
                ev.append('R:add')
        if x.get('k') in ('CompoundAssignOperator', 'BinaryOperator') and x.get('op') == '+=':
            if ir.show(x['c'][0]) in ra:
                ev.append('R:add')
        return ev
    return cl


def balanced_with_helpers(chk, rule, cls_fns, make_cl, is_balanced, describe, keyfmt, skip_kinds=()):
    """Generic companion-update check with helper substitution: a function whose paths all have the same net
    effect and that is called inside the class contributes that net at its call sites; obligations are evaluated
    on every function after substitution, helpers that are unbalanced alone are discharged at their callers."""
    from gsa import summary
    G = summary.ClassGraph(cls_fns)
    nets = {}
    results = {}
    for _round in range(4):
        changed = False
        for f in cls_fns:
            base = make_cl(f)

            def cl(x, base=base, f=f):
                ev = list(base(x))
                if ir.is_call(x) and ir.is_this_call(x):
                    n = ir.call_name(x)
                    if n in nets and n != f['name']:
                        ev += list(nets[n])
                return ev
            if not ir.contains(f.get('body'), lambda y: bool(cl(y))):
                continue
            try:
                ps = paths.enumerate_paths(f, cl, loop_mode='1', keep_conds=True, cap=30000)
            except paths.TooManyPaths:
                raise AnalysisBroken('C05: too many paths in %s' % f['qual'])
            sigs = set()
            bad = None
            for p in ps:
                if p.end == 'throw':
                    continue
                tags = tuple(sorted(p.tags()))
                sigs.add(tags)
                if not is_balanced(tags) and bad is None:
                    bad = (tags, p)
            results[id(f)] = (f, bad, len(ps))
            if len(sigs) == 1:
                net = next(iter(sigs))
                if nets.get(f['name']) != net and f['kind'] not in skip_kinds:
                    nets[f['name']] = net
                    changed = True
        if not changed:
            break
    n = 0
    for f, bad, npaths in results.values():
        if f['kind'] in skip_kinds:
            continue
        callers = G.callers.get(f['name'], set()) - {f['name']}
        helper = bad is not None and f['name'] in nets and callers
        n += 1
        chk.count('%s paths' % rule, npaths)
        if helper:
            chk.ob(rule, describe(f) + ' (helper: its net effect %s is accounted at the callers %s)' % (
                list(nets[f['name']]), sorted(callers)), '%s:%d' % (rel(f['file']), f['line']), True, '',
                key=keyfmt(f), nontrivial=False)
            continue
        chk.ob(rule, describe(f), '%s:%d' % (rel(f['file']), f['line']), bad is None,
               '' if bad is None else 'events on a path: %s [decisions: %s]' % (
                   list(bad[0]), '; '.join(('' if pol else '!') + ir.show(c)[:50] for c, pol, _ in bad[1].conds
                                           if not isinstance(c, tuple))[:200]), key=keyfmt(f))
    return n


def run_lockstep(chk, F):
    n = 0
    for cls, fname in (('RU_matrix', 'RU_matrix.h'), ('RU_vine_swap', 'ru_vine_swap.h')):
        fns = [f for f in F.functions if f.get('clsname') == cls and f['inst'] in (0, 2)
               and f['file'].endswith(fname)]

        def bal(tags):
            r = sorted(t[2:] for t in tags if t.startswith('R:'))
            u = sorted(t[2:] for t in tags if t.startswith('U:'))
            return r == u
        n += balanced_with_helpers(
            chk, 'E2-RU-lockstep', fns, ru_classifier, bal,
            lambda f, cls=cls: '%s::%s applies to U the mirror of every column operation it applies to R' % (
                cls, f['name']),
            lambda f, cls=cls: 'E2|%s::%s|RU-lockstep|%d' % (cls, f['name'], len(f['params'])),
            skip_kinds=('ctor', 'copy_ctor', 'move_ctor', 'default_ctor'))
    chk.expect_count('E2-RU-lockstep', 'functions operating on R or U', n, 8)
    # the constructors build R wholesale and U by _initialize_U: one identity column per column of R
    fs = [f for f in F.functions if f.get('clsname') == 'RU_matrix' and f['name'] == '_initialize_U'
          and f['inst'] in (0, 2)]
    if not fs:
        raise AnalysisBroken('C05: RU_matrix::_initialize_U not found')
    loops = [x for x in ir.walk(fs[0]['body']) if x.get('k') == 'ForStmt']
    ok = len(loops) == 1 and ir.show(loops[0].get('cond')) == '(i < reducedMatrixR_.get_number_of_columns())' and \
        ir.contains(loops[0].get('body'), lambda y: ir.is_call(y) and ir.call_name(y) == 'insert_column' and
                    ir.show(ir.call_receiver(y)) == 'mirrorMatrixU_')
    chk.ob('E2-RU-lockstep', 'RU_matrix::_initialize_U inserts one column in U per column of R',
           '%s:%d' % (rel(fs[0]['file']), fs[0]['line']), ok, '' if ok else 'loop shape changed',
           key='E2|RU_matrix::_initialize_U|one-per-column')


def run_ru_pivots_and_bars(chk, F):
    def fn(name, cls='RU_matrix'):
        fs = [f for f in F.functions if f.get('clsname') == cls and f['name'] == name and f['inst'] in (0, 2)]
        if not fs:
            raise AnalysisBroken('C05: %s::%s not found' % (cls, name))
        return fs[0]

    def cl(x):
        ev = []
        if ir.is_call(x):
            n = ir.call_name(x)
            if n in ('_update_barcode', '_add_bar'):
                ev.append('BAR')
            if n == '_reduce_column':
                ev.append('BAR')      # carries exactly one bar event (checked on _reduce_column itself)
            if n == '_remove_last_in_barcode':
                ev.append('UNBAR')
            if n == 'try_emplace' and ir.show(ir.call_receiver(x)) == 'pivotToColumnIndex_':
                ev.append('PIV')
            if n == 'erase' and ir.show(ir.call_receiver(x)) == 'pivotToColumnIndex_':
                ev.append('UNPIV')
            if n == '_update_barcode':
                ev.append('UPD')
        t = ir.write_target(x)
        if t is not None and x.get('op') == '=' and ir.show(t).startswith('pivotToColumnIndex_['):
            ev.append('UNPIV' if 'get_null_value' in ir.show(x['c'][-1]) else 'PIV')
        return ev
    for name in ('_reduce_column', '_reduce_last_column'):
        f = fn(name)
        ps = paths.enumerate_paths(f, cl, loop_mode='01', keep_conds=True)
        bad = None
        for p in ps:
            if p.end == 'throw':
                continue
            tags = p.tags()
            if tags.count('BAR') != 1 and bad is None:
                bad = ('%d barcode events' % tags.count('BAR'), p)
            if name == '_reduce_column':
                if ('UPD' in tags) != ('PIV' in tags) and bad is None:
                    bad = ('the pivot is %srecorded although the column %s' % (
                        '' if 'PIV' in tags else 'not ', 'is paired' if 'UPD' in tags else 'is zero'), p)
        chk.ob('E2n-bars', 'RU_matrix::%s: exactly one barcode event per inserted column, pivot recorded iff the '
               'column stays non-zero' % name, '%s:%d' % (rel(f['file']), f['line']), bad is None,
               '' if bad is None else bad[0], key='E2n|RU_matrix::%s|bars' % name)
    f = fn('remove_last')
    ps = paths.enumerate_paths(f, cl, loop_mode='01', keep_conds=True)
    bad = None
    for p in ps:
        if p.end == 'throw':
            continue
        tags = p.tags()
        if not tags:
            continue      # empty matrix
        if tags.count('UNBAR') != 1 and bad is None:
            bad = '%d barcode removals' % tags.count('UNBAR')
        if tags.count('UNPIV') < 1 and not any(not pol and 'lastPivot !=' in ir.show(c) for c, pol, _ in p.conds
                                                 if not isinstance(c, tuple)) and bad is None:
            bad = 'the pivot of the removed column stays in pivotToColumnIndex_'
    chk.ob('E2n-bars', 'RU_matrix::remove_last removes exactly one bar and forgets the pivot of the removed column',
           '%s:%d' % (rel(f['file']), f['line']), bad is None, bad or '', key='E2n|RU_matrix::remove_last|bars')


def run_chain(chk, F):
    """chain matrix: the pivot dictionary follows every column insertion/removal"""
    fns = [f for f in F.functions if f.get('clsname') == 'Chain_matrix' and f['inst'] in (0, 2)]
    if not fns:
        raise AnalysisBroken('C05: Chain_matrix not found')

    def cl(x):
        ev = []
        if ir.is_call(x):
            n = ir.call_name(x)
            r = ir.call_receiver(x)
            rt = ir.show(r) if r is not None else ''
            if n in ('try_emplace', 'emplace', 'emplace_back', 'push_back') and rt == 'matrix_':
                ev.append('COL+')
            if n in ('erase', 'pop_back') and rt == 'matrix_':
                ev.append('COL-')
            if n in ('try_emplace', 'emplace') and rt == 'pivotToColumnIndex_':
                ev.append('PIV+')
            if n == 'erase' and rt == 'pivotToColumnIndex_':
                ev.append('PIV-')
        t = ir.write_target(x)
        if t is not None and x.get('op') == '=' and ir.show(t).startswith('pivotToColumnIndex_['):
            ev.append('PIV-' if 'get_null_value' in ir.show(x['c'][-1]) else 'PIV+')
        return ev
    def bal(tags):
        return tags.count('COL+') == tags.count('PIV+') and tags.count('COL-') == tags.count('PIV-')
    n = balanced_with_helpers(
        chk, 'E2-chain-pivots', fns, lambda f: cl, bal,
        lambda f: 'Chain_matrix::%s keeps pivotToColumnIndex_ in step with the column container' % f['name'],
        lambda f: 'E2|Chain_matrix::%s|pivots|%d' % (f['name'], len(f['params'])),
        skip_kinds=('copy_ctor', 'move_ctor', 'ctor', 'copy_assign', 'move_assign', 'dtor', 'default_ctor'))
    chk.expect_count('E2-chain-pivots', 'functions inserting/removing chain columns', n, 2)


def run_chain_add(chk, F):
    """Chain_matrix::_add_to: when the addition changed the pivot of the target, the two dictionary entries are
    exchanged (in both container arms)"""
    fs = [f for f in F.functions if f.get('clsname') == 'Chain_matrix' and f['name'] == '_add_to'
          and f['inst'] in (0, 2) and len(f['params']) == 2 and f['params'][1]['n'] == 'addition']
    if len(fs) != 1:
        raise AnalysisBroken('C05: Chain_matrix::_add_to(Column&, F&&) not found')
    f = fs[0]

    def cl(x):
        if ir.is_call(x) and ir.call_name(x) == 'swap' and all('pivotToColumnIndex_' in ir.show(a)
                                                                for a in ir.call_args(x)):
            return ['PIVSWAP']
        if ir.is_call(x) and ir.show(ir.callee_expr(x)) == 'addition':
            return ['ADD']
        return []
    ps = paths.enumerate_paths(f, cl, loop_mode='01', keep_conds=True)
    bad = None
    for p in ps:
        changed = [pol for c, pol, cx in p.conds if not isinstance(c, tuple) and not cx and
                   'get_pivot()' in ir.show(c) and '!=' in ir.show(c)]
        tags = p.tags()
        if tags.count('ADD') != 1 and bad is None:
            bad = 'the addition runs %d times' % tags.count('ADD')
        if changed and changed[0] and 'PIVSWAP' not in tags and bad is None:
            bad = 'the pivot of the target changed but the dictionary entries are not exchanged'
        if changed and not changed[0] and 'PIVSWAP' in tags and bad is None:
            bad = 'dictionary entries exchanged although the pivot did not change'
    chk.ob('E2-chain-pivots', 'Chain_matrix::_add_to exchanges the pivot entries exactly when the pivot changed',
           '%s:%d' % (rel(f['file']), f['line']), bad is None, bad or '', key='E2|Chain_matrix::_add_to|pivot-swap')


ROW_KIND_FILES = ('Boundary_matrix.h', 'base_swap.h', 'matrix_row_access.h', 'RU_matrix.h', 'ru_vine_swap.h')
ROW_KIND_CONTAINERS = {'indexToRow_': ('ID', 'ID'), 'rowToIndex_': ('ID', 'ID'), 'matrix_': ('POS', None),
                       'rows_': ('ID', None), 'idToPosition_': ('ID', 'POS'), 'map_': ('POS', 'ID'),
                       'pivotToColumnIndex_': ('ID', 'POS')}


def run_row_kinds(chk, F, only=None, floor=150):
    """E11-row-kinds: in the boundary and RU flavours the rows of R are cell identifiers and the columns are positions
    (the rows and columns of U are positions); a cell may carry an identifier different from its position. The
    dictionaries (pivot -> column, row permutation of the lazy swaps, identifier <-> position) are addressed with their
    key kind, arguments have the kind of their parameter (`rowIndex`, `cellIndex`, `pivot` parameters are rows even
    where they are declared Index), calls on mirrorMatrixU_ take positions for rows, returned values have the declared
    kind. Deliberate identifications are listed one by one in tables/c05.json. `only`: report the functions of these
    files (signatures are always read from the whole family)."""
    fns = [f for f in F.functions if f['inst'] in (0, 2) and f['file'].split('/')[-1] in ROW_KIND_FILES and
           f.get('body') is not None]
    if len(fns) < 8:
        raise AnalysisBroken('C05: boundary / RU family not found (%d functions)' % len(fns))
    kt = {'Index': 'POS', 'Pos_index': 'POS', 'ID_index': 'ID'}
    kc = kinds.KindChecker(
        fns, ROW_KIND_CONTAINERS, kinds_table=kt,
        name_kinds=[(r'rowIndex\d*', 'ID'), (r'cellIndex|cellID|faceID|pivot', 'ID')],
        receiver_maps={'mirrorMatrixU_': {'ID': 'POS'}}, check_returns=True,
        extra_sigs={('get_pivot', 1): (['POS'], 'ID'), ('get_pivot', 0): ([], 'ID'),
                    ('_get_real_row_index', 1): (['ID'], 'ID')})
    # functions whose declared return typedef does not carry the kind the documentation gives (a pivot is a row)
    ret_rows = ('get_pivot', '_get_real_row_index', 'get_column_with_pivot')
    ok = ROW_TABLE['row_kind_conflations_ok']
    total = 0
    for f in fns:
        if only and f['file'].split('/')[-1] not in only:
            continue
        before, c0 = len(kc.reports), kc.checked
        kc.run(f)
        total += kc.checked - c0
        owner = f.get('clsname') or '-'
        reps = list(zip(kc.reports[before:], kc.report_sigs[before:]))
        if f['name'] in ret_rows or (owner == 'Boundary_matrix' and f['name'] == 'remove_last'):
            reps = [r for r in reps if not r[1].startswith('ret:')]
        if kc.checked == c0 and not reps:
            continue
        real, seen = [], {}
        for (nd, m), sig in reps:
            k = '%s::%s|%s' % (owner, f['name'], sig)
            seen[k] = seen.get(k, 0) + 1
            if k in ok and seen[k] <= ok[k]['n']:
                chk.count('documented row/position identifications')
            else:
                real.append((nd, m, sig))
        chk.ob('E11-row-kinds', '%s::%s keeps rows (cell identifiers) and positions apart (%d meetings)' % (
            owner, f['name'], kc.checked - c0), '%s:%d' % (rel(f['file']), f['line']), not real,
            '; '.join('line %s: %s' % (nd.get('l'), m) for nd, m, _ in real[:3]),
            key='E11r|%s::%s|%s' % (owner, f['name'], real[0][2] if real else ''))
    chk.count('row/position meetings checked', total)
    chk.expect_count('E11-row-kinds', 'row/position meetings', total, floor)


def run_pairing_kinds(chk, F):
    """The barcode bookkeeping of the boundary and RU flavours maps cell identifiers to positions (idToPosition_) and
    positions back to identifiers (the position mapper's map_): identifiers and positions never meet (index-kind
    analysis; positions and column indices coincide for these flavours and are one kind here)"""
    files = ('ru_pairing.h', 'base_pairing.h', 'boundary_cell_position_to_id_mapper.h')
    fns = [f for f in F.functions if f['inst'] in (0, 2) and f['file'].split('/')[-1] in files]
    kt = {'Index': 'POS', 'Pos_index': 'POS', 'ID_index': 'ID'}
    conts = {'indexToBar_': ('POS', None), 'deathToBar_': ('POS', None), 'idToPosition_': ('ID', 'POS'),
             'map_': ('POS', 'ID')}
    kc = kinds.KindChecker(fns, conts, kinds_table=kt)
    for f in fns:
        before, c0 = len(kc.reports), kc.checked
        kc.run(f)
        reps = kc.reports[before:]
        if kc.checked == c0 and not reps:
            continue
        owner = f.get('clsname') or '-'
        chk.ob('E11-index-kinds', '%s::%s keeps cell identifiers and positions apart (%d meetings)' % (
            owner, f['name'], kc.checked - c0), '%s:%d' % (rel(f['file']), f['line']), not reps,
            '; '.join('line %s: %s' % (nd.get('l'), m) for nd, m in reps[:3]),
            key='E11|%s::%s|%s' % (owner, f['name'], reps[0][1][:60] if reps else ''))
    chk.count('identifier/position meetings checked', kc.checked)
    chk.expect_count('E11-index-kinds', 'identifier/position meetings', kc.checked, 10)


def run(tier, replay=None):
    chk = Check('C05', tier,
                'Static decision of invariant-maintenance clauses of the persistence-matrix flavours: on every path of '
                'RU_matrix and RU_vine_swap the stored factor U receives the mirror of every column operation applied '
                'to R (so R and U keep factoring the boundary matrix); the reduction records the pivot of a column '
                'that stays non-zero and emits exactly one barcode event per inserted column; remove_last undoes both; '
                'the chain matrix keeps its pivot dictionary in step with its columns. That the reductions are correct '
                '(R reduced, barcode equal to an independent reduction) is not decided.',
                'companion-update / counting path rules over the clang AST (E2, E2n)')
    F = facts.extract(UNITS)
    run_lockstep(chk, F)
    run_ru_pivots_and_bars(chk, F)
    run_chain(chk, F)
    run_chain_add(chk, F)
    run_pairing_kinds(chk, F)
    run_dimension_flow(chk, F)
    run_dimension_overwrite(chk, F)
    run_pair_coefficients(chk, F)
    run_bar_order(chk, F)
    run_transposed_u_undo(chk, F)
    run_overlay_counter(chk, F)
    run_position_dictionary(chk, F)
    run_counter_guards(chk, F)
    run_row_kinds(chk, F)
    findrule.run(chk, F, ('Boundary_matrix.h', 'RU_matrix.h', 'base_pairing.h', 'ru_pairing.h', 'Chain_matrix.h',
                          'chain_pairing.h', 'Id_to_index_overlay.h', 'Position_to_index_overlay.h'),
                 ROW_TABLE['find_invariants'], 'C05', 10)
    run_identifier_enumeration(chk, F)
    run_coefficients_reduced(chk, F)
    run_unset_characteristic(chk)
    run_removal_undo(chk, F)
    chk.assumptions += ['clang 14 parser; template patterns', 'U is stored transposed for Z2: a column addition on R '
                        'is mirrored by add_to with exchanged indices or by one pushed entry']
    return chk


def run_dimension_flow(chk, F):
    """E10: a cell inserted with an explicit dimension keeps it: inside every function that receives a Dimension
    parameter, each call handing a Dimension on (to a callee whose parameter is declared Dimension) passes a value
    that is data-dependent on that parameter - never a constant or an unrelated value"""
    fams = ('Chain_matrix', 'Boundary_matrix', 'RU_matrix', 'Base_matrix', 'Id_to_index_overlay',
            'Position_to_index_overlay', 'Matrix')
    fns = [f for f in F.functions if f['inst'] in (0, 2) and f.get('clsname') in fams]
    dimpos = {}
    for f in fns:
        pos = [i for i, p in enumerate(f.get('params', [])) if (p.get('t') or '').split('::')[-1].replace(
            'const ', '').strip() == 'Dimension']
        if pos:
            dimpos.setdefault((f['name'], len(f['params'])), set()).update(pos)
    n = 0
    for f in fns:
        dps = [p for p in f.get('params', []) if (p.get('t') or '').split('::')[-1].strip() == 'Dimension']
        if not dps or f.get('body') is None:
            continue
        seeds = {p['id'] for p in dps}
        # def-use closure over locals and over reassignments of the parameter itself
        dep = set(seeds)
        changed = True
        while changed:
            changed = False
            for x in ir.walk(f['body']):
                if x.get('k') == 'VarDecl' and x.get('init') is not None and x.get('id') not in dep:
                    if any(y.get('k') == 'DeclRefExpr' and y.get('id') in dep for y in ir.walk(x['init'])):
                        dep.add(x['id'])
                        changed = True
        for x in ir.walk(f['body']):
            if not ir.is_call(x):
                continue
            args = ir.call_args(x)
            pos = dimpos.get((ir.call_name(x), len(args)))
            if not pos:
                continue
            for i in pos:
                a = args[i]
                n += 1
                ok = any(y.get('k') == 'DeclRefExpr' and y.get('id') in dep for y in ir.walk(a))
                chk.ob('E10-dimension', '%s::%s hands its dimension parameter on to %s' % (
                    f['clsname'], f['name'], ir.call_name(x)), '%s:%s' % (rel(f['file']), x.get('l')), ok,
                    '' if ok else 'the dimension argument `%s` does not depend on the dimension the caller supplied: '
                    'the cell is stored (and its bar reported) in another dimension' % ir.show(a)[:40],
                    key='E10|%s::%s|dimension->%s|%d' % (f['clsname'], f['name'], ir.call_name(x), len(f['params'])))
    chk.expect_count('E10-dimension', 'dimension hand-overs', n, 10)


# ------------------------------------------------------------------ E10 (column, coefficient) pairs

def run_pair_coefficients(chk, F):
    """E10: the reductions carry linear combinations as (column, coefficient) pairs. Whenever the coefficient handed
    to a scaling operation is the `.second` of such a pair, the column that operation scales is the `.first` of the
    same pair (directly, or through a local initialised from it): `X *= c` scales X; multiply_source_and_add[_to]
    scales the source; multiply_target_and_add[_to] scales the target; the chain helper _add_to(column, set, c)
    scales `column`. A coefficient applied to another column than its own changes the combination."""
    import re
    n = 0
    for f in F.functions:
        if f.get('inst') not in (0, 2) or f.get('body') is None or PM not in f['file']:
            continue
        locs = {}
        for x in ir.walk(f['body']):
            if x.get('k') == 'VarDecl' and x.get('init') is not None:
                locs[x['n']] = ir.show(x['init'])
        for x in ir.walk(f['body']):
            scaled = coef = None
            what = None
            if x.get('k') in ('CompoundAssignOperator', 'CXXOperatorCallExpr') and x.get('op') == '*=':
                c = (x.get('c') or [])[-2:]
                if len(c) == 2:
                    scaled, coef, what = c[0], c[1], '*='
            elif ir.is_call(x):
                nm = ir.call_name(x)
                a = ir.call_args(x)
                if nm == 'multiply_source_and_add_to' and len(a) == 3:
                    coef, scaled, what = a[0], a[1], nm
                elif nm == 'multiply_target_and_add_to' and len(a) == 3:
                    scaled, coef, what = a[2], a[1], nm
                elif nm == 'multiply_source_and_add' and len(a) == 2:
                    scaled, coef, what = a[0], a[1], nm
                elif nm == 'multiply_target_and_add' and len(a) == 2 and ir.call_receiver(x) is not None:
                    coef, scaled, what = a[0], ir.call_receiver(x), nm
                elif nm == '_add_to' and len(a) == 3 and ir.is_this_call(x):
                    scaled, coef, what = a[0], a[2], nm
            if coef is None:
                continue
            ct = ir.show(coef)
            m = re.match(r'^\(?(.+?)\)?(->|\.)second$', ct)
            if not m:
                continue
            base = m.group(1)
            n += 1
            st = ir.show(scaled)
            firsts = (base + '.first', base + '->first', '(' + base + ').first', '*' + base + '.first')

            def from_first(t, depth=2):
                if any(ft in t for ft in firsts):
                    return True
                if depth == 0:
                    return False
                return any(re.search(r'(?<![\w.])%s(?!\w)' % re.escape(v), t) and from_first(init, depth - 1)
                           for v, init in locs.items())
            ok = from_first(st)
            chk.ob('E10-pair-coefficient', '%s: the coefficient %s scales the column of its own pair (%s)'
                   % (f['qual'].split('::')[-2] + '::' + f['name'], ct, what), '%s:%s' % (rel(f['file']), x.get('l')),
                   ok, '' if ok else '%s scales `%s`, which does not come from %s.first: the coefficient of one '
                   'chain multiplies another column (the combination computed is not sum c_i * column_i)'
                   % (what, st, base), key='E10|%s|pair|%s' % (f['name'], ct))
    chk.expect_count('E10-pair-coefficient', 'scaling operations fed from a (column, coefficient) pair', n, 3)


# ------------------------------------------------------------------ E9 order of the stored bars (boundary flavour)

def run_bar_order(chk, F):
    """E9: the boundary-only flavour with removable columns removes the bar of the last (positive) cell with
    barcode_.pop_back(): the removal relies on the bars being sorted by birth alone - the removed cell has the
    highest position. The comparator of the sort in _reduce is therefore exactly the strict order on `birth`
    (evaluated on the three relations of the two births), and _remove_last pops the back for a birth."""
    from gsa import cmprules
    fs = [f for f in F.functions if f.get('clsname') == 'Base_pairing' and f['name'] == '_reduce' and
          f.get('inst') in (0, 2) and f.get('body') is not None]
    rs = [f for f in F.functions if f.get('clsname') == 'Base_pairing' and f['name'] == '_remove_last' and
          f.get('inst') in (0, 2) and f.get('body') is not None]
    if len(fs) != 1 or len(rs) != 1:
        raise AnalysisBroken('C05: Base_pairing::_reduce / _remove_last not found')
    f, r = fs[0], rs[0]
    pops = [x for x in ir.walk(r['body']) if ir.is_call(x) and ir.call_name(x) in ('pop_back', 'erase') and
            'barcode_' in ir.show(x)]
    relies = any(ir.call_name(x) == 'pop_back' for x in pops)
    sorts = [x for x in cmprules.sort_calls(f) if 'barcode_' in ir.show(x)]
    if not relies:
        # the removal no longer depends on the order of the bars: nothing to require from the sort
        chk.ob('E9-bar-order', 'Base_pairing::_remove_last does not rely on the order of the bars',
               '%s:%d' % (rel(r['file']), r['line']), True, '', key='E9|Base_pairing|bar-order', nontrivial=False)
        return
    if len(sorts) != 1:
        raise AnalysisBroken('C05: the sort of barcode_ in Base_pairing::_reduce was not found')
    lam = ir.skipcasts(ir.call_args(sorts[0])[-1])
    if lam is None or lam.get('k') != 'LambdaExpr':
        raise AnalysisBroken('C05: the bar comparator is not a lambda')
    pseudo = {'qual': 'Base_pairing::_reduce bar comparator', 'file': f['file'], 'line': lam.get('l') or f['line'],
              'body': lam['body'], 'params': lam.get('params', [])}
    cas = cmprules.Cascade(pseudo, None, None)
    keys = cas.keys()
    ok = keys == ['@.birth']
    detail = ''
    if ok:
        res = {r_: cas.run({'@.birth': r_}) for r_ in ('lt', 'eq', 'gt')}
        ok = res == {'lt': True, 'eq': False, 'gt': False}
        detail = '' if ok else 'returns %s on (b1.birth < b2.birth, ==, >)' % [res['lt'], res['eq'], res['gt']]
    else:
        detail = ('keys compared: %s - _remove_last pops the back of barcode_ for the removed positive cell, which is '
                  'the bar of highest birth only if the bars are sorted by birth alone' % keys)
    chk.ob('E9-bar-order', 'Base_pairing::_reduce sorts the bars by birth alone (what _remove_last\'s pop_back relies on)',
           '%s:%s' % (rel(f['file']), sorts[0].get('l')), ok, detail, key='E9|Base_pairing|bar-order')


# ------------------------------------------------------------------ E2 removal undoes what the reduction wrote into U

def run_transposed_u_undo(chk, F):
    """E2: for Z_2 the factor U is stored transposed: reducing cell n by column j writes an entry of row n into the
    *stored column j* (`mirrorMatrixU_.get_column(j).push_back(...)`), not into the stored column n. remove_last
    therefore has to erase the entries of row n from the other stored columns before it drops the stored column n:
    it contains a loop over the columns that zeroes (column, removed index) in U. Decided as a companion rule: the
    obligation exists exactly when some function of RU_matrix writes into a stored column of U other than the one
    it inserts."""
    fns = [f for f in F.functions if f.get('clsname') == 'RU_matrix' and f.get('inst') in (0, 2) and
           f.get('body') is not None]
    if not fns:
        raise AnalysisBroken('C05: RU_matrix not found')
    writers = []
    for f in fns:
        for x in ir.walk(f['body']):
            if ir.is_call(x) and ir.call_name(x) in ('push_back', 'emplace_back', 'insert') and \
                    ir.call_receiver(x) is not None:
                r = ir.show(ir.call_receiver(x))
                if r.startswith('mirrorMatrixU_.get_column('):
                    writers.append((f, x, r))
    rl = [f for f in fns if f['name'] == 'remove_last']
    if len(rl) != 1:
        raise AnalysisBroken('C05: RU_matrix::remove_last not found')
    rl = rl[0]
    where = '%s:%d' % (rel(rl['file']), rl['line'])
    if not writers:
        chk.ob('E2-U-undo', 'RU_matrix writes into U only through column operations on the inserted column', where,
               True, '', key='E2|RU_matrix::remove_last|U-undo', nontrivial=False)
        return
    removed = None
    for x in ir.walk(rl['body']):
        if ir.is_call(x) and ir.call_name(x) == '_remove_last_in_barcode' and ir.call_args(x):
            removed = ir.show(ir.call_args(x)[0])
    if removed is None:
        raise AnalysisBroken('C05: the removed index of RU_matrix::remove_last was not identified')
    ok = False
    order_ok = False
    seen_erase = False
    par_rl = ir.parents(rl['body'])
    conditional = None
    for x in ir.walk(rl['body']):
        if x.get('k') in ('ForStmt', 'WhileStmt', 'CXXForRangeStmt'):
            for y in ir.walk(x.get('body')):
                if ir.is_call(y) and ir.call_name(y) in ('zero_entry', 'clear') and 'mirrorMatrixU_' in ir.show(y) \
                        and ir.call_args(y) and removed in ir.show(ir.call_args(y)[-1]):
                    ok = True
                    seen_erase = True
                    # the sweep runs for every removed cell: it is not under a run-time condition
                    cur = x
                    while id(cur) in par_rl:
                        cur = par_rl[id(cur)]
                        if cur.get('k') == 'IfStmt' and not cur.get('constexpr'):
                            conditional = cur
        if ir.is_call(x) and ir.call_name(x) == 'remove_last' and 'mirrorMatrixU_' in ir.show(x):
            order_ok = seen_erase
    w = writers[0]
    if ok and order_ok and conditional is not None:
        chk.ob('E2-U-undo', 'RU_matrix::remove_last erases the row of the removed cell from the stored columns of U '
               'for every removed cell', where, False, 'the sweep only runs when `%s`: %s writes a row entry for '
               'every column it adds, whatever the sign of the reduced cell (a negative cell reduced by at least one '
               'addition leaves entries behind)' % (ir.show(conditional.get('cond'))[:100], w[0]['name']),
               key='E2|RU_matrix::remove_last|U-undo')
        return
    chk.ob('E2-U-undo', 'RU_matrix::remove_last erases the row of the removed cell from the stored columns of U '
           '(written by %s, line %s)' % (w[0]['name'], w[1].get('l')), where, ok and order_ok,
           '' if ok and order_ok else ('%s writes an entry of the reduced cell\'s row into %s, a stored column that '
                                       'remove_last does not drop; remove_last has no loop zeroing (column, %s) in '
                                       'mirrorMatrixU_%s: the entries survive the removal and a re-inserted cell '
                                       'gets a second entry in the same row' %
                                       (w[0]['name'], w[2], removed, '' if not ok else ' before the column is dropped')),
           key='E2|RU_matrix::remove_last|U-undo')


# ------------------------------------------------------------------ E2n the overlay's index counter follows the matrix

def _is_dec(x, name):
    if x.get('k') == 'UnaryOperator' and x.get('op') == '--' and ir.show((x.get('c') or [{}])[0]) == name:
        return True
    if x.get('k') == 'CompoundAssignOperator' and x.get('op') == '-=' and ir.show((x.get('c') or [{}])[0]) == name:
        return True
    return False


def run_overlay_counter(chk, F):
    """E2n: with POSITION indexing the overlay numbers the columns itself: positionToIndex_[p] = nextIndex_++ assumes
    that the underlying chain matrix gives the next inserted column that very index. Chain_matrix::_remove_last
    gives the last index back (--nextIndex_) exactly in the configuration read from its own `if constexpr` guard;
    on every path of the overlay's remove_last that removes the last column through matrix_.remove_last(), the
    overlay's counter is decremented in exactly that configuration, and never otherwise."""
    chain = [f for f in F.functions if f.get('clsname') == 'Chain_matrix' and f.get('inst') in (0, 2) and
             f.get('body') is not None and f['name'] == '_remove_last']
    over = [f for f in F.functions if f.get('clsname') == 'Position_to_index_overlay' and f.get('inst') in (0, 2) and
            f.get('body') is not None and f['name'] == 'remove_last']
    if len(chain) != 1 or len(over) != 1:
        raise AnalysisBroken('C05: Chain_matrix::_remove_last / Position_to_index_overlay::remove_last not found')
    chain, over = chain[0], over[0]
    par = ir.parents(chain['body'])
    decs = [x for x in ir.walk(chain['body']) if _is_dec(x, 'nextIndex_')]
    where = '%s:%d' % (rel(over['file']), over['line'])
    # configuration in which the chain matrix reuses the index: polarity of has_vine_update on the way to the decrement
    reuse_when_vine = None      # None: never decremented ; False: decremented when vine is off ; 'always'
    if decs:
        cur = decs[0]
        reuse_when_vine = 'always'
        while id(cur) in par:
            up = par[id(cur)]
            if up.get('k') == 'IfStmt' and up.get('constexpr') and 'has_vine_update' in ir.show(up.get('cond')):
                neg = ir.show(up['cond']).lstrip('(').startswith('!')
                in_then = cur is up.get('then') or ir.contains(up.get('then'), lambda y: y is decs[0])
                reuse_when_vine = (not neg) if in_then else neg
            cur = up
        if len(decs) > 1:
            raise AnalysisBroken('C05: Chain_matrix::_remove_last decrements nextIndex_ at several places')

    def cl(x):
        if _is_dec(x, 'nextIndex_'):
            return ['DEC']
        if ir.is_call(x) and ir.call_name(x) == 'remove_last' and 'matrix_' in ir.show(x):
            return ['RL']
        if ir.is_call(x) and ir.call_name(x) == 'remove_maximal_cell' and 'matrix_' in ir.show(x):
            return ['RMC']
        return []
    ps = paths.enumerate_paths(over, cl, loop_mode='01', keep_conds=True, cap=2000)
    bad = None
    n = 0
    for p in ps:
        if p.end == 'throw':
            continue
        tags = p.tags()
        vine = None
        for c, pol, cx in p.conds:
            if isinstance(c, tuple) or not cx:
                continue
            t = ir.show(c)
            if 'has_vine_update' in t:
                vine = pol if not t.lstrip('(').startswith('!') else (not pol)
        n += 1
        if 'RL' in tags:
            if reuse_when_vine is None:
                exp = 0
            elif reuse_when_vine == 'always':
                exp = 1
            elif vine is None:
                raise AnalysisBroken('C05: the overlay removes through matrix_.remove_last() on a path that does not '
                                     'decide has_vine_update')
            else:
                exp = 1 if vine == reuse_when_vine else 0
        else:
            exp = 0
        if tags.count('DEC') != exp and bad is None:
            bad = (tags, vine, exp)
    chk.count('overlay removal paths', n)
    chk.ob('E2n-overlay-counter', 'Position_to_index_overlay::remove_last decrements nextIndex_ exactly when the chain '
           'matrix gives its last index back (%s)' % ('never' if reuse_when_vine is None else 'always' if
                                                      reuse_when_vine == 'always' else 'has_vine_update == %s'
                                                      % str(reuse_when_vine).lower()), where, bad is None,
           '' if bad is None else 'a path with has_vine_update == %s performs %s and decrements nextIndex_ %d time(s), '
           'expected %d: the next inserted position is mapped to an index the matrix does not use' %
           (bad[1], [t for t in bad[0] if t != 'DEC'], bad[0].count('DEC'), bad[2]),
           key='E2n|Position_to_index_overlay::remove_last|counter')


# ------------------------------------------------------------------ E10 a given dimension is never overwritten

def run_dimension_overwrite(chk, F, only_unit=None, min_count=2):
    """E10-dimension-kept: the dimension of a cell may be *deduced* from its boundary only when the caller gave none:
    every assignment to a Dimension parameter lies in the true arm of a test `parameter == <null value>` (or is a
    conditional expression on that test). An assignment outside such a test replaces the dimension the caller
    supplied (a loop cell - dimension 1, empty boundary over Z_2 - would be filed as a vertex)."""
    fams = ('Chain_matrix', 'Boundary_matrix', 'RU_matrix', 'Base_matrix', 'Id_to_index_overlay',
            'Position_to_index_overlay', 'Matrix', 'Base_matrix_with_column_compression')
    n = 0
    for f in F.functions:
        if f['inst'] not in (0, 2) or f.get('clsname') not in fams or f.get('body') is None:
            continue
        if only_unit is not None and f.get('unit') != only_unit:
            continue
        dps = [p for p in f.get('params', []) if (p.get('t') or '').split('::')[-1].strip() == 'Dimension']
        if not dps:
            continue
        names = {p['n'] for p in dps}
        par = ir.parents(f['body'])
        for x in ir.walk(f['body']):
            if not (x.get('k') == 'BinaryOperator' and x.get('op') == '='):
                continue
            l = ir.skipcasts(x['c'][0])
            if l is None or l.get('k') != 'DeclRefExpr' or l.get('n') not in names:
                continue
            d = l['n']
            n += 1

            def null_test(c, d=d):
                t = ir.show(c).replace(' ', '')
                return (d + '==') in t.replace('(', '') and ('get_null_value' in t or '-1' in t)
            ok = False
            cur = x
            while id(cur) in par:
                up = par[id(cur)]
                if up.get('k') == 'IfStmt' and not up.get('constexpr') and null_test(up.get('cond')) and \
                        (cur is up.get('then') or ir.contains(up.get('then'), lambda y: y is x)) and \
                        '||' not in ir.show(up.get('cond')):
                    ok = True
                cur = up
            r = ir.skipcasts(x['c'][1])
            if not ok and r is not None and r.get('k') == 'ConditionalOperator' and null_test(r['c'][0]) and \
                    ir.show(r['c'][2]).replace(' ', '') == d:
                ok = True
            chk.ob('E10-dimension-kept', '%s::%s: `%s` is only deduced when the caller gave no dimension'
                   % (f['clsname'], f['name'], ir.show(x)[:60]), '%s:%s' % (rel(f['file']), x.get('l')), ok,
                   '' if ok else 'the assignment is not under `%s == <null value>`: a dimension supplied by the caller '
                   'is replaced' % d, key='E10|%s::%s|dimension-kept|%s' % (f['clsname'], f['name'], x.get('l') if False
                                                                           else ir.show(x['c'][1])[:40]))
    chk.expect_count('E10-dimension-kept', 'assignments to a Dimension parameter', n, min_count)


# ------------------------------------------------------------------ E9 coefficients of a boundary enter the field reduced
RANGE_TPARAMS = ('Container', 'Boundary_range')
CONSTRUCTS = ('CXXUnresolvedConstructExpr', 'CXXConstructExpr', 'CXXTemporaryObjectExpr', 'VarDecl', 'BinaryOperator')


def _under_z2_arm(par, x):
    cur = x
    while id(cur) in par:
        up = par[id(cur)]
        if up.get('k') == 'IfStmt' and up.get('constexpr') and \
                ir.show(up.get('cond')).replace(' ', '').split('::')[-1] in ('is_z2', '(is_z2)'):
            th = up.get('then')
            if cur is th or (th is not None and ir.contains(th, lambda y: y is x)):
                return True
        cur = up
    return False


def run_coefficients_reduced(chk, F, min_count=30):
    """E9-coefficient-reduced: the coefficient of an entry of a boundary / column given by the caller (a parameter whose
    type is the template parameter Container or Boundary_range) is an arbitrary integer; it becomes a field element
    only through `operators.get_value`. Every read `e.second` of an element of such a parameter is the argument of a
    get_value call, and the parameter is copied wholesale (begin()/end() handed to a constructor or assignment) only
    in the arm `if constexpr (is_z2)` (where no coefficient is read). Handing the parameter on to another function is
    not a read (the receiving function is checked)."""
    n = 0
    for f in F.functions:
        if f['inst'] not in (0, 2) or f.get('body') is None or '/Persistence_matrix/' not in f['file'] and \
                not f['file'].endswith('Matrix.h'):
            continue
        ps = [q for q in f.get('params', [])
              if (q.get('t') or '').replace('const ', '').replace('&', '').strip() in RANGE_TPARAMS]
        if not ps:
            continue
        par = ir.parents(f['body'])
        who = '%s::%s' % (f.get('clsname'), f['name'].split('<')[0])
        for q in ps:
            for x in ir.walk(f['body']):
                if x.get('k') == 'CXXForRangeStmt' and ir.skipcasts(x['range']).get('k') == 'DeclRefExpr' and \
                        ir.skipcasts(x['range']).get('n') == q['n']:
                    v = x['var'].get('n')
                    for y in ir.walk(x['body']):
                        if y.get('n') != 'second' or not y.get('c'):
                            continue
                        b = ir.skipcasts(y['c'][0])
                        if b is None or b.get('k') != 'DeclRefExpr' or b.get('n') != v:
                            continue
                        n += 1
                        up = par.get(id(y))
                        while up is not None and up.get('k') in ('ImplicitCastExpr', 'ParenExpr'):
                            up = par.get(id(up))
                        ok = (up is not None and ir.is_call(up) and ir.call_name(up) == 'get_value') or \
                            _under_z2_arm(par, y)
                        chk.ob('E9-coefficient-reduced', '%s reads the coefficient `%s.second` of `%s` through '
                               'get_value' % (who, v, q['n']), '%s:%s' % (rel(f['file']), y.get('l')), ok,
                               '' if ok else 'the coefficient given by the caller is used as a field element without '
                               'being reduced modulo the characteristic',
                               key='E9|%s|%s|raw-coefficient' % (who, q['n']))
                if x.get('k') == 'DeclRefExpr' and x.get('n') == q['n'] and x.get('dk') == 'ParmVar':
                    up = par.get(id(x))
                    if up is None or up.get('n') not in ('begin', 'end', 'cbegin', 'cend', 'rbegin', 'rend'):
                        continue
                    cur = par.get(id(up))   # the call begin()
                    top = par.get(id(cur)) if cur is not None else None
                    while top is not None and top.get('k') in ('ImplicitCastExpr', 'ParenExpr', 'ExprWithCleanups',
                                                               'MaterializeTemporaryExpr', 'CXXBindTemporaryExpr',
                                                               'ParenListExpr', 'InitListExpr'):
                        top = par.get(id(top))
                    if top is None or top.get('k') not in CONSTRUCTS or \
                            (top.get('k') == 'BinaryOperator' and top.get('op') != '='):
                        continue
                    if top.get('k') == 'VarDecl' and 'iterator' in (top.get('t') or ''):
                        continue
                    n += 1
                    ok = _under_z2_arm(par, x)
                    chk.ob('E9-coefficient-reduced', '%s copies `%s` wholesale only where no coefficient is read (Z_2)'
                           % (who, q['n']), '%s:%s' % (rel(f['file']), x.get('l')), ok,
                           '' if ok else 'the entries of the caller are copied with their raw coefficients outside '
                           'the Z_2 arm', key='E9|%s|%s|raw-copy' % (who, q['n']))
    chk.expect_count('E9-coefficient-reduced', 'coefficient reads / wholesale copies of caller ranges', n, min_count)
    # a coefficient that is a multiple of the characteristic is 0 in the field: it is no entry. Where the reduced value
    # of a caller's coefficient is stored, the path has compared it with zero (the additive identity)
    z = 0
    for f in F.functions:
        if f['inst'] not in (0, 2) or f.get('body') is None or '/Persistence_matrix/' not in f['file']:
            continue
        ps_ = [q for q in f.get('params', [])
               if (q.get('t') or '').replace('const ', '').replace('&', '').strip() in RANGE_TPARAMS]
        if not ps_:
            continue
        who = '%s::%s' % (f.get('clsname'), f['name'].split('<')[0])
        reads = [x for x in ir.walk(f['body']) if ir.is_call(x) and ir.call_name(x) == 'get_value' and ir.call_args(x)
                 and ir.show(ir.skipcasts(ir.call_args(x)[0])).endswith('.second')]
        if not reads:
            continue
        z += 1
        tested = any(y.get('k') == 'IfStmt' and any(op in ir.show(y.get('cond')) for op in ('!=', '==')) and
                     ('get_additive_identity' in ir.show(y.get('cond')) or
                      re.search(r'(!=|==)\s*0u?\b', ir.show(y.get('cond')))) for y in ir.walk(f['body']))
        chk.ob('E9-coefficient-reduced', '%s drops the entries of the caller whose coefficient is 0 in the field'
               % who, '%s:%s' % (rel(f['file']), reads[0].get('l')), tested,
               '' if tested else 'the reduced coefficient is stored without a test against zero: a coefficient which is '
               'a multiple of the characteristic becomes an entry of value 0, the column is "not empty" with a pivot '
               'that no reduction can cancel', key='E9|%s|zero-coefficient' % who)
    chk.expect_count('E9-coefficient-reduced', 'functions storing reduced coefficients of a caller range', z, 9)


# ------------------------------------------------------------------ E4 "no characteristic yet" is one value
def run_unset_characteristic(chk, min_count=5):
    """E4-unset-characteristic: Matrix asks the field operators whether a characteristic was given
    (`operators.get_characteristic() ==/!= v`: the warning of set_characteristic, the GUDHI_CHECKs "characteristic
    has to be set" before the first insertion). The value v it compares with is the value the constructors of
    Zp_field_operators store while no characteristic was set - read from their member initialisers. (The null value of
    the matrix, -1, is what the *constructors of Matrix* take for "not specified"; the operators never hold it.)"""
    F = facts.extract(TOP_UNITS)
    unset = set()
    for f in F.functions:
        if (f.get('clsname') or '').split('<')[0] != 'Zp_field_operators' or f.get('kind') not in ('ctor', 'default_ctor'):
            continue
        for i in f.get('inits') or []:
            if isinstance(i, dict) and i.get('member') == 'characteristic_' and i.get('written'):
                lits = [y.get('v') for y in ir.walk(i.get('init')) if y.get('k') == 'IntegerLiteral']
                if len(lits) != 1:
                    raise AnalysisBroken('Zp_field_operators: initial characteristic_ is not one literal')
                unset.add(int(lits[0]))
    if len(unset) != 1:
        raise AnalysisBroken('Zp_field_operators: no unique initial value of characteristic_ (%s)' % sorted(unset))
    u = next(iter(unset))
    n = 0
    for f in F.functions:
        if f.get('clsname') != 'Matrix' or f['inst'] not in (0, 2) or f.get('body') is None:
            continue
        for x in ir.walk(f['body']):
            if x.get('k') != 'BinaryOperator' or x.get('op') not in ('==', '!='):
                continue
            sides = [ir.skipcasts(c) for c in x['c']]
            gi = [i for i, c in enumerate(sides) if c is not None and ir.is_call(c) and
                  ir.call_name(c) == 'get_characteristic']
            if len(gi) != 1:
                continue
            o = sides[1 - gi[0]]
            n += 1
            ok = o is not None and o.get('k') == 'IntegerLiteral' and int(o.get('v')) == u
            chk.ob('E4-unset-characteristic', 'Matrix::%s tests the characteristic of the operators against their own '
                   '"not set" value %d' % (f['name'], u), '%s:%s' % (rel(f['file']), x.get('l')), ok,
                   '' if ok else '`%s` compares with a value the operators never hold while unset (they start at %d): '
                   'the test has one outcome' % (ir.show(x)[:90], u),
                   key='E4|Matrix::%s|unset-characteristic' % f['name'])
    chk.expect_count('E4-unset-characteristic', 'tests of the operators\' characteristic in Matrix', n, min_count)


# ------------------------------------------------------------------ E7 / E2n removal undoes the pairing state
def run_removal_undo(chk, F):
    """E7-remove-arms: Chain_matrix::_remove_last has one arm per column container; both unpair the partner of the removed
    column (`unassign_paired_chain` on it) - the survivor is an essential cycle again; an arm that forgets leaves it
    flagged as paired with a dangling partner, and the next boundary reduced onto it is filed as a new essential class.
    E2n-bar-entry: RU_pairing::_remove_last gives the dictionary entry of the removed position back on every path that
    found one (`indexToBar_.erase`): _add_bar / _update_barcode use try_emplace, a stale entry makes the next cell at
    that position write its death into the wrong bar."""
    fs = [f for f in F.functions if f.get('clsname') == 'Chain_matrix' and f['name'] == '_remove_last' and
          f.get('inst') in (0, 2) and f.get('body') is not None]
    if not fs:
        raise AnalysisBroken('C05: Chain_matrix::_remove_last not found')
    f = fs[0]
    arms = [x for x in ir.walk(f['body']) if x.get('k') == 'IfStmt' and x.get('constexpr') and
            'has_map_column_container' in ir.show(x.get('cond')) and x.get('else') is not None and
            (ir.contains(x.get('then'), lambda y: ir.is_call(y) and ir.call_name(y) == 'unassign_paired_chain') or
             ir.contains(x.get('else'), lambda y: ir.is_call(y) and ir.call_name(y) == 'unassign_paired_chain'))]
    if not arms:
        raise AnalysisBroken('C05: the container arms of Chain_matrix::_remove_last were not found')
    for a in arms:
        k1 = sum(1 for y in ir.walk(a.get('then')) if ir.is_call(y) and ir.call_name(y) == 'unassign_paired_chain')
        k2 = sum(1 for y in ir.walk(a.get('else')) if ir.is_call(y) and ir.call_name(y) == 'unassign_paired_chain')
        chk.ob('E7-remove-arms', 'Chain_matrix::_remove_last: the map arm and the vector arm both unpair the partner of '
               'the removed column', '%s:%s' % (rel(f['file']), a.get('l')), k1 == k2 and k1 >= 1,
               '' if k1 == k2 and k1 >= 1 else 'unassign_paired_chain is called %d time(s) in the map arm and %d in the '
               'vector arm: in one container configuration the surviving cycle stays flagged as paired' % (k1, k2),
               key='E7|Chain_matrix::_remove_last|unpair-arms')
    fs = [f for f in F.functions if f.get('clsname') == 'RU_pairing' and f['name'] == '_remove_last' and
          f.get('inst') in (0, 2) and f.get('body') is not None]
    if not fs:
        raise AnalysisBroken('C05: RU_pairing::_remove_last not found')
    f = fs[0]

    def cl(x):
        if ir.is_call(x) and ir.call_name(x) == 'erase' and ir.call_receiver(x) is not None and \
                ir.show(ir.call_receiver(x)).replace('this->', '') == 'indexToBar_':
            return ['ERASE']
        if ir.is_call(x) and ir.call_name(x) == 'find' and ir.call_receiver(x) is not None and \
                ir.show(ir.call_receiver(x)).replace('this->', '') == 'indexToBar_':
            return ['FIND']
        return []
    ps = [p_ for p_ in paths.enumerate_paths(f, cl, loop_mode='01', keep_conds=True, cap=20000)
          if paths.consistent_constexpr(p_)]
    with_find = [p_ for p_ in ps if 'FIND' in p_.tags() and p_.end != 'throw']
    if not with_find:
        raise AnalysisBroken('C05: RU_pairing::_remove_last no longer looks the bar up in indexToBar_')
    bad = [p_ for p_ in with_find if 'ERASE' not in p_.tags()]
    chk.ob('E2n-bar-entry', 'RU_pairing::_remove_last erases the dictionary entry of the removed position on every path '
           'that found it (%d paths)' % len(with_find), '%s:%d' % (rel(f['file']), f['line']), not bad,
           '' if not bad else 'a path [decisions: %s] leaves the entry: the next cell inserted at that position keeps '
           'the stale bar (try_emplace) and its death closes the wrong interval' % '; '.join(
               ('' if pol else '!') + ir.show(c)[:40] for c, pol, _ in bad[0].conds if not isinstance(c, tuple))[:160],
           key='E2n|RU_pairing::_remove_last|bar-entry')


# ------------------------------------------------------------------ E2n a freed position leaves the bar dictionary

def run_position_dictionary(chk, F):
    """E2n: with removable columns the chain barcode is a list and _indexToBar() maps positions to its bars. The
    insertions register a position with try_emplace, which keeps an existing key: every path of
    Chain_matrix::_remove_last that gives a position back (`--_nextPosition()`) therefore erases that position's entry
    exactly once - a stale key would make the next cell inserted at that position write into the old bar."""
    fs = [f for f in F.functions if f.get('clsname') == 'Chain_matrix' and f['name'] == '_remove_last' and
          f.get('inst') in (0, 2) and f.get('body') is not None]
    if len(fs) != 1:
        raise AnalysisBroken('C05: Chain_matrix::_remove_last not found')
    f = fs[0]

    def cl(x):
        t = ir.show(x).replace(' ', '')
        if x.get('k') == 'UnaryOperator' and x.get('op') == '--' and '_nextPosition()' in t:
            return ['FREE']
        if ir.is_call(x) and ir.call_name(x) == 'erase' and t.startswith('_indexToBar()'):
            return ['DROP']
        return []
    ps = paths.enumerate_paths(f, cl, loop_mode='01', keep_conds=True, cap=20000)
    bad = None
    n = 0
    for p in ps:
        if p.end == 'throw':
            continue
        tags = p.tags()
        if 'FREE' not in tags:
            continue
        n += 1
        if tags.count('DROP') != tags.count('FREE') and bad is None:
            bad = p
    if n == 0:
        raise AnalysisBroken('C05: Chain_matrix::_remove_last no longer gives a position back')
    chk.count('chain removal paths freeing a position', n)
    chk.ob('E2n-position-dictionary', 'Chain_matrix::_remove_last erases the dictionary entry of the position it gives '
           'back on every path (%d paths)' % n, '%s:%d' % (rel(f['file']), f['line']), bad is None,
           '' if bad is None else 'a path decrements _nextPosition() and erases %d entries of _indexToBar(): the '
           'position stays registered, try_emplace of the next insertion keeps the stale bar [decisions: %s]' %
           (bad.tags().count('DROP'), '; '.join(('' if pol else '!') + ir.show(c)[:50] for c, pol, _ in bad.conds
                                                if not isinstance(c, tuple))[:200]),
           key='E2n|Chain_matrix::_remove_last|position-dictionary')


# ------------------------------------------------------------------ E2g counters of the indexing layers never go below 0

def run_counter_guards(chk, F):
    """E2g-counter-guard: remove_last on an empty matrix is a no-op in every flavour (each core matrix starts with
    `if (<its counter> == 0) return;`). The indexing overlays keep their own unsigned counters (next index, next
    position): every path of a remove_last that decrements a counter member has first established that this very
    counter is not zero - a guard on something else (a dictionary that keeps its null slots) does not protect it."""
    fams = ('Base_matrix', 'Boundary_matrix', 'RU_matrix', 'Chain_matrix', 'Id_to_index_overlay',
            'Position_to_index_overlay')
    n = 0
    for f in F.functions:
        if f.get('clsname') not in fams or f['name'] != 'remove_last' or f.get('inst') not in (0, 2) or \
                f.get('body') is None:
            continue

        def cl(x):
            if x.get('k') == 'UnaryOperator' and x.get('op') == '--':
                t = ir.skipcasts(x['c'][0])
                if t is not None and t.get('k') in ir.MEMBER_KINDS and (t.get('n') or '').startswith('next'):
                    return ['DEC:' + t['n']]
            return []
        if not ir.contains(f['body'], lambda y: bool(cl(y))):
            continue
        ps = paths.enumerate_paths(f, cl, loop_mode='01', keep_conds=True, cap=20000)
        bad = None
        for p in ps:
            if p.end == 'throw':
                continue
            known_pos = set()
            for tag, node in p.events:
                if tag == '?':
                    c, pol, _cx = node
                    if isinstance(c, tuple):
                        continue
                    t = ir.show(c).replace(' ', '').replace('(', '').replace(')', '')
                    for part in t.split('||') if not pol else t.split('&&'):
                        m = re.match(r'^(next\w+)==0$', part)
                        if m and not pol:
                            known_pos.add(m.group(1))
                        m = re.match(r'^(next\w+)(>0|!=0)$', part)
                        if m and pol:
                            known_pos.add(m.group(1))
                elif tag.startswith('DEC:'):
                    cnt = tag[4:]
                    if cnt not in known_pos and bad is None:
                        # a second counter decremented together with a guarded one of the same path is fine when both
                        # count the same insertions (nextIndex_ after nextPosition_)
                        if not known_pos:
                            bad = (cnt, node)
        n += 1
        chk.ob('E2g-counter-guard', '%s::remove_last decrements its counters only when they are not zero'
               % f['clsname'], '%s:%d' % (rel(f['file']), f['line']), bad is None,
               '' if bad is None else '`--%s` (line %s) on a path that never tested %s == 0: on an emptied matrix the '
               'unsigned counter wraps, the next insertion indexes / resizes with 2^32 - 1' %
               (bad[0], bad[1].get('l'), bad[0]), key='E2g|%s::remove_last|counter-guard' % f['clsname'])
    chk.expect_count('E2g-counter-guard', 'remove_last functions with counters', n, 4)


# ------------------------------------------------------------------ E11 identifiers are labels, not a dense range

def run_identifier_enumeration(chk, F):
    """E11-identifier-range: cell identifiers only have to increase along the filtration, they can have gaps. With
    the map container the identifier dictionary has exactly the used identifiers as keys, so code that counts
    through identifiers (`ID_index i = 0; ... ++i`) and looks each one up (`_id_to_index(i)`, `.at(i)`) is only valid
    in the arm of the vector dictionary (one slot per identifier below the largest): every such enumeration sits
    under `if constexpr (!has_map_column_container)` (or in the else-arm of the positive test)."""
    fns = [f for f in F.functions if f.get('clsname') == 'Id_to_index_overlay' and f.get('inst') in (0, 2) and
           f.get('body') is not None]
    n = 0
    for f in fns:
        par = ir.parents(f['body'])
        idvars = {x['n'] for x in ir.walk(f['body']) if x.get('k') == 'VarDecl' and
                  (x.get('t') or '').split('::')[-1].strip() == 'ID_index'}
        if not idvars:
            continue
        stepped = set()
        for x in ir.walk(f['body']):
            if x.get('k') == 'UnaryOperator' and x.get('op') in ('++', '--'):
                t = ir.skipcasts(x['c'][0])
                if t is not None and t.get('k') == 'DeclRefExpr' and t.get('n') in idvars:
                    stepped.add(t['n'])
        for v in sorted(stepped):
            looks = [x for x in ir.walk(f['body']) if ir.is_call(x) and ir.call_name(x) in ('_id_to_index', 'at') and
                     any(ir.show(a) == v for a in ir.call_args(x))]
            for x in looks:
                n += 1
                ok = False
                cur = x
                while id(cur) in par:
                    up = par[id(cur)]
                    if up.get('k') == 'IfStmt' and up.get('constexpr') and \
                            'has_map_column_container' in ir.show(up.get('cond')):
                        neg = ir.show(up['cond']).replace(' ', '').lstrip('(').startswith('!')
                        in_then = ir.contains(up.get('then'), lambda y: y is x)
                        if (neg and in_then) or (not neg and not in_then):
                            ok = True
                    cur = up
                chk.ob('E11-identifier-range', 'Id_to_index_overlay::%s: identifiers are enumerated by counting only '
                       'for the vector dictionary' % f['name'], '%s:%s' % (rel(f['file']), x.get('l')), ok,
                       '' if ok else '`%s` looks up the counter `%s`: with the map container an identifier that was '
                       'never used (a gap) is not a key - unordered_map::at throws, pivots do not map back to their '
                       'columns' % (ir.show(x), v), key='E11|Id_to_index_overlay::%s|identifier-range' % f['name'])
    chk.expect_count('E11-identifier-range', 'lookups of enumerated identifiers', n, 1)

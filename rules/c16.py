"""C16 toplex maps: re-insertion provenance (DESIGN 4/C16).

When a maximal simplex (toplex) is erased inside a loop over the toplexes and simplices are re-inserted in the same
iteration, the re-inserted simplices must be computed from the erased toplex: the faces of the toplex that survive
the operation are a function of that toplex. An insertion whose argument does not depend on the loop's toplex
re-creates something else and silently drops the other faces."""
from gsa import facts, ir, paths
from gsa.facts import Unit, rel, AnalysisBroken
from gsa.report import Check

UNITS = [Unit('misc', 'misc_pat.cpp', ['src/Toplex_map/'], no_inst=True)]
ERASERS = ('erase_maximal', 'erase_max')
INSERTERS = ('insert_simplex', 'insert_independent_simplex', 'insert_max_simplex')


def refs(e):
    return {x.get('id') for x in ir.walk(e) if x.get('k') == 'DeclRefExpr' and x.get('id') is not None}


def dependence(body, seeds):
    """ids of locals (declared or range-bound inside body) that are data-dependent on any id in seeds"""
    dep = set(seeds)
    changed = True
    while changed:
        changed = False
        for x in ir.walk(body):
            k = x.get('k')
            if k == 'VarDecl' and x.get('init') is not None and x.get('id') not in dep:
                if refs(x['init']) & dep:
                    dep.add(x['id'])
                    changed = True
            elif k == 'CXXForRangeStmt':
                v = x.get('var') or {}
                if v.get('id') not in dep and refs(x.get('range')) & dep:
                    dep.add(v.get('id'))
                    changed = True
            else:
                t = ir.write_target(x)
                if t is not None:
                    r = ir.access_root(t)
                    if r and r[0] == 'var' and r[1] not in dep and refs(x) & dep:
                        dep.add(r[1])
                        changed = True
    return dep


def run_face_only_reinsertion(chk, F):
    """insert_independent_simplex stores its argument without looking for stored faces of it: inside an
    erase-and-reinsert loop it may only receive a simplex obtained from the erased toplex by REMOVING vertices (a
    face); a simplex that received a new vertex (contraction, collapse) can contain another stored toplex and must
    go through insert_simplex"""
    n = 0
    for f in F.functions:
        if f.get('clsname') not in ('Toplex_map',) or f['inst'] not in (0, 2):
            continue
        for loop in ir.walk(f.get('body')):
            if loop.get('k') != 'CXXForRangeStmt':
                continue
            body = loop.get('body')
            calls = [x for x in ir.walk(body) if ir.is_call(x) and ir.call_name(x) == 'insert_independent_simplex']
            if not calls:
                continue
            # locals of the loop body that received a vertex
            grown = set()
            for x in ir.walk(body):
                if ir.is_call(x) and ir.call_name(x) in ('insert', 'emplace', 'push_back', 'emplace_back'):
                    r = ir.call_receiver(x)
                    rr = ir.access_root(r) if r is not None else None
                    if rr and rr[0] == 'var':
                        grown.add(rr[1])
            dep = dependence(body, grown) if grown else set()
            for c in calls:
                n += 1
                args = ir.call_args(c)
                bad = any(refs(a) & dep for a in args)
                chk.ob('E10-face-only', '%s::%s: insert_independent_simplex receives a face of the erased toplex'
                       % (f['clsname'], f['name']), '%s:%s' % (rel(f['file']), c.get('l')), not bad,
                       '' if not bad else 'the simplex %s received a new vertex in this iteration: it may strictly '
                       'contain another stored toplex, which insert_independent_simplex does not remove (the eager map '
                       'would store a non-maximal simplex)' % ir.show(args[0]),
                       key='E10|%s::%s|face-only' % (f['clsname'], f['name']))
    chk.expect_count('E10-face-only', 'insert_independent_simplex calls in loops', n, 1)


def run_remove_all_cofaces(chk, F):
    """remove_simplex deletes the simplex and ALL its stored cofaces: every path that erases a stored simplex does it
    inside the loop over the simplices stored at the pivot vertex (filtered by inclusion) - no path erases one
    simplex and returns without having walked that list"""
    n = 0
    for f in F.functions:
        if f.get('clsname') not in ('Toplex_map', 'Lazy_toplex_map') or f['name'] != 'remove_simplex' or \
                f['inst'] not in (0, 2):
            continue
        n += 1
        loops = [x for x in ir.walk(f['body']) if x.get('k') == 'CXXForRangeStmt' and 't0.at(' in ir.show(x.get('range'))]

        def cl(x, loops=loops):
            if ir.is_call(x) and ir.call_name(x) in ERASERS:
                return ['ERASE']
            if x.get('k') == 'CXXForRangeStmt' and any(x is l for l in loops):
                return ['$loop']
            return []
        ps = paths.enumerate_paths(f, cl, loop_mode='1', keep_conds=True)
        bad = None
        for p in ps:
            if 'ERASE' not in p.tags():
                continue
            in_loop = False
            ok = True
            for tag, node in p.events:
                if tag == '?' and not isinstance(node[0], tuple) and any(node[0] is l for l in loops) and node[1]:
                    in_loop = True
                if tag == 'ERASE' and not in_loop:
                    ok = False
            if not ok and bad is None:
                bad = p
        chk.ob('E2-all-cofaces', '%s::remove_simplex erases stored simplices only while walking the list of the pivot '
               'vertex' % f['clsname'], '%s:%d' % (rel(f['file']), f['line']), bad is None and bool(loops),
               '' if bad is None and loops else 'a path erases one stored simplex outside the loop over t0.at(v): '
               'other stored cofaces of the removed simplex survive (the lazy map keeps non-maximal simplices)',
               key='E2|%s::remove_simplex|all-cofaces' % f['clsname'])
    chk.expect_count('E2-all-cofaces', 'remove_simplex implementations', n, 2)


def run_insert_shortcut(chk, F):
    """E8-shortcut: Toplex_map::insert_simplex erases the stored simplices the new one covers. The general arm scans
    every stored simplex included in it; the shortcut arm erases only its facets, which is complete only when *every*
    facet is itself stored as a toplex (then no smaller face can be maximal). The guard of the shortcut is therefore
    a universal statement over facets(vertex_range): a flag initialised true and cleared for a non-maximal facet, or
    std::all_of - an existential guard (some facet is maximal) leaves other covered toplices stored."""
    fs = [f for f in F.functions if f.get('clsname') == 'Toplex_map' and f['name'] == 'insert_simplex' and
          f.get('inst') in (0, 2) and f.get('body') is not None]
    if len(fs) != 1:
        raise AnalysisBroken('C16: Toplex_map::insert_simplex not found')
    f = fs[0]
    where = '%s:%d' % (rel(f['file']), f['line'])
    # the shortcut: an if whose then-arm erases `get_key(facet)`-like things in a loop over facets(...) only
    cand = []
    for x in ir.walk(f['body']):
        if x.get('k') == 'IfStmt' and x.get('else') is not None:
            then_calls = [y for y in ir.walk(x.get('then')) if ir.is_call(y) and ir.call_name(y) in ERASERS]
            else_calls = [y for y in ir.walk(x.get('else')) if ir.is_call(y) and ir.call_name(y) in ERASERS]
            if then_calls and else_calls:
                cand.append(x)
    if len(cand) != 1:
        if not cand:
            chk.ob('E8-shortcut', 'Toplex_map::insert_simplex has no facet-only shortcut', where, True, '',
                   key='E8|Toplex_map::insert_simplex|shortcut', nontrivial=False)
            return
        raise AnalysisBroken('C16: several erasing if/else found in Toplex_map::insert_simplex')
    g = cand[0]
    cond = ir.skipcasts(g.get('cond'))
    ct = ir.show(cond).replace(' ', '')
    ok = None
    why = ''
    if cond.get('k') == 'DeclRefExpr':
        flag = cond['n']
        init_true = any(x.get('k') == 'VarDecl' and x.get('n') == flag and x.get('init') is not None and
                        ir.show(x['init']) == 'true' for x in ir.walk(f['body']))
        cleared = False
        for loop in ir.walk(f['body']):
            if loop.get('k') != 'CXXForRangeStmt' or 'facets(' not in ir.show(loop.get('range')):
                continue
            for y in ir.walk(loop.get('body')):
                if y.get('k') == 'IfStmt' and ir.show(y.get('cond')).replace(' ', '').startswith('!maximality(') and \
                        ir.contains(y.get('then'), lambda z: z.get('k') == 'BinaryOperator' and z.get('op') == '=' and
                                    ir.show(z['c'][0]) == flag and ir.show(z['c'][1]) == 'false'):
                    cleared = True
        sets_true = any(z.get('k') == 'BinaryOperator' and z.get('op') == '=' and ir.show(z['c'][0]) == flag and
                        ir.show(z['c'][1]) == 'true' for z in ir.walk(f['body']))
        ok = init_true and cleared and not sets_true
        why = '' if ok else 'the flag `%s` is not "true unless some facet is not maximal"' % flag
    elif 'all_of(' in ct:
        ok = True
    elif 'any_of(' in ct or ct.endswith('.empty()') or '.size()' in ct or ct.startswith('!') and '.empty()' in ct:
        ok = False
        why = 'the shortcut is taken when `%s`: an existential condition (some facet is a toplex) - a stored toplex ' \
              'that is a smaller face of the new simplex stays stored next to it' % ir.show(cond)
    else:
        raise AnalysisBroken('C16: the guard of the facet shortcut has a shape the rule does not know: %s' % ct)
    chk.ob('E8-shortcut', 'Toplex_map::insert_simplex takes the facet-only shortcut only when every facet is a toplex',
           '%s:%s' % (rel(f['file']), g.get('l')), ok, why, key='E8|Toplex_map::insert_simplex|shortcut')


def run(tier, replay=None):
    chk = Check('C16', tier,
                'Static decision of one information-flow clause of the toplex maps: in every loop over maximal '
                'simplices that erases the current toplex and re-inserts simplices in the same iteration, each '
                're-inserted simplex is data-dependent on the erased toplex (def-use closure over the loop body). '
                'A necessary condition of "removing a simplex deletes its cofaces and nothing else": the faces that '
                'survive are a function of the destroyed toplex. Membership answers for all histories, maximality and '
                'eager/lazy agreement are not decided.',
                'def-use / information-flow rule over the clang AST (E10)')
    F = facts.extract(UNITS)
    n_loops = 0
    for f in F.functions:
        if f.get('clsname') not in ('Toplex_map', 'Lazy_toplex_map') or f['inst'] not in (0, 2):
            continue
        for loop in ir.walk(f.get('body')):
            if loop.get('k') != 'CXXForRangeStmt':
                continue
            lv = (loop.get('var') or {}).get('id')
            body = loop.get('body')
            dep0 = dependence(body, {lv})
            erases = [x for x in ir.walk(body) if ir.is_call(x) and ir.call_name(x) in ERASERS
                      and refs(x) & dep0]
            if not erases:
                continue
            inserts = [x for x in ir.walk(body) if ir.is_call(x) and ir.call_name(x) in INSERTERS]
            if not inserts:
                continue
            n_loops += 1
            dep = dependence(body, {lv})
            # the toplex is erased before anything is re-inserted: insert_simplex looks stored simplices up (it
            # returns at once when its argument is covered; the lazy map's cleaning drops covered simplices), so a
            # face inserted while its toplex is still stored is lost when the toplex goes
            order = [x for x in ir.walk(body) if ir.is_call(x) and (x in erases or x in inserts)]
            first_ins = next((i for i, x in enumerate(order) if x in inserts), None)
            last_er = max((i for i, x in enumerate(order) if x in erases), default=None)
            ok_order = first_ins is None or last_er is None or last_er < first_ins
            chk.ob('E2-erase-first', '%s::%s: the toplex is erased before its faces / images are re-inserted'
                   % (f['clsname'], f['name']), '%s:%s' % (rel(f['file']), loop.get('l')), ok_order,
                   '' if ok_order else '%s(...) at line %s runs while the toplex %s is still stored (erased at line '
                   '%s): a face of a stored simplex is covered, the insertion is dropped, and nothing is left once '
                   'the toplex is erased' % (ir.call_name(order[first_ins]), order[first_ins].get('l'),
                                             (loop.get('var') or {}).get('n'), order[last_er].get('l')),
                   key='E2|%s::%s|erase-first' % (f['clsname'], f['name']))
            for ins in inserts:
                args = ir.call_args(ins)
                ok = any(refs(a) & dep for a in args)
                chk.ob('E10-provenance', '%s::%s: %s(...) after %s(%s) uses the erased toplex'
                       % (f['clsname'], f['name'], ir.call_name(ins), ir.call_name(erases[0]),
                          (loop.get('var') or {}).get('n')),
                       '%s:%s' % (rel(f['file']), ins.get('l')), ok,
                       '' if ok else 'the re-inserted simplex %s does not depend on the erased toplex %s: the other '
                       'faces of that toplex are lost' % (ir.show(args[0]) if args else '?',
                                                          (loop.get('var') or {}).get('n')),
                       key='E10|%s::%s|%s' % (f['clsname'], f['name'], ir.call_name(ins)))
    run_face_only_reinsertion(chk, F)
    run_remove_all_cofaces(chk, F)
    run_insert_shortcut(chk, F)
    chk.count('erase-and-reinsert loops', n_loops)
    chk.expect_count('E10-provenance', 'erase-and-reinsert loops', n_loops, 6)
    chk.assumptions += ['clang 14 parser', 'dependence is syntactic def-use over the loop body (sound over-approximation '
                        'of data dependence; a dependence that cancels out is not detected)']
    return chk

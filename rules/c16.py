"""C16 toplex maps: re-insertion provenance (DESIGN 4/C16).

When a maximal simplex (toplex) is erased inside a loop over the toplexes and simplices are re-inserted in the same
iteration, the re-inserted simplices must be computed from the erased toplex: the faces of the toplex that survive
the operation are a function of that toplex. An insertion whose argument does not depend on the loop's toplex
re-creates something else and silently drops the other faces."""
from gsa import facts, ir
from gsa.facts import Unit, rel, AnalysisBroken
from gsa.report import Check

UNITS = [Unit('misc', 'misc_pat.cpp', ['src/Toplex_map/'], no_inst=True)]
ERASERS = ('erase_maximal', 'erase_max')
INSERTERS = ('insert_simplex', 'insert_independent_simplex', 'insert_max_simplex')


def refs(e):
    return {x.get('id') for x in ir.walk(e) if x.get('k') == 'DeclRefExpr' and x.get('id') is not None}


def dependence(body, seeds):
    """ids of locals (declared or range-bound inside body) that are data-dependent on any id in seeds"""
    dep = set(seeds)
    changed = True
    while changed:
        changed = False
        for x in ir.walk(body):
            k = x.get('k')
            if k == 'VarDecl' and x.get('init') is not None and x.get('id') not in dep:
                if refs(x['init']) & dep:
                    dep.add(x['id'])
                    changed = True
            elif k == 'CXXForRangeStmt':
                v = x.get('var') or {}
                if v.get('id') not in dep and refs(x.get('range')) & dep:
                    dep.add(v.get('id'))
                    changed = True
            else:
                t = ir.write_target(x)
                if t is not None:
                    r = ir.access_root(t)
                    if r and r[0] == 'var' and r[1] not in dep and refs(x) & dep:
                        dep.add(r[1])
                        changed = True
    return dep


def run(tier, replay=None):
    chk = Check('C16', tier,
                'Static decision of one information-flow clause of the toplex maps: in every loop over maximal '
                'simplices that erases the current toplex and re-inserts simplices in the same iteration, each '
                're-inserted simplex is data-dependent on the erased toplex (def-use closure over the loop body). '
                'A necessary condition of "removing a simplex deletes its cofaces and nothing else": the faces that '
                'survive are a function of the destroyed toplex. Membership answers for all histories, maximality and '
                'eager/lazy agreement are not decided.',
                'def-use / information-flow rule over the clang AST (E10)')
    F = facts.extract(UNITS)
    n_loops = 0
    for f in F.functions:
        if f.get('clsname') not in ('Toplex_map', 'Lazy_toplex_map') or f['inst'] not in (0, 2):
            continue
        for loop in ir.walk(f.get('body')):
            if loop.get('k') != 'CXXForRangeStmt':
                continue
            lv = (loop.get('var') or {}).get('id')
            body = loop.get('body')
            dep0 = dependence(body, {lv})
            erases = [x for x in ir.walk(body) if ir.is_call(x) and ir.call_name(x) in ERASERS
                      and refs(x) & dep0]
            if not erases:
                continue
            inserts = [x for x in ir.walk(body) if ir.is_call(x) and ir.call_name(x) in INSERTERS]
            if not inserts:
                continue
            n_loops += 1
            dep = dependence(body, {lv})
            for ins in inserts:
                args = ir.call_args(ins)
                ok = any(refs(a) & dep for a in args)
                chk.ob('E10-provenance', '%s::%s: %s(...) after %s(%s) uses the erased toplex'
                       % (f['clsname'], f['name'], ir.call_name(ins), ir.call_name(erases[0]),
                          (loop.get('var') or {}).get('n')),
                       '%s:%s' % (rel(f['file']), ins.get('l')), ok,
                       '' if ok else 'the re-inserted simplex %s does not depend on the erased toplex %s: the other '
                       'faces of that toplex are lost' % (ir.show(args[0]) if args else '?',
                                                          (loop.get('var') or {}).get('n')),
                       key='E10|%s::%s|%s' % (f['clsname'], f['name'], ir.call_name(ins)))
    chk.count('erase-and-reinsert loops', n_loops)
    chk.expect_count('E10-provenance', 'erase-and-reinsert loops', n_loops, 6)
    chk.assumptions += ['clang 14 parser', 'dependence is syntactic def-use over the loop body (sound over-approximation '
                        'of data dependence; a dependence that cancels out is not detected)']
    return chk

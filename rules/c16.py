"""C16 toplex maps: re-insertion provenance (DESIGN 4/C16).

When a maximal simplex (toplex) is erased inside a loop over the toplexes and simplices are re-inserted in the same
iteration, the re-inserted simplices must be computed from the erased toplex: the faces of the toplex that survive
the operation are a function of that toplex. An insertion whose argument does not depend on the loop's toplex
re-creates something else and silently drops the other faces."""
import re

from gsa import facts, ir, paths
from gsa.facts import Unit, rel, AnalysisBroken
from gsa.report import Check

UNITS = [Unit('misc', 'misc_pat.cpp', ['src/Toplex_map/'], no_inst=True)]
ERASERS = ('erase_maximal', 'erase_max')
INSERTERS = ('insert_simplex', 'insert_independent_simplex', 'insert_max_simplex', 'store_simplex')


def refs(e):
    return {x.get('id') for x in ir.walk(e) if x.get('k') == 'DeclRefExpr' and x.get('id') is not None}


def dependence(body, seeds):
    """ids of locals (declared or range-bound inside body) that are data-dependent on any id in seeds"""
    dep = set(seeds)
    changed = True
    while changed:
        changed = False
        for x in ir.walk(body):
            k = x.get('k')
            if k == 'VarDecl' and x.get('init') is not None and x.get('id') not in dep:
                if refs(x['init']) & dep:
                    dep.add(x['id'])
                    changed = True
            elif k == 'CXXForRangeStmt':
                v = x.get('var') or {}
                if v.get('id') not in dep and refs(x.get('range')) & dep:
                    dep.add(v.get('id'))
                    changed = True
            else:
                t = ir.write_target(x)
                if t is not None:
                    r = ir.access_root(t)
                    if r and r[0] == 'var' and r[1] not in dep and refs(x) & dep:
                        dep.add(r[1])
                        changed = True
    return dep


def run_face_only_reinsertion(chk, F):
    """insert_independent_simplex stores its argument without looking for stored faces of it: inside an
    erase-and-reinsert loop it may only receive a simplex obtained from the erased toplex by REMOVING vertices (a
    face); a simplex that received a new vertex (contraction, collapse) can contain another stored toplex and must
    go through insert_simplex"""
    n = 0
    for f in F.functions:
        if f.get('clsname') not in ('Toplex_map',) or f['inst'] not in (0, 2):
            continue
        for loop in ir.walk(f.get('body')):
            if loop.get('k') != 'CXXForRangeStmt':
                continue
            body = loop.get('body')
            calls = [x for x in ir.walk(body) if ir.is_call(x) and ir.call_name(x) == 'insert_independent_simplex']
            if not calls:
                continue
            # locals of the loop body that received a vertex
            grown = set()
            for x in ir.walk(body):
                if ir.is_call(x) and ir.call_name(x) in ('insert', 'emplace', 'push_back', 'emplace_back'):
                    r = ir.call_receiver(x)
                    rr = ir.access_root(r) if r is not None else None
                    if rr and rr[0] == 'var':
                        grown.add(rr[1])
            dep = dependence(body, grown) if grown else set()
            for c in calls:
                n += 1
                args = ir.call_args(c)
                bad = any(refs(a) & dep for a in args)
                chk.ob('E10-face-only', '%s::%s: insert_independent_simplex receives a face of the erased toplex'
                       % (f['clsname'], f['name']), '%s:%s' % (rel(f['file']), c.get('l')), not bad,
                       '' if not bad else 'the simplex %s received a new vertex in this iteration: it may strictly '
                       'contain another stored toplex, which insert_independent_simplex does not remove (the eager map '
                       'would store a non-maximal simplex)' % ir.show(args[0]),
                       key='E10|%s::%s|face-only' % (f['clsname'], f['name']))
    chk.expect_count('E10-face-only', 'insert_independent_simplex calls in loops', n, 1)


def run_remove_all_cofaces(chk, F):
    """remove_simplex deletes the simplex and ALL its stored cofaces: every path that erases a stored simplex does it
    inside the loop over the simplices stored at the pivot vertex (filtered by inclusion) - no path erases one
    simplex and returns without having walked that list"""
    n = 0
    for f in F.functions:
        if f.get('clsname') not in ('Toplex_map', 'Lazy_toplex_map') or f['name'] != 'remove_simplex' or \
                f['inst'] not in (0, 2):
            continue
        n += 1
        loops = [x for x in ir.walk(f['body']) if x.get('k') == 'CXXForRangeStmt' and 't0.at(' in ir.show(x.get('range'))]

        def cl(x, loops=loops):
            if ir.is_call(x) and ir.call_name(x) in ERASERS:
                return ['ERASE']
            if x.get('k') == 'CXXForRangeStmt' and any(x is l for l in loops):
                return ['$loop']
            return []
        ps = paths.enumerate_paths(f, cl, loop_mode='1', keep_conds=True)
        bad = None
        for p in ps:
            if 'ERASE' not in p.tags():
                continue
            in_loop = False
            ok = True
            for tag, node in p.events:
                if tag == '?' and not isinstance(node[0], tuple) and any(node[0] is l for l in loops) and node[1]:
                    in_loop = True
                if tag == 'ERASE' and not in_loop:
                    ok = False
            if not ok and bad is None:
                bad = p
        chk.ob('E2-all-cofaces', '%s::remove_simplex erases stored simplices only while walking the list of the pivot '
               'vertex' % f['clsname'], '%s:%d' % (rel(f['file']), f['line']), bad is None and bool(loops),
               '' if bad is None and loops else 'a path erases one stored simplex outside the loop over t0.at(v): '
               'other stored cofaces of the removed simplex survive (the lazy map keeps non-maximal simplices)',
               key='E2|%s::remove_simplex|all-cofaces' % f['clsname'])
    chk.expect_count('E2-all-cofaces', 'remove_simplex implementations', n, 2)


def run_insert_shortcut(chk, F):
    """E8-shortcut: Toplex_map::insert_simplex erases the stored simplices the new one covers. The general arm scans
    every stored simplex included in it; the shortcut arm erases only its facets, which is complete only when *every*
    facet is itself stored as a toplex (then no smaller face can be maximal). The guard of the shortcut is therefore
    a universal statement over facets(vertex_range): a flag initialised true and cleared for a non-maximal facet, or
    std::all_of - an existential guard (some facet is maximal) leaves other covered toplices stored."""
    fs = [f for f in F.functions if f.get('clsname') == 'Toplex_map' and f['name'] == 'insert_simplex' and
          f.get('inst') in (0, 2) and f.get('body') is not None]
    if len(fs) != 1:
        raise AnalysisBroken('C16: Toplex_map::insert_simplex not found')
    f = fs[0]
    where = '%s:%d' % (rel(f['file']), f['line'])
    # the shortcut: an if whose then-arm erases `get_key(facet)`-like things in a loop over facets(...) only
    cand = []
    for x in ir.walk(f['body']):
        if x.get('k') == 'IfStmt' and x.get('else') is not None:
            then_calls = [y for y in ir.walk(x.get('then')) if ir.is_call(y) and ir.call_name(y) in ERASERS]
            else_calls = [y for y in ir.walk(x.get('else')) if ir.is_call(y) and ir.call_name(y) in ERASERS]
            if then_calls and else_calls:
                cand.append(x)
    if len(cand) != 1:
        if not cand:
            chk.ob('E8-shortcut', 'Toplex_map::insert_simplex has no facet-only shortcut', where, True, '',
                   key='E8|Toplex_map::insert_simplex|shortcut', nontrivial=False)
            return
        raise AnalysisBroken('C16: several erasing if/else found in Toplex_map::insert_simplex')
    g = cand[0]
    cond = ir.skipcasts(g.get('cond'))
    while cond is not None and cond.get('k') == 'ParenExpr' and cond.get('c'):
        cond = ir.skipcasts(cond['c'][0])
    # `flag == true` / `flag != false` are the flag itself
    if cond is not None and cond.get('k') == 'BinaryOperator' and cond.get('op') in ('==', '!='):
        a_, b_ = ir.skipcasts(cond['c'][0]), ir.skipcasts(cond['c'][1])
        for x_, y_ in ((a_, b_), (b_, a_)):
            if x_ is not None and x_.get('k') == 'DeclRefExpr' and y_ is not None and \
                    y_.get('k') == 'CXXBoolLiteralExpr' and (y_.get('v') == 'true') == (cond['op'] == '=='):
                cond = x_
    ct = ir.show(cond).replace(' ', '')
    ok = None
    why = ''
    if cond.get('k') == 'DeclRefExpr':
        flag = cond['n']
        init_true = any(x.get('k') == 'VarDecl' and x.get('n') == flag and x.get('init') is not None and
                        ir.show(x['init']) == 'true' for x in ir.walk(f['body']))
        cleared = False
        for loop in ir.walk(f['body']):
            if loop.get('k') != 'CXXForRangeStmt' or 'facets(' not in ir.show(loop.get('range')):
                continue
            for y in ir.walk(loop.get('body')):
                if y.get('k') == 'IfStmt' and ir.show(y.get('cond')).replace(' ', '').startswith('!maximality(') and \
                        ir.contains(y.get('then'), lambda z: z.get('k') == 'BinaryOperator' and z.get('op') == '=' and
                                    ir.show(z['c'][0]) == flag and ir.show(z['c'][1]) == 'false'):
                    cleared = True
        sets_true = any(z.get('k') == 'BinaryOperator' and z.get('op') == '=' and ir.show(z['c'][0]) == flag and
                        ir.show(z['c'][1]) == 'true' for z in ir.walk(f['body']))
        ok = init_true and cleared and not sets_true
        why = '' if ok else 'the flag `%s` is not "true unless some facet is not maximal"' % flag
    elif 'all_of(' in ct:
        ok = True
    elif 'any_of(' in ct or ct.endswith('.empty()') or '.size()' in ct or ct.startswith('!') and '.empty()' in ct:
        ok = False
        why = 'the shortcut is taken when `%s`: an existential condition (some facet is a toplex) - a stored toplex ' \
              'that is a smaller face of the new simplex stays stored next to it' % ir.show(cond)
    else:
        raise AnalysisBroken('C16: the guard of the facet shortcut has a shape the rule does not know: %s' % ct)
    chk.ob('E8-shortcut', 'Toplex_map::insert_simplex takes the facet-only shortcut only when every facet is a toplex',
           '%s:%s' % (rel(f['file']), g.get('l')), ok, why, key='E8|Toplex_map::insert_simplex|shortcut')


def run_label_width(chk, F):
    """E4-label-width: "over any vertex labels": Vertex is std::size_t, and a label is never converted to a narrower
    integer type (an `int` copy of a label of 2^31 or more designates another vertex). Every integral conversion whose
    operand is typed Vertex keeps at least its width."""
    n = 0
    n_labels = 0
    bad = None
    for f in F.functions:
        if f.get('clsname') not in ('Toplex_map', 'Lazy_toplex_map') or f['inst'] not in (0, 2) or \
                f.get('body') is None:
            continue
        for x in ir.walk(f['body']):
            if 'Vertex' in (x.get('t') or '') and x.get('bits'):
                n_labels += 1
            if x.get('k') not in ir.CAST_KINDS or x.get('ck') != 'IntegralCast':
                continue
            ch = (x.get('c') or [None])[0]
            if ch is None or 'Vertex' not in (ch.get('t') or ''):
                continue
            n += 1
            if x.get('bits') is not None and ch.get('bits') is not None and x['bits'] < ch['bits'] and bad is None:
                bad = (f, x, ch)
    chk.count('conversions of vertex labels checked', n)
    chk.count('label-typed expressions inspected', n_labels)
    chk.expect_count('E4-label-width', 'label-typed expressions', n_labels, 20)
    chk.ob('E4-label-width', 'no vertex label is converted to a narrower integer type (%d conversions)' % n,
           'src/Toplex_map/include/gudhi', bad is None,
           '' if bad is None else '%s::%s line %s: `%s` (%s, %d bits) is converted to %s (%d bits): labels of 2^%d or '
           'more designate another vertex' % (bad[0]['clsname'], bad[0]['name'], bad[1].get('l'), ir.show(bad[2]),
                                              bad[2].get('t'), bad[2]['bits'], bad[1].get('t'), bad[1]['bits'],
                                              bad[1]['bits'] - 1),
           key='E4|toplex|label-width' if bad is None else 'E4|%s::%s|label-width' % (bad[0]['clsname'], bad[0]['name']))


# t0.erase(d) at the end of contraction: every simplex of d went through erase_max, which drops the key (and the queue
# entry) with the last one - the call finds nothing to erase
KEY_ERASE_NOOP = ('contraction',)


def run_handle_lockstep(chk, F):
    """E2-handle-lockstep: cp_handles[v] is the handle of v's node in cleaning_priority: the two containers change
    together. On every path of every function of Lazy_toplex_map, each push into the queue is followed by the
    registration of its handle, and a clear / erase of one container comes with the same operation on the other
    (a handle that outlives its node is used by the next update); the key of a vertex is erased from t0 together with
    its queue entry (a vertex that left the complex must not be picked for cleaning: clean() looks it up in t0)."""
    fns = [f for f in F.functions if f.get('clsname') == 'Lazy_toplex_map' and f['inst'] in (0, 2) and
           f.get('body') is not None]
    n = 0
    for f in fns:
        def cl(x):
            if ir.is_call(x) and ir.call_receiver(x) is not None:
                r = ir.show(ir.call_receiver(x))
                nm = ir.call_name(x)
                if r == 'cleaning_priority' and nm in ('push', 'emplace'):
                    return ['Q+']
                if r == 'cleaning_priority' and nm in ('clear', 'erase', 'pop'):
                    return ['Q-' + ('all' if nm == 'clear' else '1')]
                if r == 'cp_handles' and nm in ('emplace', 'insert', 'try_emplace', 'insert_or_assign'):
                    return ['H+']
                if r == 'cp_handles' and nm in ('clear', 'erase'):
                    return ['H-' + ('all' if nm == 'clear' else '1')]
                if r == 't0' and nm in ('erase', 'clear'):
                    return ['T-' + ('all' if nm == 'clear' else '1')]
            return []
        if not ir.contains(f['body'], lambda y: bool(cl(y))) or (f.get('kind') or '').endswith('ctor'):
            continue    # (the copy constructor rebuilds the handles for a queue copied by its initialiser: rule E1d)
        n += 1
        ps = paths.enumerate_paths(f, cl, loop_mode='1', keep_conds=True, cap=20000)
        bad = None
        for p in ps:
            t = p.tags()
            c = {k_: t.count(k_) for k_ in ('Q+', 'H+', 'Q-all', 'H-all', 'Q-1', 'H-1', 'T-1', 'T-all')}
            # the path has found that the vertex has no queue entry (find() == end()): nothing to take out
            no_entry = any(not isinstance(cc, tuple) and 'cp_handles.end()' in ir.show(cc) and
                           (('!=' in ir.show(cc)) != pol) for cc, pol, _ in p.conds)
            if (c['Q+'] != c['H+'] or c['Q-all'] != c['H-all'] or c['Q-1'] != c['H-1']) and bad is None:
                bad = c
            # a vertex whose key leaves t0 leaves the queue too (clean() looks the top of the queue up in t0)
            if f['name'] not in KEY_ERASE_NOOP and not no_entry and \
                    (c['T-1'] != c['Q-1'] or c['T-all'] != c['Q-all']) and bad is None:
                bad = c
        chk.ob('E2-handle-lockstep', 'Lazy_toplex_map::%s changes cleaning_priority and cp_handles together on every '
               'path (%d paths)' % (f['name'], len(ps)), '%s:%d' % (rel(f['file']), f['line']), bad is None,
               '' if bad is None else 'a path performs %s' % {k_: v for k_, v in bad.items() if v},
               key='E2|Lazy_toplex_map::%s|handle-lockstep' % f['name'])
    chk.expect_count('E2-handle-lockstep', 'functions changing the priority queue', n, 2)


def run_handle_copy(chk, F):
    """E1d: cp_handles holds handles into the sibling container cleaning_priority: the class cannot be copied
    member-wise (shared rule with C15: canonical member types, user-provided copy constructor that does not take the
    member from the source)."""
    import re
    cs = [c for c in F.classes if c['name'] == 'Lazy_toplex_map' and c.get('inst') == 2]
    if len(cs) != 1:
        raise AnalysisBroken('C16: class Lazy_toplex_map not found')
    c = cs[0]
    pairs = []
    for a in c['fields']:
        ct = a.get('ct') or ''
        if 'node_handle<' in ct or 'iterator' in ct:
            for b in c['fields']:
                if b is not a and re.match(r'boost::heap::', b.get('ct') or ''):
                    pairs.append((a, b))
    if not pairs:
        chk.ob('E1d-self-referential', 'Lazy_toplex_map has no member referring into a sibling container',
               '%s:%s' % (rel(c['file']), c['line']), True, '', key='E1d|Lazy_toplex_map|none', nontrivial=False)
        return
    for a, b in pairs:
        where = '%s:%s' % (rel(c['file']), a.get('l'))
        ok_decl = c.get('copy_ctor') in ('user', 'deleted') and c.get('copy_assign') in ('user', 'deleted')
        chk.ob('E1d-self-referential', 'Lazy_toplex_map: `%s` holds handles into `%s`: the copy members are '
               'user-provided or deleted' % (a['n'], b['n']), where, ok_decl,
               '' if ok_decl else 'copy constructor: %s, copy assignment: %s - a member-wise copy leaves the handles '
               'of the copy designating the nodes of the source\'s queue' % (c.get('copy_ctor'), c.get('copy_assign')),
               key='E1d|Lazy_toplex_map|%s|declared' % a['n'])
        for f in F.functions:
            if f.get('clsname') == 'Lazy_toplex_map' and f.get('kind') == 'copy_ctor' and f.get('body') is not None:
                src = f['params'][0]['n']
                bad = None
                for ini in f.get('inits', []) or []:
                    if ini.get('member') == a['n'] and ini.get('init') is not None and \
                            re.search(r'(?<!\w)%s\.%s(?!\w)' % (re.escape(src), re.escape(a['n'])),
                                      ir.show(ini['init'])):
                        bad = 'initialised from %s.%s' % (src, a['n'])
                for x in ir.walk(f['body']):
                    if x.get('k') in ('BinaryOperator', 'CXXOperatorCallExpr') and x.get('op') == '=':
                        cs_ = (x.get('c') or [])[-2:]
                        if len(cs_) == 2 and ir.show(cs_[0]).split('.')[-1] == a['n'] and \
                                ir.show(cs_[1]).endswith('%s.%s' % (src, a['n'])):
                            bad = 'assigned from %s.%s' % (src, a['n'])
                chk.ob('E1d-self-referential', 'Lazy_toplex_map: the copy constructor does not copy `%s` member-wise'
                       % a['n'], '%s:%d' % (rel(f['file']), f['line']), bad is None,
                       '' if bad is None else '`%s` is %s' % (a['n'], bad),
                       key='E1d|Lazy_toplex_map|%s|copy_ctor' % a['n'])


def run_label_sentinel(chk, F):
    """E4-label-sentinel: "over any vertex labels": VERTEX_UPPER_BOUND = max(size_t) is the value best_index starts
    from and the key under which the empty simplex is filed - it is also a legal vertex label, so no decision may
    read it as "there is no vertex": a vertex is never compared with VERTEX_UPPER_BOUND (an empty query is recognised
    on the range itself)."""
    uses = 0
    bad = []
    for f in F.functions:
        if f.get('inst') not in (0, 2) or f.get('body') is None or 'oplex_map' not in f['file']:
            continue
        for x in ir.walk(f['body']):
            if x.get('n') == 'VERTEX_UPPER_BOUND' and x.get('k') in ir.MEMBER_KINDS + ('DeclRefExpr',):
                uses += 1
            if x.get('k') in ('BinaryOperator', 'CXXOperatorCallExpr') and x.get('op') in ('==', '!=', '<', '>', '<=',
                                                                                        '>='):
                ab = x['c'] if x['k'] == 'BinaryOperator' else ir.call_args(x)
                if any((ir.skipcasts(y) or {}).get('n') == 'VERTEX_UPPER_BOUND' for y in ab):
                    bad.append((f, x))
    if uses < 2:
        raise AnalysisBroken('C16: VERTEX_UPPER_BOUND is no longer used in the toplex maps (%d uses)' % uses)
    chk.count('uses of VERTEX_UPPER_BOUND', uses)
    if not bad:
        chk.ob('E4-label-sentinel', 'no decision compares a vertex with VERTEX_UPPER_BOUND (%d uses of the constant, '
               'none in a comparison)' % uses, 'src/Toplex_map/include/gudhi/Toplex_map.h', True, '',
               key='E4|label-sentinel')
    for f, x in bad:
        chk.ob('E4-label-sentinel', '%s::%s does not read VERTEX_UPPER_BOUND as "no vertex"' % (
            f.get('clsname') or '-', f['name']), '%s:%s' % (rel(f['file']), x.get('l')), False,
            '`%s`: max(size_t) is a legal vertex label; a simplex whose least loaded vertex carries it is treated as the '
            'empty query' % ir.show(x)[:70], key='E4|%s::%s|label-sentinel' % (f.get('clsname') or '-', f['name']))


def run_no_cleaning_in_snapshot(chk, F):
    """E2-snapshot-stable: a loop of the lazy map that walks a *snapshot* of the simplices stored under a vertex
    (`for (sptr : Simplex_ptr_set(t0.at(v)))`) erases and re-inserts simplices itself; a cleaning started from inside
    the loop erases simplices the snapshot still lists (erase_max then looks a vanished vertex up: out_of_range), and
    `clean` re-entered from itself need not terminate. No call in the body of such a loop reaches `clean` through the
    call graph of the class."""
    fns = {}
    for f in F.functions:
        if f.get('clsname') == 'Lazy_toplex_map' and f['inst'] in (0, 2) and f.get('body') is not None:
            fns.setdefault(f['name'], []).append(f)
    if 'clean' not in fns:
        raise AnalysisBroken('C16: Lazy_toplex_map::clean not found')
    graph = {n: {ir.call_name(x) for f in fl for x in ir.walk(f['body']) if ir.is_call(x) and
                 ir.call_name(x) in fns and (ir.is_this_call(x) or ir.call_receiver(x) is None)}
             for n, fl in fns.items()}

    def reaches_clean(name, seen=None):
        seen = seen if seen is not None else set()
        if name == 'clean':
            return ['clean']
        if name in seen:
            return None
        seen.add(name)
        for m in sorted(graph.get(name, ())):
            r = reaches_clean(m, seen)
            if r:
                return [name] + r
        return None
    n = 0
    for name, fl in fns.items():
        for f in fl:
            for lp in ir.walk(f['body']):
                if lp.get('k') != 'CXXForRangeStmt':
                    continue
                rt = ir.show(lp.get('range'))
                rn = lp.get('range') or {}
                snapshot = rn.get('k') in ('CXXFunctionalCastExpr', 'CXXConstructExpr', 'CXXTemporaryObjectExpr') and \
                    'Simplex_ptr_set' in (rn.get('t') or '')
                if not snapshot or 't0.at(' not in rt:
                    continue
                n += 1
                bad = None
                for x in ir.walk(lp.get('body')):
                    if ir.is_call(x) and ir.call_name(x) in fns and (ir.is_this_call(x) or ir.call_receiver(x) is None):
                        r = reaches_clean(ir.call_name(x))
                        if r:
                            bad = (x, r)
                            break
                chk.ob('E2-snapshot-stable', 'Lazy_toplex_map::%s: the loop over the snapshot %s starts no cleaning'
                       % (name, rt[:40]), '%s:%s' % (rel(f['file']), lp.get('l')), bad is None,
                       '' if bad is None else 'line %s: %s - a cleaning can erase simplices the snapshot still lists '
                       '(and clean() re-entered from its own loop need not end)' % (
                           bad[0].get('l'), ' -> '.join(bad[1])), key='E2|Lazy_toplex_map::%s|snapshot-stable' % name)
    cyc = None
    for m in sorted(graph.get('clean', ())):
        r = reaches_clean(m)
        if r:
            cyc = ['clean'] + r
            break
    chk.ob('E2-snapshot-stable', 'Lazy_toplex_map::clean is not re-entered from itself', '%s:%d' % (
        rel(fns['clean'][0]['file']), fns['clean'][0]['line']), cyc is None,
        '' if cyc is None else '%s: the recursion ends only if a cleaning lowers `size` or raises `size_lbound`, which '
        'a cleaning of an already clean vertex does not' % ' -> '.join(cyc), key='E2|Lazy_toplex_map::clean|re-entered')
    chk.expect_count('E2-snapshot-stable', 'loops over a snapshot of t0', n, 3)


def run_lower_bounds(chk, F):
    """E3-bound-no-wrap: size_lbound and the values of gamma0_lbounds are unsigned lower bounds: every decrement of or
    subtraction from one of them is guarded by a test that it is large enough (`> 0`, or a comparison with what is
    taken off); and a function that erases a stored simplex lowers them (an over-count makes the next subtraction
    wrap: the cleaning threshold becomes 0 or 2^64)."""
    n = 0
    for f in F.functions:
        if f.get('clsname') != 'Lazy_toplex_map' or f['inst'] not in (0, 2) or f.get('body') is None:
            continue
        bound_locals = {x['n'] for x in ir.walk(f['body']) if x.get('k') == 'VarDecl' and x.get('init') is not None and
                        'gamma0_lbounds.find(' in ir.show(x['init'])}

        def is_bound(e):
            t = ir.show(ir.skipcasts(e)).replace('this->', '')
            return t == 'size_lbound' or t.startswith('gamma0_lbounds[') or t.startswith('gamma0_lbounds.at(') or \
                any(t in (b + '->second', '(*%s).second' % b) for b in bound_locals)
        par = ir.parents(f['body'])
        for x in ir.walk(f['body']):
            tgt = None
            if x.get('k') == 'UnaryOperator' and x.get('op') in ('--', 'post--', 'pre--', 'postdec', 'predec') and \
                    is_bound(x['c'][0]):
                tgt = x['c'][0]
            elif x.get('k') == 'BinaryOperator' and x.get('op') in ('-', '-=') and is_bound(x['c'][0]):
                tgt = x['c'][0]
            if tgt is None:
                continue
            n += 1
            tt = ir.show(ir.skipcasts(tgt)).replace('this->', '')
            ok = False
            cur = x
            while id(cur) in par and not ok:
                up = par[id(cur)]
                if up.get('k') == 'IfStmt' and (cur is up.get('then') or ir.contains(up.get('then'), lambda y: y is x)):
                    ct = ir.show(up.get('cond')).replace('this->', '')
                    if re.search(re.escape(tt) + r'\s*(>|>=|!=)', ct):
                        ok = True
                if up.get('k') == 'ConditionalOperator' and re.search(re.escape(tt) + r'\s*(>|>=)', ir.show(up['c'][0])):
                    ok = True
                cur = up
            chk.ob('E3-bound-no-wrap', 'Lazy_toplex_map::%s: `%s` is decreased only when it is large enough' % (
                f['name'], tt), '%s:%s' % (rel(f['file']), x.get('l')), ok,
                '' if ok else '`%s`: an unsigned lower bound is decreased without a test: it wraps to 2^64 when the '
                'bound was an over-count' % ir.show(x)[:60], key='E3|Lazy_toplex_map::%s|bound-no-wrap' % f['name'])
    chk.count('decrements of the lower bounds', n)   # (no floor: the clause on erase_max below needs them)
    fs = [f for f in F.functions if f.get('clsname') == 'Lazy_toplex_map' and f['name'] == 'erase_max' and
          f['inst'] in (0, 2) and f.get('body') is not None]
    if len(fs) != 1:
        raise AnalysisBroken('C16: Lazy_toplex_map::erase_max not found')
    t = ' '.join(ir.show(x) for x in ir.walk(fs[0]['body']) if x.get('k') == 'UnaryOperator')
    ok = 'size_lbound' in t and '->second' in t and 'gamma0_lbounds' in ' '.join(
        ir.show(x) for x in ir.walk(fs[0]['body']) if x.get('k') == 'VarDecl')
    chk.ob('E3-bound-no-wrap', 'Lazy_toplex_map::erase_max lowers size_lbound and the bounds of the vertices of the '
           'erased simplex', '%s:%d' % (rel(fs[0]['file']), fs[0]['line']), ok,
           '' if ok else 'a stored simplex is erased and the lower bounds keep counting it: they drift above the real '
           'numbers and the next cleaning subtracts more than there is', key='E3|Lazy_toplex_map::erase_max|bounds-follow')


AT_EXEMPT = {'Lazy_toplex_map::clean': 'private; its callers pass the top of the cleaning queue or the result of '
                                        'best_index, both vertices of t0 (E2-handle-lockstep keeps the queue on the keys '
                                        'of t0)'}


def run_vertex_lookups(chk, F):
    """E12-vertex-known: `t0.at(x)` throws for a vertex that is not in the complex. Where x is a vertex *parameter*
    (given by the caller, who may name any label) every path to the lookup has decided `t0.count(x)` (or
    `t0.find(x) != t0.end()`): for an absent vertex the operation is the identity of the abstract complex."""
    n = 0
    for f in F.functions:
        if f.get('clsname') not in ('Toplex_map', 'Lazy_toplex_map') or f['inst'] not in (0, 2) or f.get('body') is None:
            continue
        vps = {q['n'] for q in f.get('params', []) if (q.get('t') or '').replace('const ', '').strip().endswith('Vertex')}
        if not vps:
            continue
        who = '%s::%s' % (f['clsname'], f['name'])

        def cl(x, vps=vps):
            if ir.is_call(x) and ir.call_name(x) == 'at' and ir.call_receiver(x) is not None and \
                    ir.show(ir.call_receiver(x)).replace('this->', '') == 't0':
                a = ir.call_args(x)
                if a and ir.show(ir.skipcasts(a[0])) in vps:
                    return ['AT']
            return []
        if not ir.contains(f['body'], lambda y: 'AT' in cl(y)):
            continue
        n += 1
        if who in AT_EXEMPT:
            chk.ob('E12-vertex-known', '%s looks its vertex parameter up without a test (%s)' % (who, AT_EXEMPT[who]),
                   '%s:%d' % (rel(f['file']), f['line']), True, '', key='E12|%s|vertex-known' % who, nontrivial=False)
            continue
        ps = paths.enumerate_paths(f, cl, loop_mode='01', keep_conds=True, cap=40000)
        bad = None
        for p in ps:
            known = set()
            for tag, node in p.events:
                if tag == '?':
                    c, pol = node[0], node[1]
                    if isinstance(c, tuple):
                        continue
                    t = ir.show(c).replace('this->', '').replace(' ', '')
                    for v in vps:
                        if (t in ('t0.count(%s)' % v, '(t0.count(%s))' % v) and pol) or \
                                (t in ('!t0.count(%s)' % v, '(!t0.count(%s))' % v) and not pol) or \
                                (('t0.find(%s)!=t0.end()' % v) in t and pol) or \
                                (('t0.find(%s)==t0.end()' % v) in t and not pol):
                            known.add(v)
                elif tag == 'AT':
                    v = ir.show(ir.skipcasts(ir.call_args(node)[0]))
                    if v not in known and bad is None:
                        bad = (node, v)
        chk.ob('E12-vertex-known', '%s looks a vertex parameter up in t0 only after testing that it is a vertex of the '
               'complex' % who, '%s:%d' % (rel(f['file']), f['line']), bad is None,
               '' if bad is None else 'line %s: `t0.at(%s)` on a path that never tested t0.count(%s): out_of_range for a '
               'label that is not in the complex' % (bad[0].get('l'), bad[1], bad[1]), key='E12|%s|vertex-known' % who)
    chk.expect_count('E12-vertex-known', 'functions looking a vertex parameter up', n, 4)


def run_heap_not_copied(chk, F):
    """E1d-heap-rebuilt: the copy constructor of boost::heap::fibonacci_heap leaves the `mark` of the cloned nodes
    uninitialised (read by the next update): the copy constructor of the lazy map fills its queue again instead of
    copying the one of the source."""
    fs = [f for f in F.functions if f.get('clsname') == 'Lazy_toplex_map' and f.get('kind') == 'copy_ctor' and
          f.get('body') is not None]
    if len(fs) != 1:
        raise AnalysisBroken('C16: copy constructor of Lazy_toplex_map not found')
    f = fs[0]
    src = f['params'][0]['n']
    bad = None
    for ini in f.get('inits', []) or []:
        if isinstance(ini, dict) and ini.get('member') == 'cleaning_priority' and ini.get('written') and \
                ini.get('init') is not None and ('%s.cleaning_priority' % src) in ir.show(ini['init']):
            bad = 'member initialiser cleaning_priority(%s.cleaning_priority)' % src
    for x in ir.walk(f['body']):
        if x.get('k') in ('BinaryOperator', 'CXXOperatorCallExpr') and x.get('op') == '=' and \
                ir.show(x).replace(' ', '').strip('()').startswith('cleaning_priority=%s.' % src):
            bad = 'assignment from %s.cleaning_priority' % src
    pushes = ir.contains(f['body'], lambda y: ir.is_call(y) and ir.call_name(y) in ('push', 'emplace') and
                         ir.call_receiver(y) is not None and ir.show(ir.call_receiver(y)) == 'cleaning_priority')
    ok = bad is None and pushes
    chk.ob('E1d-heap-rebuilt', 'Lazy_toplex_map: the copy constructor fills its priority queue by pushing',
           '%s:%d' % (rel(f['file']), f['line']), ok, '' if ok else (bad or 'no push into cleaning_priority') +
           ': the copied fibonacci_heap has nodes whose mark is uninitialised', key='E1d|Lazy_toplex_map|heap-rebuilt')


def run_shared_immutable(chk, F):
    """E1-shared-immutable: the simplices of a toplex map are held by std::shared_ptr and the copy of a map shares them
    with its source (the copy constructors copy the pointers): a stored simplex is never modified through its
    pointer - no call of a mutating member of the set (`erase, insert, emplace, clear, swap, merge, extract`) and no
    assignment whose receiver / target is reached through `operator->` / `operator*` of a shared_ptr. An edited simplex
    is a fresh copy (`Simplex sigma(*sptr)`)."""
    MUT = ('erase', 'insert', 'emplace', 'emplace_hint', 'clear', 'swap', 'merge', 'extract')

    def through_shared(e):
        e = ir.skipcasts(e)
        while e is not None and e.get('k') in ('ParenExpr', 'ImplicitCastExpr'):
            e = ir.skipcasts(e['c'][0])
        return e is not None and e.get('k') == 'CXXOperatorCallExpr' and e.get('op') in ('->', '*') and \
            'shared_ptr' in ((e.get('callee') or '') + (e.get('t') or ''))
    n = 0
    for f in F.functions:
        if f.get('clsname') not in ('Toplex_map', 'Lazy_toplex_map') or f['inst'] not in (0, 2) or \
                f.get('body') is None:
            continue
        derefs = [x for x in ir.walk(f['body']) if through_shared(x)]
        if not derefs:
            continue
        n += len(derefs)
        bad = None
        for x in ir.walk(f['body']):
            if ir.is_call(x) and ir.call_name(x) in MUT and ir.call_receiver(x) is not None and \
                    through_shared(ir.call_receiver(x)):
                bad = x
            t = ir.write_target(x)
            if t is not None and through_shared(t):
                bad = x
        chk.ob('E1-shared-immutable', '%s::%s reads the stored simplices through their pointers and never modifies '
               'them (%d dereferences)' % (f['clsname'], f['name'], len(derefs)), '%s:%d' % (rel(f['file']), f['line']),
               bad is None, '' if bad is None else 'line %s: `%s` changes a simplex in place: the copy of a map shares '
               'its simplices with the source (shared_ptr), the other map loses the same vertices' % (
                   bad.get('l'), ir.show(bad)[:60]), key='E1|%s::%s|shared-immutable' % (f['clsname'], f['name']))
    chk.expect_count('E1-shared-immutable', 'dereferences of stored simplices', n, 10)


def run_independent_order(chk, F):
    """E9-independent-order: `insert_independent_simplex` stores its argument without looking for stored faces of it
    ("must not contain one of the current toplices"). Where a function feeds it the simplices of a table indexed by
    size (`table.at(d)`), after the test `!membership(s)`, the sizes are visited in decreasing order: a simplex met
    later is then either a face of a stored one (filtered by the membership test) or independent. In increasing order
    nothing is filtered and a vertex stored next to its cofaces hides them from `maximal_cofaces`."""
    n = 0
    for f in F.functions:
        if f.get('clsname') not in ('Toplex_map', 'Lazy_toplex_map') or f['inst'] not in (0, 2) or \
                f.get('body') is None:
            continue
        for lp in ir.walk(f['body']):
            if lp.get('k') != 'ForStmt' or not ir.contains(lp.get('body'), lambda y: ir.is_call(y) and ir.call_name(y) ==
                                                          'insert_independent_simplex'):
                continue
            init = lp.get('init')
            var = init['decls'][0].get('n') if init is not None and init.get('k') == 'DeclStmt' and init.get('decls') \
                else None
            if var is None or not ir.contains(lp.get('body'), lambda y: ir.is_call(y) and ir.call_name(y) in
                                              ('at', 'operator[]') and var in ir.show(y)):
                continue
            n += 1
            inc = ir.show(lp.get('inc')).replace(' ', '') if lp.get('inc') is not None else ''
            down = inc in (var + '--', '--' + var, '(%s--)' % var, '(--%s)' % var) or ('-=' in inc)
            tested = ir.contains(lp.get('body'), lambda y: y.get('k') == 'IfStmt' and 'membership(' in
                                 ir.show(y.get('cond')) and ir.show(y.get('cond')).replace(' ', '').lstrip('(').startswith('!'))
            ok = down and tested
            chk.ob('E9-independent-order', '%s::%s feeds insert_independent_simplex by decreasing size, after a '
                   'membership test' % (f['clsname'], f['name']), '%s:%s' % (rel(f['file']), lp.get('l')), ok,
                   '' if ok else ('the loop on `%s` goes upwards (`%s`): faces are stored before their cofaces, nothing '
                                  'is filtered' % (var, inc) if not down else 'no `!membership(s)` test before the '
                                  'insertion'), key='E9|%s::%s|independent-order' % (f['clsname'], f['name']))
    chk.expect_count('E9-independent-order', 'size-indexed rebuild loops', n, 1)


def run_self_contraction(chk, F):
    """E12-distinct-contraction: `contraction(x, y)` of the lazy map ends by erasing the bucket of the vertex that went
    away (`t0.erase(d)`): every path to that statement has decided that the two arguments differ (`x == y` false, or a
    test of the two locals they were copied to) - with x == y the loop has just stored the simplices of x again and the
    erase removes them from the index."""
    fs = [f for f in F.functions if f.get('clsname') == 'Lazy_toplex_map' and f['name'] == 'contraction' and
          f['inst'] in (0, 2) and f.get('body') is not None]
    if len(fs) != 1:
        raise AnalysisBroken('C16: Lazy_toplex_map::contraction not found')
    f = fs[0]
    a, b = f['params'][0]['n'], f['params'][1]['n']

    def cl(x):
        if ir.is_call(x) and ir.call_name(x) == 'erase' and ir.call_receiver(x) is not None and \
                ir.show(ir.call_receiver(x)).replace('this->', '') == 't0':
            return ['ERASE']
        return []
    if not ir.contains(f['body'], lambda y: 'ERASE' in cl(y)):
        chk.ob('E12-distinct-contraction', 'Lazy_toplex_map::contraction erases no bucket itself',
               '%s:%d' % (rel(f['file']), f['line']), True, '', key='E12|Lazy_toplex_map::contraction|distinct',
               nontrivial=False)
        return
    ps = paths.enumerate_paths(f, cl, loop_mode='01', keep_conds=True, cap=20000)
    bad = None
    for p_ in ps:
        distinct = False
        for tag, node in p_.events:
            if tag == '?' and not isinstance(node[0], tuple):
                t = ir.show(node[0]).replace(' ', '').strip('()')
                if (t in ('%s==%s' % (a, b), '%s==%s' % (b, a), 'k==d', 'd==k') and not node[1]) or \
                        (t in ('%s!=%s' % (a, b), '%s!=%s' % (b, a), 'k!=d', 'd!=k') and node[1]):
                    distinct = True
            elif tag == 'ERASE' and not distinct and bad is None:
                bad = node
    chk.ob('E12-distinct-contraction', 'Lazy_toplex_map::contraction erases the bucket of the contracted vertex only '
           'when the two vertices differ (%d paths)' % len(ps), '%s:%d' % (rel(f['file']), f['line']), bad is None,
           '' if bad is None else 'line %s: `%s` is reached with %s == %s: the simplices of that vertex were just stored '
           'again and leave the index' % (bad.get('l'), ir.show(bad)[:30], a, b),
           key='E12|Lazy_toplex_map::contraction|distinct')


def run_contraction_exits_and_leftovers(chk, F):
    """E7-contraction-exits: `contraction(x, y)` identifies two vertices of the complex whether or not they span an
    edge: the lazy map leaves early only for an absent vertex or x == y (the conditions the eager map has or treats as
    the identity) - every `return` before its loop sits under a test on `t0.count(..)` or on the equality of the two
    arguments. E10-leftover-kept: what is left of an erased toplex after the vertex was taken out is re-inserted also
    when it is a single vertex: a re-insertion in an erase-and-reinsert loop is not placed under a test on the size of
    the simplex."""
    fs = [f for f in F.functions if f.get('clsname') == 'Lazy_toplex_map' and f['name'] == 'contraction' and
          f['inst'] in (0, 2) and f.get('body') is not None]
    if len(fs) != 1:
        raise AnalysisBroken('C16: Lazy_toplex_map::contraction not found')
    f = fs[0]
    a, b = f['params'][0]['n'], f['params'][1]['n']
    par = ir.parents(f['body'])
    loops = [x.get('l') or 0 for x in ir.walk(f['body']) if x.get('k') in ('CXXForRangeStmt', 'ForStmt')]
    first_loop = min(loops) if loops else 10 ** 9
    bad = None
    n = 0
    for r in ir.walk(f['body']):
        if r.get('k') != 'ReturnStmt' or (r.get('l') or 0) > first_loop:
            continue
        up = par.get(id(r))
        while up is not None and up.get('k') == 'CompoundStmt':
            up = par.get(id(up))
        n += 1
        t = ir.show(up.get('cond')).replace(' ', '').replace('this->', '') if up is not None and up.get('k') == 'IfStmt' else ''
        allowed = ('!t0.count(%s)' % a, '!t0.count(%s)' % b, '%s==%s' % (a, b), '%s==%s' % (b, a))
        ok = t in allowed or t in tuple('(%s)' % z for z in allowed) or ('t0.find(' in t and '==t0.end()' in t)
        if not ok and bad is None:
            bad = (r, t)
    chk.ob('E7-contraction-exits', 'Lazy_toplex_map::contraction leaves early only for an absent vertex or equal '
           'arguments (%d early returns)' % n, '%s:%d' % (rel(f['file']), f['line']), bad is None,
           '' if bad is None else 'line %s: `return` under `%s`: two vertices of the complex are not identified, the eager '
           'map identifies them' % (bad[0].get('l'), bad[1][:60] or 'no test'),
           key='E7|Lazy_toplex_map::contraction|exits')
    k = 0
    for f in F.functions:
        if f.get('clsname') not in ('Toplex_map', 'Lazy_toplex_map') or f['inst'] not in (0, 2) or f.get('body') is None:
            continue
        for loop in ir.walk(f['body']):
            if loop.get('k') != 'CXXForRangeStmt' or not ir.contains(loop.get('body'), lambda y: ir.is_call(y) and
                                                                    ir.call_name(y) in ERASERS):
                continue
            parl = ir.parents(loop.get('body'))
            for ins in ir.walk(loop.get('body')):
                if not (ir.is_call(ins) and ir.call_name(ins) in INSERTERS):
                    continue
                k += 1
                sized = None
                cur = ins
                while id(cur) in parl:
                    cur = parl[id(cur)]
                    if cur.get('k') == 'IfStmt' and re.search(r'size\(\)\s*(>|>=|!=|==)\s*\d', ir.show(cur.get('cond'))):
                        sized = cur
                chk.ob('E10-leftover-kept', '%s::%s: %s(...) of the leftover is not conditioned on its size' % (
                    f['clsname'], f['name'], ir.call_name(ins)), '%s:%s' % (rel(f['file']), ins.get('l')), sized is None,
                    '' if sized is None else '`%s` guards the re-insertion: a leftover of that size (a single vertex) is '
                    'dropped with the toplex, the vertex leaves the complex' % ir.show(sized.get('cond'))[:50],
                    key='E10|%s::%s|leftover-kept' % (f['clsname'], f['name']))
    chk.expect_count('E10-leftover-kept', 're-insertions in erase-and-reinsert loops', k, 4)


def run(tier, replay=None):
    chk = Check('C16', tier,
                'Static decision of one information-flow clause of the toplex maps: in every loop over maximal '
                'simplices that erases the current toplex and re-inserts simplices in the same iteration, each '
                're-inserted simplex is data-dependent on the erased toplex (def-use closure over the loop body). '
                'A necessary condition of "removing a simplex deletes its cofaces and nothing else": the faces that '
                'survive are a function of the destroyed toplex. Membership answers for all histories, maximality and '
                'eager/lazy agreement are not decided.',
                'def-use / information-flow rule over the clang AST (E10)')
    F = facts.extract(UNITS)
    n_loops = 0
    for f in F.functions:
        if f.get('clsname') not in ('Toplex_map', 'Lazy_toplex_map') or f['inst'] not in (0, 2):
            continue
        for loop in ir.walk(f.get('body')):
            if loop.get('k') != 'CXXForRangeStmt':
                continue
            lv = (loop.get('var') or {}).get('id')
            body = loop.get('body')
            dep0 = dependence(body, {lv})
            erases = [x for x in ir.walk(body) if ir.is_call(x) and ir.call_name(x) in ERASERS
                      and refs(x) & dep0]
            if not erases:
                continue
            inserts = [x for x in ir.walk(body) if ir.is_call(x) and ir.call_name(x) in INSERTERS]
            if not inserts:
                continue
            n_loops += 1
            dep = dependence(body, {lv})
            # the toplex is erased before anything is re-inserted: insert_simplex looks stored simplices up (it
            # returns at once when its argument is covered; the lazy map's cleaning drops covered simplices), so a
            # face inserted while its toplex is still stored is lost when the toplex goes
            order = [x for x in ir.walk(body) if ir.is_call(x) and (x in erases or x in inserts)]
            first_ins = next((i for i, x in enumerate(order) if x in inserts), None)
            last_er = max((i for i, x in enumerate(order) if x in erases), default=None)
            ok_order = first_ins is None or last_er is None or last_er < first_ins
            chk.ob('E2-erase-first', '%s::%s: the toplex is erased before its faces / images are re-inserted'
                   % (f['clsname'], f['name']), '%s:%s' % (rel(f['file']), loop.get('l')), ok_order,
                   '' if ok_order else '%s(...) at line %s runs while the toplex %s is still stored (erased at line '
                   '%s): a face of a stored simplex is covered, the insertion is dropped, and nothing is left once '
                   'the toplex is erased' % (ir.call_name(order[first_ins]), order[first_ins].get('l'),
                                             (loop.get('var') or {}).get('n'), order[last_er].get('l')),
                   key='E2|%s::%s|erase-first' % (f['clsname'], f['name']))
            for ins in inserts:
                args = ir.call_args(ins)
                ok = any(refs(a) & dep for a in args)
                chk.ob('E10-provenance', '%s::%s: %s(...) after %s(%s) uses the erased toplex'
                       % (f['clsname'], f['name'], ir.call_name(ins), ir.call_name(erases[0]),
                          (loop.get('var') or {}).get('n')),
                       '%s:%s' % (rel(f['file']), ins.get('l')), ok,
                       '' if ok else 'the re-inserted simplex %s does not depend on the erased toplex %s: the other '
                       'faces of that toplex are lost' % (ir.show(args[0]) if args else '?',
                                                          (loop.get('var') or {}).get('n')),
                       key='E10|%s::%s|%s' % (f['clsname'], f['name'], ir.call_name(ins)))
    run_face_only_reinsertion(chk, F)
    run_remove_all_cofaces(chk, F)
    run_insert_shortcut(chk, F)
    run_label_width(chk, F)
    run_label_sentinel(chk, F)
    run_handle_lockstep(chk, F)
    run_handle_copy(chk, F)
    run_no_cleaning_in_snapshot(chk, F)
    run_lower_bounds(chk, F)
    run_vertex_lookups(chk, F)
    run_heap_not_copied(chk, F)
    run_shared_immutable(chk, F)
    run_independent_order(chk, F)
    run_self_contraction(chk, F)
    run_contraction_exits_and_leftovers(chk, F)
    chk.count('erase-and-reinsert loops', n_loops)
    chk.expect_count('E10-provenance', 'erase-and-reinsert loops', n_loops, 6)
    chk.assumptions += ['clang 14 parser', 'dependence is syntactic def-use over the loop body (sound over-approximation '
                        'of data dependence; a dependence that cancels out is not detected)']
    return chk

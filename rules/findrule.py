"""E12f: an iterator obtained from `D.find(k)` is compared with `D.end()` before it is dereferenced, handed to erase()
or used as an insertion hint, on every path (typestate over the structured paths of each function). Sites where the
key is present by a class invariant are listed one by one, with the invariant, in the table handed in."""
import re

from gsa import ir, paths
from gsa.facts import rel, AnalysisBroken


def _find_decl(x):
    """(iterator name, container text) when x declares / assigns an iterator from a find()"""
    if x.get('k') == 'VarDecl' and x.get('init') is not None:
        i = ir.skipcasts(x['init'])
        if ir.is_call(i) and ir.call_name(i) == 'find' and ir.call_receiver(i) is not None:
            return x.get('n'), ir.show(ir.call_receiver(i)), x
    if x.get('k') == 'BinaryOperator' and x.get('op') == '=' and len(x.get('c') or []) == 2:
        l, r = ir.skipcasts(x['c'][0]), ir.skipcasts(x['c'][1])
        if l is not None and l.get('k') == 'DeclRefExpr' and ir.is_call(r) and ir.call_name(r) == 'find' and \
                ir.call_receiver(r) is not None:
            return l.get('n'), ir.show(ir.call_receiver(r)), x
    return None


def _uses(x, names):
    """iterator names dereferenced / erased at node x"""
    out = []
    k = x.get('k')
    if k in ir.MEMBER_KINDS and x.get('arrow') and x.get('c'):
        b = ir.skipcasts(x['c'][0])
        if b is not None and b.get('k') == 'DeclRefExpr' and b.get('n') in names:
            out.append(b['n'])
    if k == 'UnaryOperator' and x.get('op') == '*' and x.get('c'):
        b = ir.skipcasts(x['c'][0])
        if b is not None and b.get('k') == 'DeclRefExpr' and b.get('n') in names:
            out.append(b['n'])
    if k == 'CXXOperatorCallExpr' and x.get('op') in ('*', '->'):
        for a in ir.call_args(x)[:1]:
            b = ir.skipcasts(a)
            if b is not None and b.get('k') == 'DeclRefExpr' and b.get('n') in names:
                out.append(b['n'])
    if ir.is_call(x) and ir.call_name(x) in ('erase', 'extract'):
        for a in ir.call_args(x):
            b = ir.skipcasts(a)
            if b is not None and b.get('k') == 'DeclRefExpr' and b.get('n') in names:
                out.append(b['n'])
    return out


def _formula(cond, atoms, local_inits=None):
    """propositional skeleton of a branch condition: ('atom', i) / ('not', f) / ('and', f, g) / ('or', f, g); iterator
    comparisons with end() are normalised to one atom `<it>==end`, every other sub-expression is an opaque atom"""
    c = ir.skipcasts(cond)
    if c is None:
        return ('true',)
    k = c.get('k')
    if k == 'ParenExpr':
        return _formula(c['c'][0], atoms, local_inits)
    if k == 'DeclRefExpr' and local_inits and c.get('n') in local_inits:
        return _formula(local_inits[c['n']], atoms, local_inits)       # a bool local holding a test
    if k == 'UnaryOperator' and c.get('op') == '!':
        return ('not', _formula(c['c'][0], atoms, local_inits))
    if k == 'BinaryOperator' and c.get('op') in ('&&', '||'):
        return ('and' if c['op'] == '&&' else 'or', _formula(c['c'][0], atoms, local_inits),
                _formula(c['c'][1], atoms, local_inits))
    if (k == 'BinaryOperator' or k == 'CXXOperatorCallExpr') and c.get('op') in ('==', '!=') and not re.search(
            r'(\.|->)c?end\(\)', ir.show(c)):
        # a == b and a != b are one atom with two polarities
        ab = c['c'] if k == 'BinaryOperator' else ir.call_args(c)
        if len(ab) == 2:
            ta, tb = sorted(ir.show(x).replace(' ', '') for x in ab)
            at = ('atom', atoms.setdefault(ta + '==' + tb, len(atoms)))
            return at if c['op'] == '==' else ('not', at)
    if (k == 'BinaryOperator' or k == 'CXXOperatorCallExpr') and c.get('op') in ('==', '!='):
        a = c['c'] if k == 'BinaryOperator' else ir.call_args(c)
        if len(a) == 2:
            ta, tb = ir.show(a[0]).replace(' ', ''), ir.show(a[1]).replace(' ', '')
            for x, y in ((ta, tb), (tb, ta)):
                if re.fullmatch(r'\w+', x) and re.search(r'(\.|->)c?end\(\)$', y):
                    at = ('atom', atoms.setdefault(x + '==end', len(atoms)))
                    return at if c['op'] == '==' else ('not', at)
    t = ir.show(c).replace(' ', '')
    return ('atom', atoms.setdefault(t, len(atoms)))


def _ev(f, val):
    if f[0] == 'true':
        return True
    if f[0] == 'atom':
        return val[f[1]]
    if f[0] == 'not':
        return not _ev(f[1], val)
    if f[0] == 'and':
        return _ev(f[1], val) and _ev(f[2], val)
    return _ev(f[1], val) or _ev(f[2], val)


def _verdict(decisions, it):
    """decisions: [(cond node, polarity)] taken since the find(). Returns 'infeasible' when they contradict each other,
    'checked' when every valuation satisfying them has it != end, 'unchecked' otherwise."""
    atoms = {}
    fs = [(_formula(c, atoms), pol) for c, pol in decisions]
    target = atoms.setdefault(it + '==end', len(atoms))
    n = len(atoms)
    if n > 14:
        raise AnalysisBroken('E12f: too many atoms in the decisions guarding `%s`' % it)
    sat = False
    for m in range(1 << n):
        val = [(m >> i) & 1 == 1 for i in range(n)]
        if all(_ev(f, val) == pol for f, pol in fs):
            sat = True
            if val[target]:
                return 'unchecked'
    return 'checked' if sat else 'infeasible'


def run(chk, F, files, table, prop, floor):
    n = 0
    for f in F.functions:
        if f.get('inst') not in (0, 2) or f.get('body') is None or f['file'].split('/')[-1] not in files:
            continue
        decls = [d for d in (_find_decl(x) for x in ir.walk(f['body'])) if d]
        if not decls:
            continue
        names = {d[0] for d in decls}
        declnodes = {id(d[2]): d for d in decls}

        def cl(x, names=names, declnodes=declnodes):
            ev = []
            if id(x) in declnodes:
                ev.append('FIND:' + declnodes[id(x)][0])
            for u in _uses(x, names):
                ev.append('USE:' + u)
            return ev
        ps = paths.enumerate_paths(f, cl, loop_mode='01', keep_conds=True, cap=40000)
        owner = f.get('clsname') or '-'
        for it, cont, node in decls:
            n += 1
            bad = None
            used = False
            for p in ps:
                decisions = None        # None: the iterator is not in scope
                for ev in p.events:
                    if ev[0] == 'FIND:' + it and ev[1] is node:
                        decisions = []
                    elif ev[0].startswith('FIND:' + it):
                        decisions = None
                    elif ev[0] == '?' and decisions is not None and not isinstance(ev[1][0], tuple):
                        decisions.append((ev[1][0], ev[1][1]))
                    elif ev[0] == 'USE:' + it and decisions is not None:
                        v = _verdict(decisions, it)
                        if v == 'infeasible':
                            break
                        used = True
                        if v == 'unchecked' and bad is None:
                            bad = ev[1]
                if bad is not None:
                    break
            key = '%s::%s|%s' % (owner, f['name'], cont.split('::')[-1].split('->')[-1])
            if bad is not None and key in table:
                chk.count('find() results used under a documented invariant')
                chk.ob('E12f-find-checked', '%s::%s: %s.find() is used unchecked under the invariant: %s' % (
                    owner, f['name'], cont, table[key]), '%s:%s' % (rel(f['file']), node.get('l')), True, '',
                    key='E12f|%s' % key, nontrivial=False)
                continue
            chk.ob('E12f-find-checked', '%s::%s: the iterator `%s` of %s.find() is compared with end() before it is '
                   'dereferenced or erased%s' % (owner, f['name'], it, cont, '' if used else ' (never dereferenced)'),
                   '%s:%s' % (rel(f['file']), node.get('l')), bad is None,
                   '' if bad is None else 'line %s: `%s` is used on a path that has not established %s != %s.end(): '
                   'for a key that is not in the dictionary this dereferences / erases end()' % (
                       bad.get('l'), ir.show(bad)[:60], it, cont), key='E12f|%s' % key)
    chk.expect_count('E12f-find-checked', '%s find() sites' % prop, n, floor)
